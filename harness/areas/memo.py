"""Shared Python for the Memo area (C20, C21, C22): deterministic keys and memo ids, an independent reference
gram builder / signature check (used by generators and oracles, never by the model), and the instrumented
Memoer subclass through which the REAL code is driven (scripted transport, recorded sign/verify calls)."""
import base64
import errno
import hashlib

import pysodium

B64 = "ABCDEFGHIJKLMNOPQRSTUVWXYZabcdefghijklmnopqrstuvwxyz0123456789-_"
ZCODES = ["bAAA", "bAAC", "bAAE", "bAAG"]          # plain, auth, sure, sure+auth zeroth codes
PAIR = {"bAAA": "bAAB", "bAAC": "bAAD", "bAAE": "bAAF", "bAAG": "bAAH"}
SIGNED = {"bAAC", "bAAD", "bAAG", "bAAH", "bAAJ"}
# reference copy of the header part sizes (bz nz mz vz az); the oracle's own knowledge of the wire format
RSIZES = {"bAAA": (4, 4, 24, 0, 0), "bAAB": (4, 4, 24, 0, 0), "bAAC": (4, 4, 24, 44, 88), "bAAD": (4, 4, 24, 0, 88),
          "bAAE": (4, 4, 24, 0, 0), "bAAF": (4, 4, 24, 0, 0), "bAAG": (4, 4, 24, 44, 88), "bAAH": (4, 4, 24, 0, 88)}
UNREACH = ("ECONNREFUSED", "ENOENT", "ECONNRESET", "ENETRESET", "ENETUNREACH", "EHOSTUNREACH", "ENETDOWN", "EHOSTDOWN",
           "ETIMEDOUT", "ETIME")


def qb64(code, raw):
    ps = (3 - len(raw) % 3) % 3
    return code + base64.urlsafe_b64encode(bytes(ps) + raw)[ps:].decode()


_KEYS = {}


def key(i):
    """deterministic key i: dict(seed, vk, sk, vid, qvk, qss); even i: non-transferable 'B' vid, odd i: 'D' vid (keep lookup)"""
    if i not in _KEYS:
        seed = hashlib.sha256(b"verif-memo-key-%d" % i).digest()
        vk, sk = pysodium.crypto_sign_seed_keypair(seed)
        _KEYS[i] = dict(seed=seed, vk=vk, sk=sk, vid=qb64("B" if i % 2 == 0 else "D", vk), qvk=qb64("B", vk), qss=qb64("A", seed))
    return _KEYS[i]


def keep(n=4):
    from hio.core.memo import Keyage
    return {key(i)["vid"]: Keyage(qvk=key(i)["qvk"], qss=key(i)["qss"]) for i in range(n)}


def mid_of(seed):
    """deterministic 24 char memo id '0A' + 22 base64 chars"""
    return qb64("0A", hashlib.sha256(b"verif-memo-mid-%d" % seed).digest()[:16])


def i2b64(n, l):
    s = ""
    while n or len(s) < l:
        s = B64[n % 64] + s
        n //= 64
        if not n and len(s) >= l:
            break
    return s


def ref_sign(ki, ser):
    """qb64 signature text of key ki over ser"""
    return qb64("0B", pysodium.crypto_sign_detached(ser, key(ki)["sk"]))


def ref_gram(code, curt, mid, num, body, ki=None, vid_in_gram=None, sig=None):
    """independent construction of one gram: code, num (count for zeroth, number otherwise), mid text, body bytes;
    signed codes take key index ki; zeroth signed grams carry the vid"""
    bz, nz, mz, vz, az = RSIZES[code]
    head = code + i2b64(num, nz) + mid
    if vz:
        head += vid_in_gram if vid_in_gram is not None else key(ki)["vid"]
    headb = base64.urlsafe_b64decode(head.encode()) if curt else head.encode()
    fore = headb + body
    if az:
        s = sig if sig is not None else ref_sign(ki, fore)
        fore += base64.urlsafe_b64decode(s.encode()) if curt else s.encode()
    return fore


def ref_count(ml, zbz, nbz):
    """number of grams for ml body bytes, first gram holds zbz, the others nbz (zbz, nbz >= 1)"""
    return 1 if ml <= zbz else 1 + -(-(ml - zbz) // nbz)


def ref_overheads(code, curt):
    """(zeroth, non-zeroth) header+signature overhead in bytes on the wire"""
    z = sum(RSIZES[code])
    n = sum(RSIZES[PAIR[code]])
    return (3 * z // 4, 3 * n // 4) if curt else (z, n)


def ref_verify(kp, vid, sig, ser):
    """reference outcome of Memoer.verify(vid, sig, ser): 'ok' or the name of the exception class raised.
    vid/sig may be bytes or str; kp maps vid text -> (qvk, qss)"""
    import binascii
    try:
        if isinstance(vid, (bytes, bytearray)):
            vid = bytes(vid).decode()
        vk, code = _dec(vid, ("B", "D", "E"), 1, 44)
        if code != "B":
            if not kp.get(vid):
                return "MemoerVerifyError"
            vk, _ = _dec(kp[vid][0], ("B",), 1, 44)
        if isinstance(sig, (bytes, bytearray)):
            sig = bytes(sig).decode()
        try:
            raw, _ = _dec(sig, ("0B",), 2, 88)
        except _Bad:
            return "MemoerVerifyError"
        if isinstance(ser, str):
            ser = ser.encode()
        try:
            pysodium.crypto_sign_verify_detached(raw, ser, vk)
        except Exception:
            return "MemoerVerifyError"
        return "ok"
    except _Bad:
        return "MemoerError"
    except UnicodeDecodeError:
        return "UnicodeDecodeError"
    except binascii.Error:
        return "Error"


class _Bad(Exception):
    pass


def _dec(q, codes, hz, qz):
    code = q[:hz]
    if code not in codes:      # NB the tree writes `code not in ('B')` for single-code tuples: substring test, '' passes
        if not (len(codes) == 1 and code in codes[0]):
            raise _Bad()
    if len(q) != qz:
        raise _Bad()
    hz = len(code)
    pz = hz % 4
    if len(codes) != 1 or codes[0] != "0B":
        if not (hz == pz == 1) and (hz != pz):
            raise _Bad()
    paw = base64.urlsafe_b64decode(pz * b"A" + q[hz:].encode())
    if int.from_bytes(paw[:pz], "big") != 0:
        raise _Bad()
    if len(paw[pz:]) != (qz - hz) * 3 // 4:
        raise _Bad()
    return paw[pz:], code


def errno_of(name):
    return getattr(errno, name)


def make_tm():
    """the instrumented subclass (built lazily so that importing this module does not import hio)"""
    from hio.core.memo import memoing

    class TM(memoing.Memoer):
        def __init__(self, *, mids=(), script=(), **kw):
            self._mids = list(mids)
            self._script = list(script)
            self.sendlog = []       # (dst, bytes offered, outcome)
            self.signlog = []       # (vid text, ser bytes, sig bytes as returned)
            self.verlog = []        # (vid bytes, sig bytes, ser bytes, outcome)
            super().__init__(**kw)

        def makeMID(self, code="0A"):
            if self._mids:
                return self._mids.pop(0)
            return mid_of(10 ** 9 + len(self.signlog))

        def send(self, gram, dst, *, echoic=False):
            offered = bytes(gram)
            step = self._script.pop(0) if self._script else ("a", len(offered))
            if step[0] == "a":
                n = min(step[1], len(offered))
                self.sendlog.append((dst, offered, ("a", n)))
                if self.echoic or echoic:
                    self.echos.append((offered[:n], dst))
                return n
            if step[0] == "w":
                self.sendlog.append((dst, offered, ("w",)))
                return 0
            self.sendlog.append((dst, offered, ("e", step[1])))
            raise OSError(errno_of(step[1]), "scripted " + step[1])

        def sign(self, vid, ser):
            sig = super().sign(vid, ser)
            self.signlog.append((vid if isinstance(vid, str) else bytes(vid).decode(), bytes(ser) if not isinstance(ser, str) else ser.encode(), bytes(sig)))
            return sig

        def verify(self, vid, sig, ser):
            rec = (bytes(vid) if not isinstance(vid, str) else vid.encode(), bytes(sig) if not isinstance(sig, str) else sig.encode(),
                   bytes(ser) if not isinstance(ser, str) else ser.encode())
            try:
                r = super().verify(vid, sig, ser)
            except BaseException as ex:
                self.verlog.append(rec + (type(ex).__name__,))
                raise
            self.verlog.append(rec + ("ok",))
            return r

    return TM


# --------------------------------------------------------------------------
# adapters: run the REAL code, return canonical observations (same shape as the driver's replies)

def _kp():
    return {k: (v.qvk, v.qss) for k, v in keep().items()}


def _vtab(verlog):
    """verify table for the model: every (vid, sig, ser) the real run asked about, with the REFERENCE outcome"""
    kp = _kp()
    seen = {}
    for vid, sig, ser, _real in verlog:
        seen.setdefault((vid, sig, ser), ref_verify(kp, vid, sig, ser))
    return [(v, s, m, o) for (v, s, m), o in seen.items()]


def _entries(r):
    out = []
    for mid, grams in r.rxgs.items():
        vid = r.vids.get(mid)
        out.append((mid.encode(), tuple((gn, bytes(b)) for gn, b in grams.items()), r.counts.get(mid),
                    vid.encode() if vid is not None else None, int(r.sources[mid][1:])))
    return tuple(out)


def run_rx_batches(r, batches):
    """feed batches through the echo transport, one serviceAllRx() per batch"""
    res = []
    for b in batches:
        for g, s in b:
            r.echos.append((bytes(g), f"s{s}"))
        try:
            r.serviceAllRx()
        except Exception as ex:   # an exception escaping the service call is an observation, not an adapter failure
            res.append(("escape", type(ex).__name__))
            break
        dl = tuple((m.encode(), int(s[1:]), v.encode() if v is not None else None) for m, s, v in r.inbox)
        r.inbox.clear()
        res.append((("delivered",) + dl, ("entries",) + _entries(r), ("queue", len(r.echos))))
    return res


def run_rx(authic, batches):
    TM = make_tm()
    r = TM(echoic=True, authic=authic, keep=keep())
    r.reopen()
    res = run_rx_batches(r, batches)
    return res, _vtab(r.verlog)


def run_e2e(code, curt, size, authic, ki, memos, sched, hist=()):
    """constructor (code, curt, size), then the history of property assignments, then rend of every memo, then scheduled delivery"""
    TM = make_tm()
    vid = key(ki)["vid"] if ki is not None else None
    try:
        s = TM(code=code, curt=curt, size=size, keep=keep(), vid=vid, mids=[mid_of(m[1]) for m in memos])
        for what, val in hist:
            setattr(s, what, val)          # .code / .curt / .size property setters
    except Exception as ex:
        return [("cfg-raise", type(ex).__name__)], [], [], None
    rends = []
    for text, _ms, _src in memos:
        try:
            gs = s.rend(bytes(text).decode(), vid)
            rends.append(("grams",) + tuple(bytes(g) for g in gs))
        except Exception as ex:
            s._mids[:] = s._mids   # makeMID may or may not have been consumed; keep alignment by explicit ids below
            rends.append(("raise", type(ex).__name__))
        # keep mid alignment: memo i always uses mid i
        s._mids = [mid_of(m[1]) for m in memos][len(rends):]
    batches = []
    for b in sched:
        bb = []
        for item in b:
            mi, gi = item[0], item[1]
            if mi < len(rends) and rends[mi][0] == "grams" and len(rends[mi]) > 1:
                gs = rends[mi][1:]
                bb.append((gs[gi % len(gs)], item[2] if len(item) > 2 else memos[mi][2]))
        batches.append(bb)
    r = TM(echoic=True, authic=authic, keep=keep())
    r.reopen()
    res = run_rx_batches(r, batches)
    stab = []
    seen = set()
    for v, ser, sig in s.signlog:
        if (v, ser) not in seen:
            seen.add((v, ser))
            stab.append((v.encode(), ser, sig))
    return [("cfg", s.code.encode(), bool(s.curt), s.size), ("rend",) + tuple(rends), ("rx",) + tuple(res)], stab, _vtab(r.verlog), s.size


def run_tx(grams, script, calls):
    TM = make_tm()
    t = TM(script=[tuple(x) for x in script])
    t.reopen()
    for g, d in grams:
        t.gramit(bytes(g), f"d{d}")
    res = []

    def state():
        return (("txgs",) + tuple((bytes(g), int(d[1:])) for g, d in t.txgs), ("txb", bytes(t.txbs[0])),
                ("dst", int(t.txbs[1][1:]) if t.txbs[1] is not None else None))

    def evs(k):
        out = []
        for dst, offered, r in t.sendlog[k:]:
            out.append((int(dst[1:]), offered, ("e", errno_of(r[1])) if r[0] == "e" else r))
        return tuple(out)
    for c in calls:
        if isinstance(c, (tuple, list)):
            t.gramit(bytes(c[1]), f"d{c[2]}")
            continue
        k = len(t.sendlog)
        try:
            if c == "g":
                t.serviceTxGrams()
            else:
                t.serviceTxGramsOnce()
        except Exception as ex:
            res.append(("call",) + evs(k))
            res.append(("escape", "OSError" if isinstance(ex, OSError) else type(ex).__name__, state()))
            return res
        res.append(("call",) + evs(k))
    res.append(("final", state()))
    return res


# --------------------------------------------------------------------------
# reference parser (oracle side): what a well-formed gram is, independent of the code under test

def ref_parse(d):
    """dict(code, zeroth, signed, num, mid, vid, sig, fore, body) for a datagram that has the layout of a memo gram, else None"""
    d = bytes(d)
    if not d:
        return None
    sextet = d[0] >> 2
    try:
        if sextet == 0o30:
            curt = False
            code = d[:4].decode("ascii")
        elif sextet == 0o33 and len(d) >= 3:
            curt = True
            code = base64.urlsafe_b64encode(d[:3]).decode()
        else:
            return None
        if code not in RSIZES:
            return None
        bz, nz, mz, vz, az = [3 * x // 4 if curt else x for x in RSIZES[code]]
        oz = bz + nz + mz + vz + az
        if len(d) < oz:
            return None
        conv = (lambda b: base64.urlsafe_b64encode(b).decode()) if curt else (lambda b: b.decode("utf-8"))   # mid / vid only need to be text
        if curt:
            num = int.from_bytes(d[bz:bz + nz], "big")
        else:
            t = d[bz:bz + nz].decode("ascii")
            if any(c not in B64 for c in t):
                return None
            num = 0
            for c in t:
                num = num * 64 + B64.index(c)
        mid = conv(d[bz + nz:bz + nz + mz])
        vid = conv(d[bz + nz + mz:bz + nz + mz + vz])
        sig = conv(d[len(d) - az:]) if az else ""
        fore = d[:len(d) - az] if az else d
        return dict(code=code, zeroth=code in ZCODES, signed=code in SIGNED, num=num, mid=mid, vid=vid, sig=sig, fore=fore, body=fore[oz - az:])
    except (UnicodeDecodeError, ValueError):
        return None


def can_assemble(text, parts, i=0, pos=0):
    """can `text` be written as one option from parts[0], then one from parts[1], …?"""
    if i == len(parts):
        return pos == len(text)
    for b in parts[i]:
        if text.startswith(b, pos) and can_assemble(text, parts, i + 1, pos + len(b)):
            return True
    return False
