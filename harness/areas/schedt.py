"""Shared Python for the timing half of the scheduler family (package Sched): C03, C04, C30.

Cases are the ("run", tock, start, limit, pool, specs) literals of harness/areas/sched.py (same adapter
`run_program`, same request format).  This module adds
  * generators for op-free, fault-free timing programs: non-dyadic tocks, start tymes != 0, limits that are
    not multiples of the tock, scripts in the patterns positive* asap*, asap-then-positive (pre-finding F46),
    mixed; random REGROUPINGS of consecutive siblings under DoDoer(tock=0, always=False) at every position,
    nested, and empty groups;
  * `flatten_specs`: splice every transparent group away (the inverse of any regrouping);
  * the implementation-side oracles of C03 (cycle model), C04 (nested run == flattened run, both REAL) and
    C30 (do() == asyncio ado(), both REAL), written from the property texts, not from the Lean model;
  * the request heads `flatpair` / `doado` of the model driver (added to Driver.lean for these checks).
"""
from .. import core, sx
from . import sched as S

NONDYADIC = (0.1, 0.3, 0.7, 1.0 / 3.0, 0.15, 1.1)
TOCKS = (0.03125, 0.1, 0.25, 0.5, 1.0, 0.3, 1.0 / 3.0, 0.7, 2.0)
STARTS = (0.0, 0.0, 1.0, 2.5, 0.3, 100.1, 7.0 / 3.0)


# --------------------------------------------------------------------------- program structure helpers

def is_group(s):
    return s[0] == "group"


def transparent(s):
    """a DoDoer the property C04 calls transparent: tock 0, not `always`"""
    return is_group(s) and s[2] == 0 and not s[3]


def flatten_specs(specs):
    """splice every transparent group away, at every depth (kids of a kept group are flattened in place)"""
    out = []
    for s in specs:
        if not is_group(s):
            out.append(s)
        elif transparent(s):
            out.extend(flatten_specs(s[4]))
        else:
            out.append(("group", s[1], s[2], s[3], flatten_specs(s[4]), s[5]))
    return out


def flatten_case(case):
    _, tock, start, limit, pool, specs = case
    return ("run", tock, start, limit, pool, flatten_specs(list(specs)))


def preorder(specs):
    out = []
    for s in specs:
        out.append(s[1])
        if is_group(s):
            out.extend(preorder(s[4]))
    return out


def spliced_ids(specs):
    """ids of the transparent groups (the ones flattening removes)"""
    out = []
    for s in specs:
        if is_group(s):
            if transparent(s):
                out.append(s[1])
            out.extend(spliced_ids(s[4]))
    return out


def op_free(case):
    return not any(S.has_op(s, w) for s in list(case[5]) + list(case[4]) for w in ("extend", "remove"))


def fault_free(case):
    for s, _, _ in S.all_specs(case):
        if s[0] == "leaf":
            if s[3] == "fail" or any(o in ("raise", "kbint") for _, o in s[4]):
                return False
    return True


def outs_of(leaf):
    """the outcomes a leaf produces at its successive resumes (a used-up script returns True)"""
    outs = []
    for _, o in leaf[4]:
        outs.append(o)
        if not (isinstance(o, tuple) and o[0] == "yield"):
            return outs
    outs.append(("ret", True))
    return outs


def is_asap(t):
    return not t          # None or 0.0, exactly the code's `not tock`


def breaks_g04(leaf):
    """script has a positive yield somewhere after an asap yield (the F46 pattern); returns the index of that step or None"""
    seen_asap = False
    for n, o in enumerate(outs_of(leaf)):
        if isinstance(o, tuple) and o[0] == "yield":
            if is_asap(o[1]):
                seen_asap = True
            elif seen_asap:
                return n
    return None


def chain_transparent(i, spec, par):
    """every ancestor of doer i is a DoDoer with tock 0 (so it is resumed in every cycle)"""
    a = par[i]
    while a != 0:
        if spec[a][2] != 0:
            return False
        a = par[a]
    return True


# --------------------------------------------------------------------------- generators

class TGen:
    def __init__(self, rng, tock=None):
        self.rng = rng
        self.tock = tock if tock is not None else rng.choice(TOCKS)
        self.next_id = 1

    def nid(self):
        self.next_id += 1
        return self.next_id - 1

    def pos(self):
        r, t = self.rng, self.tock
        return r.choice([t / 2, t, 1.5 * t, 2 * t, 2.5 * t, 3 * t, 5 * t, t + 0.1, 0.1, 0.3, 0.25, 0.7 * t, r.choice(NONDYADIC)])

    def asap(self):
        return None if self.rng.random() < 0.3 else 0.0

    def script(self, pattern=None):
        r = self.rng
        pattern = pattern or r.choice(["g04", "g04", "f46", "f46", "mixed", "mixed", "asap", "pos", "empty"])
        n = r.choice([1, 2, 3, 3, 4, 5, 6])
        if pattern == "empty":
            ys = []
        elif pattern == "asap":
            ys = [self.asap() for _ in range(n)]
        elif pattern == "pos":
            ys = [self.pos() for _ in range(n)]
        elif pattern == "g04":
            k = r.randrange(n + 1)
            ys = [self.pos() for _ in range(k)] + [self.asap() for _ in range(n - k)]
        elif pattern == "f46":
            k = r.randrange(1, 3)
            ys = [self.pos() for _ in range(r.randrange(2))] + [self.asap() for _ in range(k)] + [self.pos() for _ in range(r.randrange(1, 3))] \
                + [r.choice([self.asap(), self.pos()]) for _ in range(r.randrange(3))]
        else:
            ys = [r.choice([self.asap(), self.pos()]) for _ in range(n)]
        return ys

    def leaf(self, pattern=None):
        r = self.rng
        i = self.nid()
        ys = self.script(pattern)
        steps = [([], ("yield", y)) for y in ys]
        if r.random() < 0.35:
            steps.append(([], ("ret", r.choice([True, True, None, False]))))
        act = "ok"
        if r.random() < 0.05:
            act = ("done", r.choice([True, None, False]))
        shapes = [s for s in S.SHAPES if S.shape_ok(("leaf", i, s, act, steps))]
        return ("leaf", i, r.choice(shapes), act, steps)

    def forest(self, n, other_groups=0.0, depth=0):
        """n doers; with probability `other_groups` a doer is a NON-transparent DoDoer (tock > 0) of leaves"""
        r = self.rng
        out = []
        for _ in range(n):
            if depth < 2 and r.random() < other_groups:
                g = self.nid()
                out.append(("group", g, r.choice([self.tock, 2 * self.tock, 0.1, 0.3]), False,
                            self.forest(r.choice([1, 2, 3]), other_groups / 2, depth + 1), []))
            else:
                out.append(self.leaf())
        return out

    def regroup(self, specs, p=0.5, depth=0):
        """wrap random runs of consecutive siblings in transparent groups: at every level of the forest, nested, plus empty groups"""
        specs = [("group", s[1], s[2], s[3], self.regroup(list(s[4]), p * 0.6, depth + 1), s[5]) if is_group(s) else s for s in specs]
        return self._wrap(specs, p, depth)

    def _tgroup(self, kids):
        return ("group", self.nid(), 0.0, False, kids, [])

    def _wrap(self, specs, p, depth):
        r = self.rng
        if depth > 3:
            return specs
        out = []
        if r.random() < p * 0.15:
            out.append(self._tgroup([]))
        n = 0
        while n < len(specs):
            if r.random() < p:
                k = min(r.choice([1, 1, 2, 2, 3, len(specs) - n]), len(specs) - n)
                out.append(self._tgroup(self._wrap(specs[n:n + k], p * 0.6, depth + 1)))
                n += k
            else:
                out.append(specs[n])
                n += 1
            if r.random() < p * 0.15:
                out.append(self._tgroup([]))
        return out

    def limit(self, maybe_none=True):
        r, t = self.rng, self.tock
        if maybe_none and r.random() < 0.45:
            return None
        return r.choice([t / 2, t, 2.5 * t, 3 * t, 0.3, 1.0, -2 * t, 7 * t, 12 * t, 4.1 * t, 0.7, 9.99 * t, 20 * t])


def gen_timed(rng, kind="nested"):
    """op-free, fault-free timing program.  kind: flat | nested (transparent groups only) | hetero (also tock>0 groups) |
    f46 (a leaf under a transparent group yields positive after asap) | g04 (every script positive* asap*)"""
    g = TGen(rng)
    n = rng.choice([1, 2, 3, 3, 4, 5])
    if kind == "g04":
        specs = [g.leaf(rng.choice(["g04", "asap", "pos", "empty"])) for _ in range(n)]
    elif kind == "f46":
        specs = [g.leaf(rng.choice(["f46", "f46", "mixed", "g04"])) for _ in range(n)]
    elif kind == "hetero":
        specs = g.forest(n, 0.3)
    else:
        specs = g.forest(n)
    if kind != "flat":
        specs = g.regroup(specs, 0.6 if kind in ("f46", "g04") else 0.45)
        if kind in ("f46", "nested", "g04") and not any(is_group(s) for s in specs):
            specs = [("group", g.nid(), 0.0, False, specs, [])]
    return ("run", g.tock, rng.choice(STARTS), g.limit(), [], specs)


def regroupings_of(case, rng, k):
    """k random regroupings of the FLATTENED program of `case`"""
    flat = flatten_case(case)
    mx = max(S.all_ids(flat) + [0])
    out = []
    for _ in range(k):
        g = TGen(rng, flat[1])
        g.next_id = mx + 1
        out.append(("run", flat[1], flat[2], flat[3], flat[4], g.regroup(list(flat[5]), 0.6)))
    return out


def all_regroupings(specs, gid):
    """every way to wrap ONE run of consecutive top-level siblings (incl. the empty run at each position) in a
    transparent group, plus every way to do that twice (second wrap at top level or inside the first group)"""
    n = len(specs)
    once = []
    for a in range(n + 1):
        for b in range(a, n + 1):
            once.append(specs[:a] + [("group", gid, 0.0, False, specs[a:b], [])] + specs[b:])
    twice = []
    for o in once:
        m = len(o)
        for a in range(m + 1):
            for b in range(a + 1, m + 1):
                twice.append(o[:a] + [("group", gid + 1, 0.0, False, o[a:b], [])] + o[b:])
        gi = next(k for k, s in enumerate(o) if is_group(s))
        kids = o[gi][4]
        for a in range(len(kids) + 1):
            for b in range(a + 1, len(kids) + 1):
                inner = kids[:a] + [("group", gid + 1, 0.0, False, kids[a:b], [])] + kids[b:]
                twice.append(o[:gi] + [("group", gid, 0.0, False, inner, [])] + o[gi + 1:])
    return once + twice


# --------------------------------------------------------------------------- C03 oracle: the cycle model, from the property text

def _tick_table(start, tock, final):
    T = [start]
    while T[-1] < final and len(T) < 200000:
        T.append(T[-1] + tock)
    return T


def c03_analyse(case, d, nested_asap_rule="next-cycle"):
    """returns (clauses, {id: reason}) — which doers were resumed in a cycle other than the one the property names.
    nested_asap_rule = "next-cycle" is the property; "now" is what pre-finding F46 says the code does for a doer inside a DoDoer
    (due tyme after an asap yield = current tyme + the DoDoer's own tock 0) and is used ONLY by known() to recognise that defect."""
    bad = set()
    why = {}
    _, tock, start, limit, pool, specs = case
    tock, start = float(tock), float(start)
    tr = d["trace"]
    spec, par, pools, kids = S.spec_index(case)
    T = _tick_table(start, tock, d["tyme"])
    if T[-1] != d["tyme"]:
        return ["final-tyme-is-not-start-plus-whole-ticks"], why
    idx = {}
    for k, t in enumerate(T):
        idx.setdefault(t, k)
    ncyc = len(T) - 1 if d["raised"] == "-" else len(T)       # cycles that were started
    # every event observes a tyme of the tick table, tymes never go back, enters of the initial doers are at start
    last = 0
    cyc_recurs = {}
    enter_pos = {}
    resumes = {}
    for n, e in enumerate(tr):
        i, kind, t = e[0], e[1], e[2]
        if t not in idx:
            bad.add("event-tyme-is-not-start-plus-whole-ticks")
            continue
        k = idx[t]
        if k < last:
            bad.add("tyme-went-backwards")
        last = max(last, k)
        if kind == "recurBad":
            bad.add("recur-sent-tyme-differs-from-scheduler-tyme")
            kind = "recur"
        if kind == "enter":
            enter_pos[i] = n
        if kind == "recur":
            if k >= ncyc and d["raised"] == "-":
                bad.add("recur-after-last-cycle")
            cyc_recurs.setdefault(k, []).append(i)
            resumes.setdefault(i, []).append(k)
    # at most once per cycle, in enter order
    for k, ids in cyc_recurs.items():
        if len(set(ids)) != len(ids):
            bad.add("doer-resumed-twice-in-one-cycle")
        pos = [enter_pos.get(i, -1) for i in ids]
        if any(p < 0 for p in pos):
            bad.add("recur-without-enter")
        elif pos != sorted(pos):
            bad.add("cycle-order-differs-from-enter-order")
    # due tymes: only meaningful without ops/faults, for doers whose ancestors all run every cycle
    if op_free(case) and fault_free(case):
        cleaned = {e[0] for e in tr if e[1] == "clean"}
        for i, s in spec.items():
            if i not in enter_pos or not chain_transparent(i, spec, par):
                continue
            if s[0] == "leaf":
                if isinstance(s[3], tuple):
                    if resumes.get(i):
                        bad.add("resumed-after-completing-in-enter")
                    continue
                outs = outs_of(s)
            else:
                outs = None
            nested = par[i] != 0
            due = start
            kprev = -1
            obs = resumes.get(i, [])
            alive = True
            for j, k in enumerate(obs):
                if not alive:
                    bad.add("resumed-after-returning")
                    why[i] = "extra resume"
                    break
                want = next((c for c in range(kprev + 1, ncyc) if T[c] >= due), None)
                if want != k:
                    bad.add("resume-not-in-first-cycle-at-or-after-due")
                    why[i] = f"resume {j}: cycle {k} (tyme {T[k]}), due {due} -> first cycle {want}"
                    break
                kprev = k
                if outs is None:      # a DoDoer yields its own tock every time, until it is clean
                    o = ("yield", s[2])
                    if i in cleaned and j == len(obs) - 1:
                        alive = False
                        continue
                else:
                    o = outs[j] if j < len(outs) else ("ret", True)
                if isinstance(o, tuple) and o[0] == "yield":
                    if is_asap(o[1]):
                        due = T[k] + (tock if (not nested or nested_asap_rule == "next-cycle") else 0.0)
                    else:
                        due = due + o[1]
                else:
                    alive = False
            else:
                if alive:
                    want = next((c for c in range(kprev + 1, ncyc) if T[c] >= due), None)
                    if want is not None:
                        bad.add("due-doer-not-resumed")
                        why[i] = f"never resumed again although due {due} <= tyme {T[want]} of cycle {want}"
    return sorted(bad), why


# --------------------------------------------------------------------------- C04 oracle: two REAL runs

def leaf_view(case, d, dropped):
    """what C04 compares: events of every doer that is not a spliced group, its flags, scheduler done/tyme/raised"""
    ev = [tuple(e[:3]) for e in d["trace"] if e[0] not in dropped and e[1] != "doers"]
    return dict(events=ev, flags=[(i, b) for i, b in d["flags"] if i not in dropped], done=d["done"], tyme=d["tyme"],
                raised=d["raised"], late=len(d["late"]))


def c04_clauses(vn, vf):
    bad = []
    sel = lambda v, kinds: [e for e in v["events"] if e[1] in kinds]
    if sel(vn, ("enter",)) != sel(vf, ("enter",)):
        bad.append("enter-order-differs")
    if sel(vn, ("recur", "recurBad")) != sel(vf, ("recur", "recurBad")):
        bad.append("recur-steps-differ")
    if vn["tyme"] != vf["tyme"]:
        bad.append("completion-cycle-differs")
    if vn["done"] != vf["done"]:
        bad.append("scheduler-done-flag-differs")
    if vn["flags"] != vf["flags"]:
        bad.append("doer-done-flags-differ")
    if sel(vn, ("cease",)) != sel(vf, ("cease",)):
        bad.append("forced-exits-differ")
    if vn["raised"] != vf["raised"] or vn["late"] != vf["late"]:
        bad.append("raised-or-late-exits-differ")
    if not bad and vn["events"] != vf["events"]:
        bad.append("leaf-event-interleaving-differs")
    return bad


def first_divergence_tyme(vn, vf):
    for a, b in zip(vn["events"], vf["events"]):
        if a != b:
            return min(a[2], b[2])
    if len(vn["events"]) != len(vf["events"]):
        rest = vn["events"][len(vf["events"]):] or vf["events"][len(vn["events"]):]
        return rest[0][2]
    return None


def flat_parent(i, spec, par):
    """the scheduler doer i belongs to after flattening: nearest ancestor that is not a transparent group (0 = the Doist)"""
    a = par[i]
    while a != 0 and transparent(spec[a]):
        a = par[a]
    return a


def g04_break_reached(case, d, upto, any_tock0_parent=False):
    """trigger of C04-K1 (pre-finding F46): ids of leaves directly inside a transparent DoDoer whose flattened parent is the
    Doist or a DoDoer with tock > 0, that in run d performed a positive yield AFTER an asap yield at a tyme <= upto.
    any_tock0_parent=True is the trigger of C03-K1: the leaf sits directly inside ANY DoDoer with tock 0 (always or not)"""
    spec, par, pools, kids = S.spec_index(case)
    hit = []
    for i, s in spec.items():
        if s[0] != "leaf" or par[i] == 0:
            continue
        if any_tock0_parent:
            if spec[par[i]][2] != 0:
                continue
        else:
            if not transparent(spec[par[i]]):
                continue
            fp = flat_parent(i, spec, par)
            if fp != 0 and spec[fp][2] == 0:
                continue          # flattened parent is itself a tock-0 DoDoer: same asap rule on both sides
        n = breaks_g04(s)
        if n is None:
            continue
        rs = [e[2] for e in d["trace"] if e[0] == i and e[1] == "recur"]
        if len(rs) > n and (upto is None or rs[n] <= upto):
            hit.append(i)
    return hit


def skipped_transparent(case, d, upto):
    """trigger of C04-K2: ids of transparent DoDoers directly inside a DoDoer with tock > 0 that, in run d, were alive but NOT resumed
    in a cycle (tyme <= upto) in which that parent was resumed — the parent came round sooner than `tyme + its tock`"""
    spec, par, pools, kids = S.spec_index(case)
    hit = []
    for i, s in spec.items():
        if not transparent(s) or par[i] == 0 or spec[par[i]][2] == 0:
            continue
        mine = [e[2] for e in d["trace"] if e[0] == i and e[1] == "recur"]
        ended = [e[2] for e in d["trace"] if e[0] == i and e[1] in ("clean", "cease", "abort")]
        for t in [e[2] for e in d["trace"] if e[0] == par[i] and e[1] == "recur"]:
            if upto is not None and t > upto:
                break
            if ended and t > ended[0]:
                break
            if t not in mine:
                hit.append(i)
                break
    return hit


# --------------------------------------------------------------------------- C30 oracle: do() vs ado(), both REAL

def c30_clauses(a, b):
    bad = []
    if [e[:2] for e in a["trace"]] != [e[:2] for e in b["trace"]]:
        bad.append("event-traces-differ")
    elif a["trace"] != b["trace"]:
        bad.append("virtual-tymes-differ")
    if a["tyme"] != b["tyme"]:
        bad.append("completion-cycle-differs")
    if a["flags"] != b["flags"] or a["done"] != b["done"]:
        bad.append("done-flags-differ")
    if [e for e in a["trace"] if e[1] == "cease"] != [e for e in b["trace"] if e[1] == "cease"]:
        bad.append("forced-exits-differ")
    if a["raised"] != b["raised"]:
        bad.append("raised-differs")
    if len(a["late"]) != len(b["late"]) or a["doers"] != b["doers"]:
        bad.append("late-exits-or-doers-list-differ")
    return bad


# --------------------------------------------------------------------------- requests for the added driver heads

def request_head(head, case, *extra):
    r = S.request(case)
    if r == ("unmodelled",):
        return r
    return (head,) + tuple(extra) + tuple(r[1:])


class PairObs(tuple):
    """(view of run 1, view of run 2) = the reply the driver must print; raw dicts as .a / .b"""
    def __new__(cls, a, b):
        o = super().__new__(cls, ("unmodelled",) if a.get("unmodelled") else (S.obs_view(a), S.obs_view(b)))
        o.a = a
        o.b = b
        o.d = a
        return o

    def __reduce__(self):
        return (PairObs, (self.a, self.b))


class CancelObs(tuple):
    """view of the CANCELLED ado run (= the reply of the driver head adocancel); .a = reference do() run, .b = cancelled run"""
    def __new__(cls, a, b):
        o = super().__new__(cls, S.obs_view(b))
        o.a = a
        o.b = b
        o.d = b
        return o

    def __reduce__(self):
        return (CancelObs, (self.a, self.b))


def run_cancelled(case, j):
    """the REAL Doist.ado as an asyncio task that is cancelled by ANOTHER task while it is suspended at its (j+1)-th
    `await asyncio.sleep(0.0)`"""
    import asyncio
    import gc
    core.assert_tree()
    _, tock, start, limit, pool, specs = case
    rec = S.Rec()
    doist = S.make_doist(rec, tock, start, limit)
    rec.sched[0] = doist
    doers = [S.build(rec, sp, 0) for sp in specs]
    rec.pools[0] = [S.build(rec, sp, 0) for sp in pool]

    async def canceller(t):
        # ado suspends once per cycle (await asyncio.sleep(0.0)); this task gets one turn per suspension (FIFO ready queue)
        for _ in range(j):
            await asyncio.sleep(0.0)
        t.cancel()          # no-op when ado has already returned

    async def main():
        t = asyncio.ensure_future(doist.ado(doers=doers))
        c = asyncio.ensure_future(canceller(t))
        try:
            await t
        finally:
            c.cancel()
    raised, n = "-", None
    gc_was = gc.isenabled()
    gc.disable()
    try:
        loop = asyncio.SelectorEventLoop()
        try:
            try:
                loop.run_until_complete(main())
                n = len(rec.log)
            except asyncio.CancelledError:
                n = len(rec.log)
                raised = "cancelled"
            except S.SchedErr:
                n = len(rec.log)
                raised = "err"
            except KeyboardInterrupt:
                n = len(rec.log)
                raised = "kbint"
            except SystemExit:
                n = len(rec.log)
                raised = "sysexit"
            except Exception as ex:
                n = len(rec.log)
                raised = "other:" + type(ex).__name__
        finally:
            loop.close()
        gc.collect(1)
    finally:
        if gc_was:
            gc.enable()
    ids = sorted(rec.obj)
    leaf0 = S.Leaf(rec, ("leaf", -1, "doify", "ok", []), 0)
    return dict(unmodelled=False, trace=rec.log[:n], late=rec.log[n:], flags=[(i, bool(rec.obj[i].done)) for i in ids],
                done=bool(doist.done), tyme=doist.tyme, raised=raised, doers=leaf0.ids_of(doist.doers))


# --------------------------------------------------------------------------- run SEQUENCES: the same doer objects under two Doists

def run_second(case, first, mode="do"):
    """Build the doer objects of `case` ONCE, run them under a first Doist A (same tock, start tyme first[0], limit first[1] — usually
    cut short), then under a FRESH Doist B with the start tyme and limit of `case`; returns the observation of the SECOND run only.
    A run must not depend on earlier runs of the same doer objects: tymth is injected again by every enter (the model has no such
    state at all), so this observation is compared with the model's run of `case` and with the flat/nested/ado twin."""
    import asyncio
    import gc
    core.assert_tree()
    _, tock, start, limit, pool, specs = case
    rec = S.Rec()
    doers, poolobjs = None, None
    out = None
    gc_was = gc.isenabled()
    gc.disable()
    try:
        for k, (st, lim) in enumerate([(first[0], first[1]), (start, limit)]):
            doist = S.make_doist(rec, tock, st, lim)
            rec.sched[0] = doist
            if doers is None:
                doers = [S.build(rec, sp, 0) for sp in specs]
                poolobjs = [S.build(rec, sp, 0) for sp in pool]
            rec.pools[0] = poolobjs
            n0 = len(rec.log)
            raised, n = "-", None
            try:
                if mode == "do" or k == 0:
                    doist.do(doers=doers)
                else:
                    loop = asyncio.SelectorEventLoop()
                    try:
                        loop.run_until_complete(doist.ado(doers=doers))
                    finally:
                        loop.close()
                n = len(rec.log)
            except S.SchedErr:
                n = len(rec.log)
                raised = "err"
            except KeyboardInterrupt:
                n = len(rec.log)
                raised = "kbint"
            except SystemExit:
                n = len(rec.log)
                raised = "sysexit"
            except Exception as ex:
                n = len(rec.log)
                raised = "other:" + type(ex).__name__
            except S.Runaway:
                rec.dead = True
                n = len(rec.log)
                raised = "other:Runaway"
            gc.collect(1)
            ids = sorted(rec.obj)
            leaf0 = S.Leaf(rec, ("leaf", -1, "doify", "ok", []), 0)
            out = dict(unmodelled=S.unmodelled(case), trace=rec.log[n0:n], late=rec.log[n:], flags=[(i, bool(rec.obj[i].done)) for i in ids],
                       done=bool(doist.done), tyme=doist.tyme, raised=raised, doers=leaf0.ids_of(doist.doers), first_raised=None)
            if k == 0:
                first_obs = out
        out["first_raised"] = first_obs["raised"]
        out["first_tyme"] = first_obs["tyme"]
    finally:
        if gc_was:
            gc.enable()
    return out


def gen_first(rng, case):
    """(start tyme, limit) of the first Doist: mostly cut short, often ending AHEAD of the second run's start tyme"""
    t = float(case[1])
    return (rng.choice([0.0, 1.0, 2.5, 100.1, float(case[2]) + 7 * t, float(case[2])]), rng.choice([t, 2.5 * t, 3 * t, 4.1 * t, 7 * t, None, None]))


class SeqCases:
    """mixin for the scheduler checks: a case is a run case or ("seq", (start1, limit1), runcase) — `runcase` is what is observed and
    what the model is asked; the doer objects have been run before under another Doist"""
    seq_share = 0.3

    @staticmethod
    def base(case):
        return case[2] if case[0] == "seq" else case

    def with_seq(self, rng, cases):
        for c in cases:
            if c[0] == "run" and rng.random() < self.seq_share and op_free(c) and fault_free(c) and not S.unmodelled(c) \
                    and (c[3] is not None or not S.has_always(list(c[5]))):
                f = gen_first(rng, c)
                if f[1] is None and S.has_always(list(c[5])):
                    f = (f[0], 3 * float(c[1]))
                yield ("seq", f, c)
            else:
                yield c

    def seq_corpus(self, cases):
        return [("seq", f, c) for c in cases for f in ((0.0, 3.0 * float(c[1])), (float(c[2]) + 5.0, 2.5 * float(c[1])))
                if op_free(c) and fault_free(c) and (c[3] is not None or not S.has_always(list(c[5])))]

    def shrink(self, case):
        if case[0] == "seq":
            yield case[2]
            for c in super().shrink(case[2]):
                yield ("seq", case[1], c)
        elif case[0] == "run":
            yield from super().shrink(case)

    def mutate(self, rng, case):
        if case[0] == "seq":
            return [("seq", case[1], c) for c in super().mutate(rng, case[2]) if op_free(c) and fault_free(c)]
        return super().mutate(rng, case) if case[0] == "run" else []

    def nontrivial(self, case, obs):
        return super().nontrivial(self.base(case), obs)

    def features(self, case, obs):
        f = super().features(self.base(case), obs)
        if case[0] == "seq":
            f.append("second-run-of-the-same-doer-objects")
            if obs.d.get("first_tyme") is not None and obs.d["first_tyme"] > float(case[2][2]):
                f.append("first-doist-ended-ahead-of-second-start")
        return f


def c30_cancel_clauses(case, j, ref, c):
    """what a cancelled ado must still guarantee (ref = the uncancelled do() run of the same program)"""
    bad = []
    if c["raised"] != "cancelled":
        # the run ended before the (j+1)-th await: nothing may differ from the blocking run
        return ["uncancelled-ado-differs-from-do:" + x for x in c30_clauses(ref, c)]
    tr = c["trace"]
    sb = [n for n, e in enumerate(tr) if e[1] == "stopBeg"]
    if len(sb) != 1 or tr[-1][1] != "stopEnd":
        return ["cancelled-ado-did-not-run-exit-once"]
    if tr[:sb[0]] != ref["trace"][:sb[0]]:
        bad.append("schedule-before-cancellation-differs-from-do")
    if c["done"]:
        bad.append("done-true-after-cancellation")
    t = float(case[2])
    for _ in range(j + 1):
        t += float(case[1])
    if c["tyme"] != t:
        bad.append("cancelled-ado-tyme-is-not-j+1-ticks")
    if c["late"]:
        bad.append("doer-exited-only-by-gc-after-cancellation")
    # every entered doer is exited, forced exits in reverse enter order of the live ones
    state = {}
    for e in tr:
        if e[1] == "enter":
            state[e[0]] = "live"
        elif e[1] == "exit":
            state[e[0]] = "idle"
    if any(v == "live" for v in state.values()):
        bad.append("entered-doer-not-exited-after-cancellation")
    top = [sp[1] for sp in case[5]]
    pos = {}
    for n, e in enumerate(tr[:sb[0]]):
        if e[1] == "enter" and e[0] in top:
            pos[e[0]] = n
    closed = [e[0] for e in tr[sb[0]:] if e[1] == "cease" and e[0] in pos]
    if op_free(case) and [pos[i] for i in closed] != sorted((pos[i] for i in closed), reverse=True):
        bad.append("forced-exits-not-in-reverse-enter-order")
    return bad


class TObs(S.Obs):
    """S.Obs that survives pickling"""
    def __reduce__(self):
        return (TObs, (self.d,))


_RUNS = [0]


def settle_heap():
    """run_program ends with gc.collect(); the observations a check keeps make that full collection slower and slower
    (quadratic over a thorough run).  Every 100 runs move what is alive to the permanent generation."""
    import gc
    _RUNS[0] += 1
    if _RUNS[0] % 100 == 0:
        gc.freeze()


def _y(t=0.0):
    return ([], ("yield", t))


def _lf(i, ys, shape="doify", act="ok", ret=None):
    steps = [_y(t) for t in ys]
    if ret is not None:
        steps.append(([], ("ret", ret[0])))
    return ("leaf", i, shape, act, steps)


def _grp(i, kids, tock=0.0, always=False):
    return ("group", i, tock, always, kids, [])


# pre-finding F46 exactly as in DESIGN §7, and relatives
F46_WITNESS = ("run", 1.0, 0.0, None, [], [_grp(9, [_lf(1, [0.0, 2.5, 0.0, 0.0])]), _lf(2, [0.0] * 7, "plain")])
# known finding C04-K2 = model theorem transparent_under_lagging_dodoer_fails: DoDoer 7 (tock 3) under a Doist with tock 2 comes round
# at 0, 4, 6, 10, 12 ...; the transparent group 9 inside it is due at tyme + 3 and skips the recurs at 6 and 12
K2_WITNESS = ("run", 2.0, 0.0, None, [], [_grp(7, [_grp(9, [_lf(1, [1.0] * 5)])], 3.0)])
TIMING_CORPUS = [
    F46_WITNESS,
    K2_WITNESS,
    flatten_case(F46_WITNESS),
    # same, None instead of 0.0, generator-recur shape, two levels of nesting, non-dyadic tock, start != 0
    ("run", 0.1, 0.3, None, [], [_grp(9, [_grp(8, [_lf(1, [None, 0.25, None], "genrecur")]), _lf(3, [0.3, 0.3])]), _lf(2, [0.0] * 5, "plain")]),
    # G04-conforming nested program (positive* asap*): transparent
    ("run", 0.25, 1.0, None, [], [_grp(9, [_lf(1, [0.5, 0.3, 0.0, None], "bound"), _grp(8, []), _lf(3, [1.0], "genrecur", ret=(False,))]), _lf(2, [0.1, 0.1, 0.1])]),
    # limit that is not a multiple of the tock, forced exits of nested doers
    ("run", 0.3, 2.5, 1.0, [], [_lf(1, [0.0] * 9), _grp(9, [_lf(2, [0.7] * 5), _grp(8, [_lf(3, [0.0] * 9, "doize")])]), _lf(4, [2.0] * 3, "plain")]),
    # only empty groups / empty program body
    ("run", 1.0, 0.0, None, [], [_grp(9, []), _grp(8, [_grp(7, [])])]),
    ("run", 0.5, 0.0, 2.0, [], [_grp(9, [_lf(1, [], "plain", ("done", True))])]),
    # tock>0 group holding a transparent group
    ("run", 0.5, 0.0, None, [], [_grp(9, [_grp(8, [_lf(1, [0.0, 0.0]), _lf(2, [1.0, 0.0])])], 1.0), _lf(3, [0.25] * 4)]),
]
