"""Shared Python for the timing half of the scheduler family (package Sched): C03, C04, C30.

Cases are the ("run", tock, start, limit, pool, specs) literals of harness/areas/sched.py (same adapter
`run_program`, same request format).  This module adds
  * generators for op-free, fault-free timing programs: non-dyadic tocks, start tymes != 0, limits that are
    not multiples of the tock, scripts in the patterns positive* asap*, asap-then-positive (pre-finding F46),
    mixed; random REGROUPINGS of consecutive siblings under DoDoer(tock=0, always=False) at every position,
    nested, and empty groups;
  * `flatten_specs`: splice every transparent group away (the inverse of any regrouping);
  * the implementation-side oracles of C03 (cycle model), C04 (nested run == flattened run, both REAL) and
    C30 (do() == asyncio ado(), both REAL), written from the property texts, not from the Lean model;
  * the request heads `flatpair` / `doado` of the model driver (added to Driver.lean for these checks).
"""
from .. import core, sx
from . import sched as S

NONDYADIC = (0.1, 0.3, 0.7, 1.0 / 3.0, 0.15, 1.1)
TOCKS = (0.03125, 0.1, 0.25, 0.5, 1.0, 0.3, 1.0 / 3.0, 0.7, 2.0)
STARTS = (0.0, 0.0, 1.0, 2.5, 0.3, 100.1, 7.0 / 3.0, -1.5, -0.3)


# --------------------------------------------------------------------------- program structure helpers

def is_group(s):
    return s[0] == "group"


def transparent(s):
    """a DoDoer the property C04 calls transparent: tock 0, not `always`"""
    return is_group(s) and s[2] == 0 and not s[3]


def flatten_specs(specs):
    """splice every transparent group away, at every depth (kids of a kept group are flattened in place)"""
    out = []
    for s in specs:
        if not is_group(s):
            out.append(s)
        elif transparent(s):
            out.extend(flatten_specs(s[4]))
        else:
            out.append(("group", s[1], s[2], s[3], flatten_specs(s[4]), s[5]))
    return out


def flatten_case(case):
    _, tock, start, limit, pool, specs = case
    return ("run", tock, start, limit, pool, flatten_specs(list(specs)))


def preorder(specs):
    out = []
    for s in specs:
        out.append(s[1])
        if is_group(s):
            out.extend(preorder(s[4]))
    return out


def spliced_ids(specs):
    """ids of the transparent groups (the ones flattening removes)"""
    out = []
    for s in specs:
        if is_group(s):
            if transparent(s):
                out.append(s[1])
            out.extend(spliced_ids(s[4]))
    return out


def op_free(case):
    return not any(S.has_op(s, w) for s in list(case[5]) + list(case[4]) for w in ("extend", "remove"))


def fault_free(case):
    for s, _, _ in S.all_specs(case):
        if s[0] == "leaf":
            if s[3] in ("fail", "kbint", "sysexit") or any(o in ("raise", "kbint", "sysexit") for _, o in s[4]):
                return False
    return True


def outs_of(leaf):
    """the outcomes a leaf produces at its successive resumes (a used-up script returns True)"""
    outs = []
    for _, o in leaf[4]:
        outs.append(o)
        if not (isinstance(o, tuple) and o[0] == "yield"):
            return outs
    outs.append(("ret", True))
    return outs


def is_asap(t):
    return not t          # None or 0.0, exactly the code's `not tock`


def breaks_g04(leaf):
    """script has a positive yield somewhere after an asap yield (the F46 pattern); returns the index of that step or None"""
    seen_asap = False
    for n, o in enumerate(outs_of(leaf)):
        if isinstance(o, tuple) and o[0] == "yield":
            if is_asap(o[1]):
                seen_asap = True
            elif seen_asap:
                return n
    return None


def chain_transparent(i, spec, par):
    """every ancestor of doer i is a DoDoer with tock 0 (so it is resumed in every cycle)"""
    a = par[i]
    while a != 0:
        if spec[a][2] != 0:
            return False
        a = par[a]
    return True


# --------------------------------------------------------------------------- waiter doers: a doer that READS a sibling's .done

def is_waiter(sp):
    return sp[0] == "leaf" and len(sp[4]) == 1 and isinstance(sp[4][0][1], tuple) and sp[4][0][1][0] == "wait"


def waiter_leaf(i, target):
    """script `while not <doer target>.done: yield 0.0` then return True, as a function-style (doify) doer"""
    return ("leaf", i, "doify", "ok", [([], ("wait", target))])


def completion_cycle(tock, start, leaf):
    """cycle in which a G04-scripted leaf returns True by the property's rules (asap: next cycle; t > 0: previous due + t);
    -1 = done True at enter; None = its done flag never becomes True"""
    if isinstance(leaf[3], tuple):
        return -1 if leaf[3][1] is True else None
    if leaf[3] != "ok" or is_waiter(leaf) or breaks_g04(leaf) is not None:
        return None
    tock, t, due, k, c = float(tock), float(start), float(start), -1, 0
    for o in outs_of(leaf):
        c = k + 1
        if c > 0:
            t = t + tock
        while not (t >= due):
            t += tock
            c += 1
            if c > 20000:
                return None
        k = c
        if isinstance(o, tuple) and o[0] == "yield":
            due = (t + tock) if is_asap(o[1]) else due + o[1]
        elif isinstance(o, tuple) and o[0] == "ret":
            return k if o[1] is True else None
        else:
            return None
    return None


def _leaves_preorder(specs):
    out = []
    for sp in specs:
        if sp[0] == "leaf":
            out.append(sp)
        else:
            out.extend(_leaves_preorder(sp[4]))
    return out


def has_waiter(case):
    return any(is_waiter(sp) for sp in _leaves_preorder(case[5]))


def waiters_ok(case):
    """every waiter names a leaf of the program whose done flag does become True"""
    ls = _leaves_preorder(case[5])
    byid = {sp[1]: sp for sp in ls}
    for sp in ls:
        if is_waiter(sp):
            x = byid.get(sp[4][0][1][1])
            if x is None or completion_cycle(case[1], case[2], x) is None:
                return False
    return True


def compile_waiters(case):
    """the program the MODEL and the oracles see: each waiter replaced by the scripted leaf the property predicts for it — it is resumed
    in every cycle and returns True in the first of its resumes at which the target's done flag is True: the target's completion cycle
    when the waiter comes after it in the pass, the next one when it comes before"""
    if not has_waiter(case):
        return case
    ls = _leaves_preorder(case[5])
    order = {sp[1]: n for n, sp in enumerate(ls)}
    byid = {sp[1]: sp for sp in ls}

    def f(sp):
        if not is_waiter(sp):
            return sp
        x = byid[sp[4][0][1][1]]
        kx = completion_cycle(case[1], case[2], x)
        n = 0 if kx < 0 else (kx if order[sp[1]] > order[x[1]] else kx + 1)
        return ("leaf", sp[1], sp[2], sp[3], [([], ("yield", 0.0))] * n)
    return case[:5] + (S._map_leaves(list(case[5]), f),) + tuple(case[6:])


class waiters:
    """context manager: while active, harness/areas/sched.py builds REAL waiter doers for waiter leaves (its build_leaf is wrapped, the
    file is not touched)"""
    def __enter__(self):
        self.orig = S.build_leaf
        orig = self.orig

        def build_leaf(rec, spec, sid):
            if not is_waiter(spec):
                return orig(rec, spec, sid)
            from hio.base import doing
            i, target = spec[1], spec[4][0][1][1]

            def fn(tymth=None, tock=0.0, **opts):
                done = None
                try:
                    rec.ev(i, "enter", tymth())
                    sent = yield tock
                    while True:
                        rec.ev(i, "recur" if sent == tymth() else "recurBad", tymth())
                        if rec.obj[target].done:          # READS the sibling's done flag
                            done = True
                            break
                        sent = yield 0.0
                except GeneratorExit:
                    rec.ev(i, "cease", tymth())
                except Exception:
                    rec.ev(i, "abort", tymth())
                    raise
                else:
                    rec.ev(i, "clean", tymth())
                finally:
                    rec.ev(i, "exit", tymth())
                return done
            return doing.doify(fn, name=f"w{i}")
        S.build_leaf = build_leaf
        return self

    def __exit__(self, *a):
        S.build_leaf = self.orig
        return False


def add_waiters(rng, g, specs):
    """insert waiter doers next to / before / after eligible targets of a flat list of leaves (before regrouping)"""
    out = list(specs)
    cands = [sp for sp in out if sp[0] == "leaf" and completion_cycle(g.tock, g.start, sp) is not None]
    for _ in range(rng.choice([1, 1, 2])):
        if not cands:
            break
        x = rng.choice(cands)
        # function-style targets get their done flag from the SCHEDULER (return value); make most targets function-style
        if rng.random() < 0.7 and x[2] in ("plain", "genrecur"):
            x2 = ("leaf", x[1], rng.choice(["doify", "doize", "bound"]), x[3], x[4])
            out[out.index(x)] = x2
            cands[cands.index(x)] = x2
            x = x2
        w = waiter_leaf(g.nid(), x[1])
        at = out.index(x)
        out.insert(rng.choice([at + 1, at + 1, at + 1, at, len(out), 0]), w)
    return out


# --------------------------------------------------------------------------- generators

class TGen:
    def __init__(self, rng, tock=None, start=None):
        self.rng = rng
        self.tock = tock if tock is not None else rng.choice(TOCKS)
        self.start = start if start is not None else rng.choice(STARTS)
        self.next_id = 1

    def near_tick(self):
        """a positive yield that puts a due tyme (start + v) exactly on a later cycle tyme, or one ulp before / after it"""
        import math
        t = self.start
        for _ in range(self.rng.choice([1, 2, 3, 4, 6])):
            t += self.tock
        v = t - self.start
        v = self.rng.choice([v, math.nextafter(v, math.inf), math.nextafter(v, -math.inf)])
        return v if v > 0 else self.tock

    def nid(self):
        self.next_id += 1
        return self.next_id - 1

    def pos(self):
        r, t = self.rng, self.tock
        if r.random() < 0.12:
            return self.near_tick()
        return r.choice([t / 2, t, 1.5 * t, 2 * t, 2.5 * t, 3 * t, 5 * t, t + 0.1, 0.1, 0.3, 0.25, 0.7 * t, r.choice(NONDYADIC)])

    def asap(self):
        k = self.rng.random()
        return None if k < 0.3 else (-0.0 if k < 0.36 else 0.0)

    def script(self, pattern=None):
        r = self.rng
        pattern = pattern or r.choice(["g04", "g04", "f46", "f46", "mixed", "mixed", "asap", "pos", "empty"])
        n = r.choice([1, 2, 3, 3, 4, 5, 6])
        if pattern == "empty":
            ys = []
        elif pattern == "asap":
            ys = [self.asap() for _ in range(n)]
        elif pattern == "pos":
            ys = [self.pos() for _ in range(n)]
        elif pattern == "g04":
            k = r.randrange(n + 1)
            ys = [self.pos() for _ in range(k)] + [self.asap() for _ in range(n - k)]
        elif pattern == "f46":
            k = r.randrange(1, 3)
            ys = [self.pos() for _ in range(r.randrange(2))] + [self.asap() for _ in range(k)] + [self.pos() for _ in range(r.randrange(1, 3))] \
                + [r.choice([self.asap(), self.pos()]) for _ in range(r.randrange(3))]
        else:
            ys = [r.choice([self.asap(), self.pos()]) for _ in range(n)]
        return ys

    def leaf(self, pattern=None):
        r = self.rng
        i = self.nid()
        ys = self.script(pattern)
        steps = [([], ("yield", y)) for y in ys]
        if r.random() < 0.35:
            steps.append(([], ("ret", r.choice([True, True, None, False]))))
        act = "ok"
        if r.random() < 0.05:
            act = ("done", r.choice([True, None, False]))
        shapes = [s for s in S.SHAPES if S.shape_ok(("leaf", i, s, act, steps))]
        return ("leaf", i, r.choice(shapes), act, steps)

    def forest(self, n, other_groups=0.0, depth=0):
        """n doers; with probability `other_groups` a doer is a NON-transparent DoDoer (tock > 0) of leaves"""
        r = self.rng
        out = []
        for _ in range(n):
            if depth < 2 and r.random() < other_groups:
                g = self.nid()
                if r.random() < 0.35:      # a KEPT DoDoer that is resumed every cycle: always, tock 0 (needs a limit)
                    out.append(("group", g, 0.0, True, self.forest(r.choice([0, 1, 2, 3]), other_groups / 2, depth + 1), []))
                else:
                    out.append(("group", g, r.choice([self.tock, self.tock, 2 * self.tock, 0.1, 0.3]), False,
                                self.forest(r.choice([1, 2, 3]), other_groups / 2, depth + 1), []))
            else:
                out.append(self.leaf())
        return out

    def regroup(self, specs, p=0.5, depth=0):
        """wrap random runs of consecutive siblings in transparent groups: at every level of the forest, nested, plus empty groups"""
        specs = [("group", s[1], s[2], s[3], self.regroup(list(s[4]), p * 0.6, depth + 1), s[5]) if is_group(s) else s for s in specs]
        return self._wrap(specs, p, depth)

    def _tgroup(self, kids):
        return ("group", self.nid(), 0.0, False, kids, [])

    def _wrap(self, specs, p, depth):
        r = self.rng
        if depth > 3:
            return specs
        out = []
        if r.random() < p * 0.15:
            out.append(self._tgroup([]))
        n = 0
        while n < len(specs):
            if r.random() < p:
                k = min(r.choice([1, 1, 2, 2, 3, len(specs) - n]), len(specs) - n)
                out.append(self._tgroup(self._wrap(specs[n:n + k], p * 0.6, depth + 1)))
                n += k
            else:
                out.append(specs[n])
                n += 1
            if r.random() < p * 0.15:
                out.append(self._tgroup([]))
        return out

    def limit(self, maybe_none=True):
        r, t = self.rng, self.tock
        if maybe_none and r.random() < 0.45:
            return None
        if r.random() < 0.12:
            import math
            v = self.near_tick()           # the limit tymer expires exactly at a cycle end, or one ulp before / after
            return r.choice([v, -v])
        return r.choice([t / 2, t, 2.5 * t, 3 * t, 0.3, 1.0, -2 * t, 7 * t, 12 * t, 4.1 * t, 0.7, 9.99 * t, 20 * t, 0.0])


def gen_extend_pos(rng):
    """a TOP-LEVEL doer extends the Doist in MID cycle (doers before and after it in the pass) with pool doers that yield POSITIVE tocks
    larger than the scheduler tock: the added doer is first due at the tyme it was entered, and its later due tymes count from there"""
    g = TGen(rng)
    r, t = rng, g.tock
    big = lambda: r.choice([1.5 * t, 2 * t, 2.5 * t, 3 * t, t + 0.1, 5 * t])
    asap6 = lambda: [([], ("yield", g.asap())) for _ in range(r.choice([4, 6, 8]))]

    def lf(steps):
        i = g.nid()
        shapes = [sh for sh in S.SHAPES if S.shape_ok(("leaf", i, sh, "ok", steps))]
        return ("leaf", i, r.choice(shapes), "ok", steps)
    npool = r.choice([1, 1, 2])
    n = r.choice([2, 3, 4])
    ext_at = r.randrange(n)
    specs = []
    for k in range(n):
        steps = asap6()
        if k == ext_at:
            j = r.randrange(min(3, len(steps)))
            steps[j] = ([("extend", [r.randrange(npool) for _ in range(r.choice([1, 1, 2]))])], steps[j][1])
        elif r.random() < 0.3:
            steps = [([], ("yield", big()))] + steps
        specs.append(lf(steps))
    pool = [lf([([], ("yield", big())) for _ in range(r.choice([1, 2, 3]))] + [([], ("yield", g.asap())) for _ in range(r.choice([0, 1]))])
            for _ in range(npool)]
    return ("run", t, g.start, r.choice([None, None, 20 * t]), pool, specs)


def gen_degenerate(rng):
    """programs whose Doist deque is EMPTY when the first cycle runs, or empties at once: no doers at all, every doer done at enter,
    DoDoers without kids or whose kids are all done at enter; any tock / start / limit"""
    g = TGen(rng)
    r = rng

    def done_leaf():
        i = g.nid()
        shape = r.choice(S.SHAPES)
        act = ("done", r.choice([True, True, None, False]))
        if not S.shape_ok(("leaf", i, shape, act, [])):
            shape = "doify"
        return ("leaf", i, shape, act, [])

    k = r.random()
    if k < 0.3:
        specs = []
    elif k < 0.6:
        specs = [done_leaf() for _ in range(r.choice([1, 2, 3]))]
    elif k < 0.8:
        specs = [("group", g.nid(), r.choice([0.0, 0.0, g.tock]), False, [done_leaf() for _ in range(r.choice([0, 0, 1, 2]))], [])
                 for _ in range(r.choice([1, 2]))]
    else:
        specs = [done_leaf(), ("group", g.nid(), 0.0, False, [("group", g.nid(), 0.0, False, [], [])], [])] + \
                ([g.leaf("empty")] if r.random() < 0.5 else [])
    return ("run", g.tock, r.choice([g.start, 3.0]), g.limit(), [], specs)


def gen_faulted(rng):
    """C04 with ONE fault: a leaf of a transparent group raises / is hit by KeyboardInterrupt at some step, in MID cycle, with live
    siblings before and after it in its group.  The group of the failing doer comes LAST at every level (then flat and nested close the
    survivors in the same order: by design children are closed before their parent's later siblings)."""
    g = TGen(rng)
    r = rng
    pat = lambda: r.choice(["asap", "asap", "g04", "pos"])

    def long_leaf():
        i = g.nid()
        ys = g.script(pat())
        ys = ys + [g.asap() for _ in range(6)]
        return ("leaf", i, r.choice([sh for sh in S.SHAPES if S.shape_ok(("leaf", i, sh, "ok", [([], ("yield", y)) for y in ys]))]), "ok",
                [([], ("yield", y)) for y in ys])

    depth = r.choice([1, 1, 2, 3])
    # innermost group: before.., failing, after..
    fi = g.nid()
    ys = g.script(pat())[:r.choice([0, 1, 2, 3])]
    steps = [([], ("yield", y)) for y in ys] + [([], r.choice(["raise", "raise", "kbint"]))]
    failing = ("leaf", fi, r.choice(["doify", "genrecur", "doize", "bound"] + (["plain"] if S.shape_ok(("leaf", fi, "plain", "ok", steps)) else [])), "ok", steps)
    kids = [long_leaf() for _ in range(r.choice([1, 1, 2]))] + [failing] + [long_leaf() for _ in range(r.choice([1, 1, 2]))]
    cur = g._tgroup(kids)
    for _ in range(depth - 1):
        before = [long_leaf() for _ in range(r.choice([0, 1, 2]))]
        cur = g._tgroup(g._wrap(before, 0.3, 2) + [cur])
    top = g._wrap([long_leaf() for _ in range(r.choice([0, 1, 2, 3]))], 0.4, 1)
    return ("run", g.tock, g.start, r.choice([None, None, 12 * g.tock, 7 * g.tock]), [], top + [cur])


def enter_fault_only(case):
    """exactly one doer can fault and it does so in its ENTER (act fail / kbint / sysexit), wherever it sits: the doers entered before it
    are force-exited in reverse enter order — by its group first, then by the parents — which is the flat order as well"""
    faulty = [sp for sp, _, _ in S.all_specs(case) if sp[0] == "leaf" and (sp[3] in ("fail", "kbint", "sysexit")
              or any(o in ("raise", "kbint", "sysexit") + tuple(getattr(S, "CLOSE_OUTS", ())) for _, o in sp[4]))]
    return len(faulty) == 1 and faulty[0][3] in ("fail", "kbint", "sysexit") \
        and not any(o in ("raise", "kbint", "sysexit") + tuple(getattr(S, "CLOSE_OUTS", ())) for _, o in faulty[0][4])


def gen_enter_fault(rng):
    """a regrouped G04 forest in which ONE member, at any position of any group (nested too), fails in its enter"""
    c = gen_timed(rng, rng.choice(["nested", "g04", "g04"]))
    leaves = [sp for sp in _leaves_preorder(c[5]) if not is_waiter(sp) and sp[3] == "ok"]
    targets = {sp[4][0][1][1] for sp in _leaves_preorder(c[5]) if is_waiter(sp)}
    leaves = [sp for sp in leaves if sp[1] not in targets]
    if not leaves:
        return c
    x = rng.choice(leaves)
    act = "fail"      # (BaseException kinds raised by an enter are sched's second-generation model; the flatpair head uses the first)

    def f(sp):
        return ("leaf", sp[1], sp[2], act, sp[4]) if sp[1] == x[1] else sp
    return c[:5] + (S._map_leaves(list(c[5]), f),)


def single_fault_last_path(case):
    """the guard under which C04 also speaks about faulted programs: exactly one leaf can fault (raise / kbint at a step, no failing
    enter), every ancestor of it is a transparent group, and at every level the node on the path to it is the LAST sibling"""
    faulty = [sp for sp, _, _ in S.all_specs(case) if sp[0] == "leaf" and (sp[3] == "fail" or sp[3] in ("kbint", "sysexit")
              or any(o in ("raise", "kbint", "sysexit") + tuple(getattr(S, "CLOSE_OUTS", ())) for _, o in sp[4]))]
    if len(faulty) != 1 or faulty[0][3] != "ok":
        return False
    if any(o in ("sysexit",) + tuple(getattr(S, "CLOSE_OUTS", ())) for _, o in faulty[0][4]):
        return False
    fid = faulty[0][1]
    level = list(case[5])
    while True:
        if any(sp[0] == "leaf" and sp[1] == fid for sp in level):
            return True
        if not level or not transparent(level[-1]):
            return False
        level = list(level[-1][4])


def gen_timed(rng, kind="nested"):
    """op-free, fault-free timing program.  kind: flat | nested (transparent groups only) | hetero (also tock>0 groups) |
    f46 (a leaf under a transparent group yields positive after asap) | g04 (every script positive* asap*)"""
    g = TGen(rng)
    n = rng.choice([1, 2, 3, 3, 4, 5])
    if kind == "g04":
        specs = [g.leaf(rng.choice(["g04", "asap", "pos", "empty"])) for _ in range(n)]
    elif kind == "f46":
        specs = [g.leaf(rng.choice(["f46", "f46", "mixed", "g04"])) for _ in range(n)]
    elif kind == "hetero":
        specs = g.forest(n, 0.3)
    else:
        specs = g.forest(n)
    if kind in ("flat", "nested", "g04") and rng.random() < 0.4:
        specs = add_waiters(rng, g, specs)
    if kind != "flat":
        specs = g.regroup(specs, 0.6 if kind in ("f46", "g04") else 0.45)
        if kind in ("f46", "nested", "g04") and not any(is_group(s) for s in specs):
            specs = [("group", g.nid(), 0.0, False, specs, [])]
    return ("run", g.tock, g.start, g.limit(maybe_none=not S.has_always(specs)), [], specs)


def regroupings_of(case, rng, k):
    """k random regroupings of the FLATTENED program of `case`"""
    flat = flatten_case(case)
    mx = max(S.all_ids(flat) + [0])
    out = []
    for _ in range(k):
        g = TGen(rng, flat[1])
        g.next_id = mx + 1
        out.append(("run", flat[1], flat[2], flat[3], flat[4], g.regroup(list(flat[5]), 0.6)))
    return out


def all_regroupings(specs, gid):
    """every way to wrap ONE run of consecutive top-level siblings (incl. the empty run at each position) in a
    transparent group, plus every way to do that twice (second wrap at top level or inside the first group)"""
    n = len(specs)
    once = []
    for a in range(n + 1):
        for b in range(a, n + 1):
            once.append(specs[:a] + [("group", gid, 0.0, False, specs[a:b], [])] + specs[b:])
    twice = []
    for o in once:
        m = len(o)
        for a in range(m + 1):
            for b in range(a + 1, m + 1):
                twice.append(o[:a] + [("group", gid + 1, 0.0, False, o[a:b], [])] + o[b:])
        gi = next(k for k, s in enumerate(o) if is_group(s))
        kids = o[gi][4]
        for a in range(len(kids) + 1):
            for b in range(a + 1, len(kids) + 1):
                inner = kids[:a] + [("group", gid + 1, 0.0, False, kids[a:b], [])] + kids[b:]
                twice.append(o[:gi] + [("group", gid, 0.0, False, inner, [])] + o[gi + 1:])
    return once + twice


# --------------------------------------------------------------------------- C03 oracle: the cycle model, from the property text

def _tick_table(start, tock, final):
    T = [start]
    while T[-1] < final and len(T) < 200000:
        T.append(T[-1] + tock)
    return T


def c03_analyse(case, d, nested_asap_rule="next-cycle"):
    """returns (clauses, {id: reason}) — which doers were resumed in a cycle other than the one the property names.
    nested_asap_rule = "next-cycle" is the property; "now" is what pre-finding F46 says the code does for a doer inside a DoDoer
    (due tyme after an asap yield = current tyme + the DoDoer's own tock 0) and is used ONLY by known() to recognise that defect."""
    bad = set()
    why = {}
    _, tock, start, limit, pool, specs = case
    tock, start = float(tock), float(start)
    tr = d["trace"]
    spec, par, pools, kids = S.spec_index(case)
    T = _tick_table(start, tock, d["tyme"])
    if T[-1] != d["tyme"]:
        return ["final-tyme-is-not-start-plus-whole-ticks"], why
    idx = {}
    for k, t in enumerate(T):
        idx.setdefault(t, k)
    ncyc = len(T) - 1 if d["raised"] == "-" else len(T)       # cycles that were started
    # every event observes a tyme of the tick table, tymes never go back, enters of the initial doers are at start
    last = 0
    cyc_recurs = {}
    enter_pos = {}
    resumes = {}
    for n, e in enumerate(tr):
        i, kind, t = e[0], e[1], e[2]
        if t not in idx:
            bad.add("event-tyme-is-not-start-plus-whole-ticks")
            continue
        k = idx[t]
        if k < last:
            bad.add("tyme-went-backwards")
        last = max(last, k)
        if kind == "recurBad":
            bad.add("recur-sent-tyme-differs-from-scheduler-tyme")
            kind = "recur"
        if kind == "enter":
            enter_pos[i] = n
        if kind == "recur":
            if k >= ncyc and d["raised"] == "-" and fault_free(case):
                bad.add("recur-after-last-cycle")
            cyc_recurs.setdefault(k, []).append(i)
            resumes.setdefault(i, []).append(k)
    # the tick, directly: a run that did not raise has completed cycles >= 1 cycles and its tyme is start ticked `cycles` times
    # (T[-1] == final tyme was checked above); a run that ended `done` returned right after the cycle of its last event
    if d["raised"] == "-" and fault_free(case):      # (a KeyboardInterrupt out of a doer ends do() quietly without the tick)
        if len(T) < 2:
            bad.add("no-tick:run-returned-with-tyme-still-at-start")
        elif d["done"] and op_free(case) and fault_free(case):
            sb = next((n for n, e in enumerate(tr) if e[1] == "stopBeg"), len(tr))
            cyc = [idx[e[2]] for e in tr[:sb] if e[1] in ("recur", "recurBad", "clean") and e[2] in idx]
            kl = max(cyc) if cyc else 0
            if len(T) - 1 != kl + 1:
                bad.add("final-tyme-is-not-one-tick-after-the-last-cycle")
    # at most once per cycle, in enter order
    for k, ids in cyc_recurs.items():
        if len(set(ids)) != len(ids):
            bad.add("doer-resumed-twice-in-one-cycle")
        pos = [enter_pos.get(i, -1) for i in ids]
        if any(p < 0 for p in pos):
            bad.add("recur-without-enter")
        elif pos != sorted(pos):
            bad.add("cycle-order-differs-from-enter-order")
            for a in range(len(ids)):
                for b in range(a + 1, len(ids)):
                    if pos[a] > pos[b]:
                        why.setdefault("inversions", []).append((ids[a], ids[b]))      # ids[a] ran before ids[b] but was entered later
    # due tymes: only meaningful without faults and removes, for doers whose ancestors all run every cycle.  A doer entered by extend()
    # in mid run is first due at its enter tyme ("first due tyme = current tyme") and cannot run in the cycle that entered it.
    no_remove = not any(S.has_op(sp, "remove") for sp in list(case[5]) + list(case[4]))
    enter_tyme = {e[0]: e[2] for e in tr if e[1] == "enter" and e[2] in idx}
    first_recur = next((n for n, e in enumerate(tr) if e[1] in ("recur", "recurBad")), len(tr))
    if no_remove and fault_free(case):
        cleaned = {e[0] for e in tr if e[1] == "clean"}
        for i, s in spec.items():
            if i not in enter_pos or not chain_transparent(i, spec, par):
                continue
            if s[0] == "leaf":
                if isinstance(s[3], tuple):
                    if resumes.get(i):
                        bad.add("resumed-after-completing-in-enter")
                    continue
                outs = outs_of(s)
            else:
                outs = None
            nested = par[i] != 0
            due = enter_tyme.get(i, start)
            kprev = idx[due] - 1 if enter_pos[i] < first_recur else idx[due]     # entered by do() before the first cycle, or by extend() in cycle idx[due]
            obs = resumes.get(i, [])
            alive = True
            for j, k in enumerate(obs):
                if not alive:
                    bad.add("resumed-after-returning")
                    why[i] = "extra resume"
                    break
                want = next((c for c in range(kprev + 1, ncyc) if T[c] >= due), None)
                if want != k:
                    bad.add("resume-not-in-first-cycle-at-or-after-due")
                    why[i] = f"resume {j}: cycle {k} (tyme {T[k]}), due {due} -> first cycle {want}"
                    break
                kprev = k
                if outs is None:      # a DoDoer yields its own tock every time, until it is clean
                    o = ("yield", s[2])
                    if i in cleaned and j == len(obs) - 1:
                        alive = False
                        continue
                else:
                    o = outs[j] if j < len(outs) else ("ret", True)
                if isinstance(o, tuple) and o[0] == "yield":
                    if is_asap(o[1]):
                        due = T[k] + (tock if (not nested or nested_asap_rule == "next-cycle") else 0.0)
                    else:
                        due = due + o[1]
                else:
                    alive = False
            else:
                if alive:
                    want = next((c for c in range(kprev + 1, ncyc) if T[c] >= due), None)
                    if want is not None:
                        bad.add("due-doer-not-resumed")
                        why[i] = f"never resumed again although due {due} <= tyme {T[want]} of cycle {want}"
    return sorted(bad), why


# --------------------------------------------------------------------------- C04 oracle: two REAL runs

def leaf_view(case, d, dropped):
    """what C04 compares: events of every doer that is not a spliced group, its flags, scheduler done/tyme/raised"""
    ev = [tuple(e[:3]) for e in d["trace"] if e[0] not in dropped and e[0] != 0 and e[1] != "doers"]
    return dict(events=ev, flags=[(i, b) for i, b in d["flags"] if i not in dropped], done=d["done"], tyme=d["tyme"],
                raised=d["raised"], late=len(d["late"]))


def c04_clauses(vn, vf):
    bad = []
    sel = lambda v, kinds: [e for e in v["events"] if e[1] in kinds]
    if sel(vn, ("enter",)) != sel(vf, ("enter",)):
        bad.append("enter-order-differs")
    if sel(vn, ("recur", "recurBad")) != sel(vf, ("recur", "recurBad")):
        bad.append("recur-steps-differ")
    if vn["tyme"] != vf["tyme"]:
        bad.append("completion-cycle-differs")
    if vn["done"] != vf["done"]:
        bad.append("scheduler-done-flag-differs")
    if vn["flags"] != vf["flags"]:
        bad.append("doer-done-flags-differ")
    if sel(vn, ("cease",)) != sel(vf, ("cease",)):
        bad.append("forced-exits-differ")
    if vn["raised"] != vf["raised"] or vn["late"] != vf["late"]:
        bad.append("raised-or-late-exits-differ")
    if not bad and vn["events"] != vf["events"]:
        bad.append("leaf-event-interleaving-differs")
    return bad


def first_divergence_tyme(vn, vf):
    for a, b in zip(vn["events"], vf["events"]):
        if a != b:
            return min(a[2], b[2])
    if len(vn["events"]) != len(vf["events"]):
        rest = vn["events"][len(vf["events"]):] or vf["events"][len(vn["events"]):]
        return rest[0][2]
    return None


def flat_parent(i, spec, par):
    """the scheduler doer i belongs to after flattening: nearest ancestor that is not a transparent group (0 = the Doist)"""
    a = par[i]
    while a != 0 and transparent(spec[a]):
        a = par[a]
    return a


def g04_break_reached(case, d, upto, any_tock0_parent=False):
    """trigger of C04-K1 (pre-finding F46): ids of leaves directly inside a transparent DoDoer whose flattened parent is the
    Doist or a DoDoer with tock > 0, that in run d performed a positive yield AFTER an asap yield at a tyme <= upto.
    any_tock0_parent=True is the trigger of C03-K1: the leaf sits directly inside ANY DoDoer with tock 0 (always or not)"""
    spec, par, pools, kids = S.spec_index(case)
    hit = []
    for i, s in spec.items():
        if s[0] != "leaf" or par[i] == 0:
            continue
        if any_tock0_parent:
            if spec[par[i]][2] != 0:
                continue
        else:
            if not transparent(spec[par[i]]):
                continue
            fp = flat_parent(i, spec, par)
            if fp != 0 and spec[fp][2] == 0:
                continue          # flattened parent is itself a tock-0 DoDoer: same asap rule on both sides
        n = breaks_g04(s)
        if n is None:
            continue
        rs = [e[2] for e in d["trace"] if e[0] == i and e[1] == "recur"]
        if len(rs) > n and (upto is None or rs[n] <= upto):
            hit.append(i)
    return hit


def skipped_transparent(case, d, upto):
    """trigger of C04-K2: ids of transparent DoDoers directly inside a DoDoer with tock > 0 that, in run d, were alive but NOT resumed
    in a cycle (tyme <= upto) in which that parent was resumed — the parent came round sooner than `tyme + its tock`"""
    spec, par, pools, kids = S.spec_index(case)
    hit = []
    for i, s in spec.items():
        if not transparent(s) or par[i] == 0 or spec[par[i]][2] == 0:
            continue
        mine = [e[2] for e in d["trace"] if e[0] == i and e[1] == "recur"]
        ended = [e[2] for e in d["trace"] if e[0] == i and e[1] in ("clean", "cease", "abort")]
        for t in [e[2] for e in d["trace"] if e[0] == par[i] and e[1] == "recur"]:
            if upto is not None and t > upto:
                break
            if ended and t > ended[0]:
                break
            if t not in mine:
                hit.append(i)
                break
    return hit


# --------------------------------------------------------------------------- C30 oracle: do() vs ado(), both REAL

def c30_clauses(a, b):
    bad = []
    if [e[:2] for e in a["trace"]] != [e[:2] for e in b["trace"]]:
        bad.append("event-traces-differ")
    elif a["trace"] != b["trace"]:
        bad.append("virtual-tymes-differ")
    if a["tyme"] != b["tyme"]:
        bad.append("completion-cycle-differs")
    if a["flags"] != b["flags"] or a["done"] != b["done"]:
        bad.append("done-flags-differ")
    if [e for e in a["trace"] if e[1] == "cease"] != [e for e in b["trace"] if e[1] == "cease"]:
        bad.append("forced-exits-differ")
    if a["raised"] != b["raised"]:
        bad.append("raised-differs")
    if len(a["late"]) != len(b["late"]) or a["doers"] != b["doers"]:
        bad.append("late-exits-or-doers-list-differ")
    return bad


# --------------------------------------------------------------------------- requests for the added driver heads

def request_head(head, case, *extra):
    r = S.request(case)
    if r == ("unmodelled",):
        return r
    return (head,) + tuple(extra) + tuple(r[1:])


class PairObs(tuple):
    """(view of run 1, view of run 2) = the reply the driver must print; raw dicts as .a / .b"""
    def __new__(cls, a, b):
        o = super().__new__(cls, ("unmodelled",) if a.get("unmodelled") else (S.obs_view(a), S.obs_view(b)))
        o.a = a
        o.b = b
        o.d = a
        return o

    def __reduce__(self):
        return (PairObs, (self.a, self.b))


class CancelObs(tuple):
    """view of the CANCELLED ado run (= the reply of the driver head adocancel); .a = reference do() run, .b = cancelled run"""
    def __new__(cls, a, b):
        o = super().__new__(cls, S.obs_view(b))
        o.a = a
        o.b = b
        o.d = b
        return o

    def __reduce__(self):
        return (CancelObs, (self.a, self.b))


def run_cancelled(case, j):
    """the REAL Doist.ado as an asyncio task that is cancelled by ANOTHER task while it is suspended at its (j+1)-th
    `await asyncio.sleep(0.0)`"""
    import asyncio
    import gc
    core.assert_tree()
    _, tock, start, limit, pool, specs = case
    rec = S.Rec()
    doist = S.make_doist(rec, tock, start, limit)
    rec.sched[0] = doist
    doers = [S.build(rec, sp, 0) for sp in specs]
    rec.pools[0] = [S.build(rec, sp, 0) for sp in pool]

    async def canceller(t):
        # ado suspends once per cycle (await asyncio.sleep(0.0)); this task gets one turn per suspension (FIFO ready queue)
        for _ in range(j):
            await asyncio.sleep(0.0)
        t.cancel()          # no-op when ado has already returned

    async def main():
        t = asyncio.ensure_future(doist.ado(doers=doers))
        c = asyncio.ensure_future(canceller(t))
        try:
            await t
        finally:
            c.cancel()
    raised, n = "-", None
    gc_was = gc.isenabled()
    gc.disable()
    try:
        loop = asyncio.SelectorEventLoop()
        try:
            try:
                loop.run_until_complete(main())
                n = len(rec.log)
            except asyncio.CancelledError:
                n = len(rec.log)
                raised = "cancelled"
            except S.SchedErr:
                n = len(rec.log)
                raised = "err"
            except KeyboardInterrupt:
                n = len(rec.log)
                raised = "kbint"
            except SystemExit:
                n = len(rec.log)
                raised = "sysexit"
            except Exception as ex:
                n = len(rec.log)
                raised = "other:" + type(ex).__name__
        finally:
            loop.close()
        gc.collect(1)
    finally:
        if gc_was:
            gc.enable()
    ids = sorted(rec.obj)
    leaf0 = S.Leaf(rec, ("leaf", -1, "doify", "ok", []), 0)
    return dict(unmodelled=False, trace=rec.log[:n], late=rec.log[n:], flags=[(i, bool(rec.obj[i].done)) for i in ids],
                done=bool(doist.done), tyme=doist.tyme, raised=raised, doers=leaf0.ids_of(doist.doers))


# --------------------------------------------------------------------------- run SEQUENCES: the same doer objects under two Doists

def _classify(rec, thunk):
    """run thunk(); every exception out of the real code becomes an observation (raised, index of the last event of the run)"""
    raised = "-"
    try:
        thunk()
    except S.SchedErr:
        raised = "err"
    except KeyboardInterrupt:
        raised = "kbint"
    except SystemExit:
        raised = "sysexit"
    except S.Runaway:
        rec.dead = True
        raised = "other:Runaway"
    except BaseException as ex:      # asyncio.CancelledError, GeneratorExit, anything else: an observation, never a crash
        raised = "cancelled" if type(ex).__name__ == "CancelledError" else "other:" + type(ex).__name__
    return raised, len(rec.log)


def _intify(x):
    """equal value, other type: an integral float becomes an int (never -0.0)"""
    if isinstance(x, float) and x == int(x) and not (x == 0 and str(x).startswith("-")) and abs(x) < 2 ** 40:
        return int(x)
    return x


def _int_specs(specs):
    out = []
    for sp in specs:
        if sp[0] == "leaf":
            steps = [(ops, ("yield", _intify(o[1])) if isinstance(o, tuple) and o[0] == "yield" else o) for ops, o in sp[4]]
            out.append(("leaf", sp[1], sp[2], sp[3], steps))
        else:
            out.append(("group", sp[1], _intify(sp[2]), sp[3], _int_specs(sp[4]), _int_specs(sp[5])))
    return out


VARIANTS = ("seq", "same", "faulted-first", "wound", "ints", "iter", "init", "call", "manual", "opts", "tymearg", "manual-deeds", "manual-dodoer", "plain")
HISTORY_VARIANTS = ("seq", "same", "faulted-first", "wound")       # need op-free programs: ops of a first run would change .doers lists


def run_var(case, var, mode="do"):
    """The REAL scheduler on `case`, reached through another public route or after a history; the observation must be the one of the
    plain run (the model is asked about `case` only).  var = (kind, ...):
      seq (start1, limit1)            same doer objects first run under another Doist (other start, cut by a limit), then a FRESH Doist
      same (start1, limit1, tock1)    the same DOIST object runs twice; tock / limit re-set through their setters, tyme through do(tyme=)
      faulted-first (start1, limit1)  first run (other Doist) has an extra doer that raises in cycle 1: do() raised, everything was closed
      wound (tyme1,)                  every Doer/DoDoer object was wound onto a foreign Tymist (at tyme1) before the run
      ints                            integral tock / start / limit / yielded tocks / DoDoer tocks given as int instead of float
      iter                            doers given as a generator instead of a list
      init                            doers stored in Doist.doers, do()/ado() called without doers
      call                            Doist.__call__ instead of do()           (do mode only)
      manual                          enter() / recur() loop / exit() driven by hand as do() does   (do mode only)
      opts                            every DoDoer gets its doers and `always` through .opts (DoDoer.do(doers=..., always=...)) not __init__
    """
    import asyncio
    import gc
    from hio.base import tyming
    core.assert_tree()
    if var[0] == "ado":          # ("ado", inner variant): the same route, the (last) run through the asyncio entry point
        return run_var(case, var[1], "ado")
    kind = var[0]
    _, tock, start, limit, pool, specs = case[:6]
    rec = S.Rec()
    rec.cleanfail = set(S.extras_of(case, "cleanfail")) if hasattr(S, "extras_of") else set()
    b_tock, b_start, b_limit, b_specs, b_pool = tock, start, limit, specs, pool
    if kind == "ints":
        b_tock, b_start, b_limit = _intify(float(tock)), _intify(float(start)), (None if limit is None else _intify(float(limit)))
        b_specs, b_pool = _int_specs(specs), _int_specs(pool)
    gc_was = gc.isenabled()
    gc.disable()
    first_raised, first_tyme = None, None
    try:
        doers = [S.build(rec, sp, 0) for sp in b_specs]
        poolobjs = [S.build(rec, sp, 0) for sp in b_pool]
        rec.pools[0] = poolobjs
        doist = None
        if kind in ("seq", "faulted-first", "same"):
            st1, lim1 = var[1][0], var[1][1]
            tk1 = var[1][2] if kind == "same" else tock
            doist = S.make_doist(rec, tk1, st1, lim1)
            rec.sched[0] = doist
            d1 = list(doers)
            if kind == "faulted-first":
                extra = S.build(rec, ("leaf", 999990, "doify", "ok", [([], ("yield", 0.0)), ([], "raise")]), 0)
                d1 = d1 + [extra]
            first_raised, _ = _classify(rec, lambda: doist.do(doers=d1))
            first_tyme = doist.tyme
            rec.obj.pop(999990, None)
            gc.collect(1)
        elif kind == "wound":
            foreign = tyming.Tymist(tyme=var[1][0], tock=1.0)
            for o in list(rec.obj.values()):
                if hasattr(o, "wind"):
                    o.wind(foreign.tymen())
        elif kind == "opts":
            for sid, g in list(rec.sched.items()):
                if sid != 0:
                    g.opts = dict(doers=list(g.doers), always=g.always)
                    g.doers = []
                    g.always = False
        if kind == "same":
            doist.tock = b_tock
            doist.limit = None if b_limit is None else abs(float(b_limit))
        elif kind == "tymearg":      # the Doist stands at another tyme (lower / higher / equal); the start tyme comes as do/ado(tyme=)
            doist = S.make_doist(rec, b_tock, var[1][0], b_limit)
        else:
            doist = S.make_doist(rec, b_tock, b_start, b_limit)
        rec.sched[0] = doist
        n0 = len(rec.log)
        arg = (d for d in doers) if kind == "iter" else doers
        kw = dict(tyme=b_start) if kind in ("same", "tymearg") else {}
        if kind == "init":
            doist.doers = list(doers)

        def manual():
            doist.done = False
            doist.doers = list(doers)
            try:
                doist.enter()
                tymer = tyming.Tymer(tymth=doist.tymen(), duration=doist.limit)
                while True:
                    try:
                        doist.recur()
                        if not doist.deeds:
                            doist.done = True
                            break
                        if doist.limit is not None and tymer.expired:
                            break
                    except KeyboardInterrupt:
                        break
            finally:
                doist.exit()

        def manual_deeds():
            """the documented caller-held-deque API: deeds = enter(doers=...); recur(deeds=deeds) ...; exit(deeds=deeds)"""
            doist.done = False
            doist.doers = list(doers)
            deeds = None
            try:
                deeds = doist.enter(doers=doers)
                tymer = tyming.Tymer(tymth=doist.tymen(), duration=doist.limit)
                while True:
                    try:
                        doist.recur(deeds=deeds)
                        if not deeds:
                            doist.done = True
                            break
                        if doist.limit is not None and tymer.expired:
                            break
                    except KeyboardInterrupt:
                        break
            finally:
                rec.ev(0, "stopBeg", doist.tyme)
                try:
                    if deeds is not None:
                        doist.exit(deeds=deeds)
                finally:
                    rec.ev(0, "stopEnd", doist.tyme)

        def manual_dodoer():
            """a DoDoer (tock = the scheduler's) driven by hand as the root scheduler over a caller-held deque, a Tymist ticking"""
            from hio.base import doing
            root = doing.DoDoer(doers=[], tock=float(b_tock))
            root.wind(doist.tymen())
            doist.done = False
            doist.doers = list(doers)
            deeds = None
            try:
                deeds = root.enter(doers=doers)
                tymer = tyming.Tymer(tymth=doist.tymen(), duration=doist.limit)
                while True:
                    try:
                        rec.cycles += 1
                        if rec.cycles > 3000:
                            raise S.Runaway("too many cycles")
                        empty = root.recur(doist.tyme, deeds=deeds)
                        doist.tick()
                        if empty != (not deeds):
                            raise AssertionError("DoDoer.recur return value does not say whether the deeds are used up")
                        if not deeds:
                            doist.done = True
                            break
                        if doist.limit is not None and tymer.expired:
                            break
                    except KeyboardInterrupt:
                        break
            finally:
                rec.ev(0, "stopBeg", doist.tyme)
                try:
                    if deeds is not None:
                        root.exit(deeds=deeds)
                finally:
                    rec.ev(0, "stopEnd", doist.tyme)

        def go():
            if kind == "manual-deeds":
                return manual_deeds()
            if kind == "manual-dodoer":
                return manual_dodoer()
            if mode == "ado" and kind not in ("call", "manual"):
                loop = asyncio.SelectorEventLoop()
                try:
                    loop.run_until_complete(doist.ado(**kw) if kind == "init" else doist.ado(doers=arg, **kw))
                finally:
                    loop.close()
            elif kind == "call":
                doist(doers=arg)
            elif kind == "manual":
                manual()
            elif kind == "init":
                doist.do(**kw)
            else:
                doist.do(doers=arg, **kw)
        raised, n = _classify(rec, go)
        gc.collect(1)
        ids = sorted(rec.obj)
        leaf0 = S.Leaf(rec, ("leaf", -1, "doify", "ok", []), 0)
        return dict(unmodelled=S.unmodelled(case), trace=rec.log[n0:n], late=rec.log[n:], flags=[(i, bool(rec.obj[i].done)) for i in ids],
                    done=bool(doist.done), tyme=doist.tyme, raised=raised, doers=leaf0.ids_of(doist.doers),
                    first_raised=first_raised, first_tyme=first_tyme)
    finally:
        if gc_was:
            gc.enable()


def run_second(case, first, mode="do"):
    """kept for replays of ("seq", (start1, limit1), case)"""
    return run_var(case, ("seq", first), mode)


def gen_var(rng, case):
    """a variant applicable to `case`"""
    t = float(case[1])
    kinds = ["ints", "iter", "init", "call", "manual", "opts", "tymearg", "tymearg", "plain"]
    if op_free(case) and not S.unmodelled(case):
        kinds += list(HISTORY_VARIANTS) * 2
        if fault_free(case):
            kinds += ["manual-deeds", "manual-deeds", "manual-dodoer", "manual-dodoer"]
    k = rng.choice(kinds)
    v = _gen_var_kind(rng, case, k)
    if k not in ("call", "manual", "manual-deeds", "manual-dodoer") and rng.random() < (0.9 if k == "plain" else 0.4):
        return ("ado", v)        # through the asyncio entry point
    return v


def _gen_var_kind(rng, case, k):
    t = float(case[1])
    if k == "tymearg":
        st = float(case[2])
        return (k, (rng.choice([st + 8 * t, st + 2.5 * t, st - 3 * t, st - 0.3, st, 8.0, 0.0]),))
    if k in ("seq", "faulted-first", "same"):
        st1, lim1 = gen_first(rng, case)
        if (lim1 is None and S.has_always(list(case[5]))) or k == "faulted-first" and lim1 is None:
            lim1 = 3 * t
        if k == "same":
            return (k, (st1, lim1, rng.choice([t, t, 2 * t, 0.5 * t, 0.1, 1.0])))
        return (k, (st1, lim1))
    if k == "wound":
        return (k, (rng.choice([float(case[2]) + 7 * t, 1000.5, 0.0, float(case[2]) - 3 * t]),))
    return (k,)


def gen_first(rng, case):
    """(start tyme, limit) of the first Doist: mostly cut short, often ending AHEAD of the second run's start tyme"""
    t = float(case[1])
    return (rng.choice([0.0, 1.0, 2.5, 100.1, float(case[2]) + 7 * t, float(case[2])]), rng.choice([t, 2.5 * t, 3 * t, 4.1 * t, 7 * t, None, None]))


def _vkind(v):
    return v[1][0] if v[0] == "ado" else v[0]


def var_ok(v, c):
    """is the route `v` meaningful for program `c`?  histories and caller-held deques need op-free programs (ops act on Doist.doers /
    Doist.deeds); with a caller-held deque an enter that raises loses the deque for the caller (nothing could be closed): fault-free"""
    k = _vkind(v)
    if k in HISTORY_VARIANTS + ("manual-deeds", "manual-dodoer") and not op_free(c):
        return False
    if k in ("manual-deeds", "manual-dodoer") and not fault_free(c):
        return False
    return waiters_ok(c)


class SeqCases:
    """mixin for the scheduler checks: a case is a run case, ("seq", (start1, limit1), runcase) or ("var", variant, runcase) — `runcase`
    is what the model is asked and what the oracle judges; the real code gets there through a history / another entry point (run_var)"""
    seq_share = 0.4

    @staticmethod
    def raw(case):
        return case[2] if case[0] in ("seq", "var") else case

    WORLD = ("dyn", "dynpair")       # oracle-only cases on the small world of own doers: ("dyn" | "dynpair", params)

    @staticmethod
    def base(case):
        """what the model is asked and the oracles judge (waiters compiled to the script the property predicts)"""
        if case[0] in SeqCases.WORLD:
            return ("run", dict(case[1])["tock"], dict(case[1])["start"], None, [], [])
        return compile_waiters(case[2] if case[0] in ("seq", "var") else case)

    def world_shrink(self, case):
        g = dict(case[1])
        for k in range(len(g["ops"])):
            g2 = dict(g, ops=g["ops"][:k] + g["ops"][k + 1:])
            yield (case[0], tuple(sorted(g2.items())))
        used = {op[0] for op in g["ops"]} | {t for op in g["ops"] if op[2][0] in ("remove", "extend") for t in op[2][1]}
        for key in ("doers", "pool"):
            for k, d in enumerate(g[key]):
                if d[0] not in used and (key == "pool" or len(g[key]) > 1):
                    g2 = dict(g)
                    g2[key] = g[key][:k] + g[key][k + 1:]
                    yield (case[0], tuple(sorted(g2.items())))

    @staticmethod
    def variant(case):
        return ("seq", case[1]) if case[0] == "seq" else case[1]

    def with_seq(self, rng, cases):
        for c in cases:
            if c[0] == "run" and len(c) == 6 and rng.random() < self.seq_share and not S.unmodelled(c) and not (has_waiter(c) and False) \
                    and (c[3] is not None or not S.has_always(list(c[5]))):
                yield ("var", gen_var(rng, c), c)
            else:
                yield c

    def seq_corpus(self, cases):
        out = []
        for n, c in enumerate(cases):
            if not (op_free(c) and fault_free(c) and (c[3] is not None or not S.has_always(list(c[5])))):
                continue
            t = float(c[1])
            out.append(("seq", (0.0, 3.0 * t), c))
            out.append(("seq", (float(c[2]) + 5.0, 2.5 * t), c))
            extra = [("same", (float(c[2]) + 5.0, 2.5 * t, 2 * t)), ("faulted-first", (float(c[2]) + 5.0, 4 * t)), ("wound", (float(c[2]) + 9.0,)),
                     ("ints",), ("iter",), ("init",), ("call",), ("manual",), ("opts",),
                     ("tymearg", (float(c[2]) + 6 * t,)), ("ado", ("tymearg", (float(c[2]) + 6 * t,))), ("ado", ("tymearg", (float(c[2]) - 2 * t,))),
                     ("manual-deeds",), ("manual-dodoer",), ("ado", ("plain",)), ("ado", ("same", (float(c[2]) + 5.0, 2.5 * t, t)))]
            out.append(("var", extra[n % len(extra)], c))
            out.append(("var", extra[(n + 4) % len(extra)], c))
        out += [("var", v, ALWAYS_CASE) for v in (("opts",), ("same", (4.0, 1.0, 1.0)), ("manual",))]
        return out

    def shrink(self, case):
        if case[0] in ("seq", "var"):
            yield case[2]
            for c in super().shrink(case[2]):
                if var_ok(self.variant(case), c):
                    yield (case[0], case[1], c)
        elif case[0] in self.WORLD:
            yield from self.world_shrink(case)
        elif case[0] == "run":
            for c in super().shrink(case):
                if waiters_ok(c):
                    yield c

    def mutate(self, rng, case):
        if case[0] in ("seq", "var"):
            return [(case[0], case[1], c) for c in super().mutate(rng, case[2]) if var_ok(self.variant(case), c)]
        return [c for c in super().mutate(rng, case) if waiters_ok(c)] if case[0] == "run" else []

    def nontrivial(self, case, obs):
        return super().nontrivial(self.base(case), obs)

    def features(self, case, obs):
        f = super().features(self.base(case), obs)
        if case[0] in self.WORLD:
            g = dict(case[1])
            f.append("world:" + case[0])
            for op in g["ops"]:
                f.append("world-op:" + op[2][0] + (":fresh-equal-object" if op[2][0] == "remove" and op[2][2] else ""))
        if case[0] in ("seq", "var"):
            v = self.variant(case)
            f.append("variant:" + ("ado+" + v[1][0] if v[0] == "ado" else v[0]))
            if obs.d.get("first_tyme") is not None and obs.d["first_tyme"] > float(case[2][2]):
                f.append("first-doist-ended-ahead-of-second-start")
        return f


# --------------------------------------------------------------------------- C30: HISTORIES of runs on one Doist, all-do vs all-ado vs mixed

def run_hist_prebuilt(case, steps):
    """as run_hist all through ado, but the k coroutine OBJECTS are built first (`runs = [doist.ado(...), doist.ado(...)]`) and awaited
    afterwards, in order, in one event loop: calling an `async def` must not do anything before it is awaited"""
    import asyncio
    import gc
    core.assert_tree()
    _, tock, start, limit, pool, specs = case[:6]
    rec = S.Rec()
    out = []
    gc_was = gc.isenabled()
    gc.disable()
    try:
        doers = [S.build(rec, sp, 0) for sp in specs]
        rec.pools[0] = [S.build(rec, sp, 0) for sp in pool]
        doist = S.make_doist(rec, tock, start, None)
        rec.sched[0] = doist
        coros = []
        for which, limarg, tymearg, pre in steps:
            kw = {}
            if which != "keep":
                kw["doers"] = list(doers) if which == "all" else (doers[:1] if which == "first" else doers[1:])
            if limarg is not None:
                kw["limit"] = limarg
            if tymearg is not None:
                kw["tyme"] = tymearg
            coros.append(doist.ado(**kw))
        loop = asyncio.SelectorEventLoop()
        try:
            for (which, limarg, tymearg, pre), co in zip(steps, coros):
                n0 = len(rec.log)

                def go():
                    if pre:
                        doist.doers = doers[:1]
                        doist.enter()
                        if pre == "enter-recur":
                            doist.recur()
                    loop.run_until_complete(co)
                raised, n = _classify(rec, go)
                gc.collect(1)
                ids = sorted(rec.obj)
                leaf0 = S.Leaf(rec, ("leaf", -1, "doify", "ok", []), 0)
                out.append(dict(trace=rec.log[n0:n], late=rec.log[n:], flags=[(i, bool(rec.obj[i].done)) for i in ids], done=bool(doist.done),
                                tyme=doist.tyme, raised=raised, doers=leaf0.ids_of(doist.doers), limit=doist.limit, ndeeds=len(doist.deeds)))
                if raised == "other:Runaway":
                    break
        finally:
            for co in coros:
                if hasattr(co, "close"):
                    co.close()
            loop.close()
    finally:
        if gc_was:
            gc.enable()
    return out


def run_hist(case, steps, modes):
    """One Doist object (constructed WITHOUT a limit), the doer objects of `case` built once, then one run per step; step k is executed
    through do() when modes[k] == "do" else through asyncio ado().  step = (which, limarg, tymearg, pre):
      which   "all" | "first" | "rest" | "keep"   doers=all / the first doer / all but the first / no doers argument (keeps Doist.doers)
      limarg  None (no limit argument: whatever Doist.limit holds stays in force) | float (limit=...)
      tymearg None (go on from the Doist's tyme) | float (tyme=...)
      pre     None | "enter" | "enter-recur"      before the run: Doist.doers := the first doer; enter() (and one recur()) by hand with
                                                  no exit(): stale deeds are left in Doist.deeds
    Returns one observation per run (+ Doist.limit and the number of deeds left after it)."""
    import asyncio
    import gc
    core.assert_tree()
    _, tock, start, limit, pool, specs = case[:6]
    rec = S.Rec()
    rec.cleanfail = set(S.extras_of(case, "cleanfail")) if hasattr(S, "extras_of") else set()
    out = []
    gc_was = gc.isenabled()
    gc.disable()
    try:
        doers = [S.build(rec, sp, 0) for sp in specs]
        rec.pools[0] = [S.build(rec, sp, 0) for sp in pool]
        doist = S.make_doist(rec, tock, start, None)
        rec.sched[0] = doist
        for (which, limarg, tymearg, pre), mode in zip(steps, modes):
            n0 = len(rec.log)
            kw = {}
            if which != "keep":
                kw["doers"] = list(doers) if which == "all" else (doers[:1] if which == "first" else doers[1:])
            if limarg is not None:
                kw["limit"] = limarg
            if tymearg is not None:
                kw["tyme"] = tymearg

            def go():
                if pre:
                    doist.doers = doers[:1]
                    doist.enter()
                    if pre == "enter-recur":
                        doist.recur()
                if mode == "do":
                    doist.do(**kw)
                else:
                    loop = asyncio.SelectorEventLoop()
                    try:
                        loop.run_until_complete(doist.ado(**kw))
                    finally:
                        loop.close()
            raised, n = _classify(rec, go)
            gc.collect(1)
            ids = sorted(rec.obj)
            leaf0 = S.Leaf(rec, ("leaf", -1, "doify", "ok", []), 0)
            out.append(dict(trace=rec.log[n0:n], late=rec.log[n:], flags=[(i, bool(rec.obj[i].done)) for i in ids], done=bool(doist.done),
                            tyme=doist.tyme, raised=raised, doers=leaf0.ids_of(doist.doers), limit=doist.limit, ndeeds=len(doist.deeds)))
            if raised == "other:Runaway":
                break
    finally:
        if gc_was:
            gc.enable()
    return out


def gen_steps(rng, case):
    t = float(case[1])
    lims = [None, None, t, 2.5 * t, 3 * t, 4.1 * t, 7 * t]
    n = rng.choice([2, 2, 3])
    steps = []
    for k in range(n):
        which = rng.choice(["all", "all", "first", "rest", "keep"]) if k else rng.choice(["all", "all", "first"])
        limarg = rng.choice(lims) if k else rng.choice(lims[2:] + [None])
        tymearg = rng.choice([None, None, float(case[2]), float(case[2]) + 3 * t, 0.0])
        pre = rng.choice([None, None, None, "enter", "enter-recur"])
        steps.append((which, limarg, tymearg, pre))
    return steps


def c30_hist_clauses(runs):
    """runs = {label: [obs per step]}: every run of the history must look the same whichever of do()/ado() executed the history"""
    bad = []
    ref_label = "all-do"
    ref = runs[ref_label]
    for label, obs in runs.items():
        if label == ref_label:
            continue
        if len(obs) != len(ref):
            bad.append(f"{label}:number-of-runs-differs")
        for k, (a, b) in enumerate(zip(ref, obs)):
            for cl in c30_clauses(a, b):
                bad.append(f"run{k}:{label}:{cl}")
            if a["limit"] != b["limit"]:
                bad.append(f"run{k}:{label}:doist-limit-differs")
            if a["ndeeds"] != b["ndeeds"]:
                bad.append(f"run{k}:{label}:leftover-deeds-differ")
    return sorted(set(bad))


class HistObs(tuple):
    """a history is judged by the oracle only (two / four executions of the REAL code); the model driver is asked `(unmodelled)`"""
    def __new__(cls, runs):
        o = super().__new__(cls, ("unmodelled",))
        o.runs = runs
        o.a = runs["all-do"][-1]
        o.b = runs["all-ado"][-1]
        o.d = o.a
        return o

    def __reduce__(self):
        return (HistObs, (self.runs,))


# --------------------------------------------------------------------------- C30: the constructor x call-argument GRID, observing doers

GRID_FOCI = ("temp", "limit", "tyme", "doers", "real")


def gen_grid(rng, focus=None):
    """one point of the grid Doist(tock, tyme, limit, temp, real, doers) x do/ado(doers, limit, tyme, temp); "omit" = argument not passed.
    The doers OBSERVE what is injected into them (temp, tock, tymth()) in the compared trace; one of them may re-set Doist.limit in mid run."""
    r = rng
    tock = r.choice([0.1, 0.3, 0.25, 0.5, 1.0, 0.03125, 0.2])
    real = r.random() < (0.5 if focus == "real" else 0.08)
    if real:
        tock = r.choice([0.001, 0.002])
    tri = lambda: r.choice([None, False, True])
    lims = [None, 0, 0.0, tock, 2 * tock, 3 * tock, 0.5, 0.3, 5 * tock]
    tymes = [0.0, 0.0, 0.4, 0.3, 1.0, 2.5, -0.5]
    p = dict(tock=tock, real=real,
             c_tyme=r.choice(tymes), c_limit=r.choice(lims), c_temp=tri(), c_doers=r.random() < 0.4,
             a_doers=r.random() < 0.7, a_limit=r.choice(["omit", "omit"] + lims), a_tyme=r.choice(["omit", "omit"] + tymes + [0]),
             a_temp=r.choice(["omit", None, False, True, 0, 1]))
    if not p["c_doers"]:
        p["a_doers"] = True
    # doers: (kind, own temp, steps, tock): kind doer (Doer subclass) | fn (doify) | group (DoDoer of two)
    n = r.choice([1, 2, 3])
    doers = []
    for k in range(n):
        doers.append((r.choice(["doer", "fn", "fn", "group"]), r.choice([None, None, False, True]), r.choice([1, 2, 3, 5, 8]),
                      r.choice([0.0, 0.0, tock, 0.1, None])))
    p["doers"] = doers
    p["setlimit"] = r.choice([None, None, None, (r.choice([1, 2]), r.choice([None, 0.0, tock, 10 * tock]))])   # (at recur n of doer 0, new limit)
    if p["setlimit"] and not real:
        # the doer that re-sets the limit must outlive both the old and the new limit, and a limit must be in force from the start
        d0 = p["doers"][0]
        p["doers"] = [(d0[0] if d0[0] != "group" else "fn", d0[1], 40, 0.0)] + p["doers"][1:]
        if p["c_limit"] in (None, 0, 0.0) and p["a_limit"] in ("omit", None, 0, 0.0):
            p["c_limit"] = 5 * tock
    if real:
        p["setlimit"] = None
        p["doers"] = [(d[0], d[1], min(d[2], 3), 0.0) for d in doers]
        if p["c_limit"] is None and p["a_limit"] in ("omit", None):
            p["a_limit"] = 4 * tock
    return tuple(sorted(p.items()))


def run_grid(params, mode):
    """REAL code only: build the Doist and observing doers from the grid point, run do() or asyncio ado(), return the observation"""
    import asyncio
    import gc
    from hio.base import doing
    core.assert_tree()
    p = dict(params)
    log = []
    objs = []
    holder = {}

    def mk(i, kind, own, steps, tk):
        if kind == "doer":
            class D(doing.Doer):
                def enter(self, *, temp=None):
                    self.n = 0
                    log.append((i, "enter", self.tyme, ("temp", temp), ("tock", self.tock)))

                def recur(self, tyme):
                    self.n += 1
                    log.append((i, "recur", tyme, ("tymth", self.tymth())))
                    if i == 1 and p["setlimit"] and self.n == p["setlimit"][0]:
                        holder["doist"].limit = p["setlimit"][1]
                    return self.n > steps

                def exit(self):
                    log.append((i, "exit", self.tyme))
            d = D(tock=tk if tk is not None else 0.0)
            if own is not None:
                d.temp = own
            return d
        if kind == "fn":
            def fn(tymth=None, tock=0.0, temp=None, **opts):
                log.append((i, "enter", tymth(), ("temp", temp), ("tock", tock), ("opts", tuple(sorted(opts)))))
                try:
                    n = 0
                    while n <= steps:
                        t = yield tk
                        n += 1
                        log.append((i, "recur", t, ("tymth", tymth())))
                        if i == 1 and p["setlimit"] and n == p["setlimit"][0]:
                            holder["doist"].limit = p["setlimit"][1]
                finally:
                    log.append((i, "exit", tymth()))
                return True
            return doing.doify(fn, name=f"g{i}", tock=tk if tk is not None else 0.0, temp=own)
        kids = [mk(10 * i + 1, "doer", None, steps, tk), mk(10 * i + 2, "fn", own, max(1, steps - 1), 0.0)]

        class G(doing.DoDoer):
            def enter(self, doers=None, *, temp=None):
                if doers is None:
                    log.append((i, "enter", self.tyme, ("temp", temp)))
                return super().enter(doers=doers, temp=temp)
        g = G(doers=kids, tock=0.0)
        if own is not None:
            g.temp = own
        return g

    doers = [mk(k + 1, *d) for k, d in enumerate(p["doers"])]
    kw = dict(tock=p["tock"], tyme=p["c_tyme"], real=p["real"])
    if p["c_limit"] is not None:
        kw["limit"] = p["c_limit"]
    if p["c_temp"] is not None:
        kw["temp"] = p["c_temp"]
    if p["c_doers"]:
        kw["doers"] = doers
    doist = doing.Doist(**kw)
    holder["doist"] = doist
    a = {}
    if p["a_doers"]:
        a["doers"] = doers
    for k in ("limit", "tyme", "temp"):
        if p["a_" + k] != "omit":
            a[k] = p["a_" + k]
    cycles = [0]
    orig = doist.recur

    def recur(*pa, **k2):
        cycles[0] += 1
        if cycles[0] > 3000:
            raise S.Runaway("too many cycles")
        return orig(*pa, **k2)
    doist.recur = recur
    gc_was = gc.isenabled()
    gc.disable()
    try:
        class R:
            dead = False
        rec = R()
        rec.log = log

        def go():
            if mode == "do":
                doist.do(**a)
            else:
                loop = asyncio.SelectorEventLoop()
                try:
                    loop.run_until_complete(doist.ado(**a))
                finally:
                    loop.close()
        raised, n = _classify(rec, go)
        gc.collect(1)
    finally:
        if gc_was:
            gc.enable()
    ids = []
    flags = []
    for k, d in enumerate(doers):
        flags.append((k + 1, bool(d.done)))
    return dict(trace=log[:n], late=log[n:], flags=flags, done=bool(doist.done), tyme=doist.tyme, raised=raised,
                doers=[doers.index(d) + 1 if d in doers else -1 for d in doist.doers], limit=doist.limit, temp=doist.temp, ndeeds=len(doist.deeds))


def c30_grid_clauses(a, b):
    bad = list(c30_clauses(a, b))
    inj = lambda o: [e[3:] for e in o["trace"] if e[1] == "enter"]
    if inj(a) != inj(b):
        bad.append("injected-temp-or-tock-differs")
    for k in ("limit", "temp", "ndeeds"):
        if a[k] != b[k]:
            bad.append("doist-%s-differs-after-run" % k)
    return sorted(set(bad))


class GridObs(tuple):
    def __new__(cls, a, b):
        o = super().__new__(cls, ("unmodelled",))
        o.a = a
        o.b = b
        o.d = a
        return o

    def __reduce__(self):
        return (GridObs, (self.a, self.b))


def skeleton_focus():
    """which run parameters the statements mention in which Doist.ado (normalised as in TimeSkel.lean) differs from Doist.do right now:
    used to aim the generators (and so the failing-input search) when the translator's theorem no longer checks"""
    try:
        from ..extract import sched_skeleton as XS
        do, ado, _ = XS.read_skeletons()
    except Exception:
        return []
    norm = []
    for it in ado:
        it = [t2 for t in it for t2 in (["self", ".", "timer"] if t == "atimer" else [t])]
        if it[:4] == ["await", "asyncio", ".", "sleep"]:
            it = ["call", "time", ".", "sleep"] + it[4:]
        norm.append(it)
    drop = [["else"], ["{"], ["call", "time", ".", "sleep", "(", "0.0", ")"], ["}"]]
    for k in range(len(norm) - 3):
        if norm[k:k + 4] == drop:
            norm = norm[:k] + norm[k + 4:]
            break
    norm = [it for it in norm if it != ["assign", "self", ".", "timer", "=", "timing", ".", "AsyncTimer"]]
    diff = [it for it in norm if it not in do] + [it for it in do if it not in norm]
    words = {t for it in diff for t in it}
    foci = [f for f in GRID_FOCI if f in words]
    if "deeds" in words and "doers" not in foci:
        foci.append("doers")
    if "tymer" in words and "limit" not in foci:
        foci.append("limit")
    return foci


# --------------------------------------------------------------------------- a small WORLD of own doers with the dynamic API (oracle only)

def gen_world(rng, kind):
    """kind "dyn": a flat Doist whose FIRST doer (enter order) re-sets the scheduler's tock / fast-forwards its tyme in mid cycle (C03);
    kind "pair": members + pool + remove/extend ops, to be applied to the Doist (flat) and to a tock-0 group DoDoer (nested) alike (C04):
    removes name doers by an EQUAL-BUT-NOT-IDENTICAL object (a bound method fetched afresh), extends re-offer completed members"""
    r = rng
    tock = r.choice([1.0, 0.5, 0.25, 0.1, 0.3])
    start = r.choice([0.0, 0.0, 1.0, 2.5, 0.3])
    asap = lambda: r.choice([0.0, 0.0, None])
    pos = lambda: r.choice([tock, 2 * tock, 0.5 * tock, 0.3, 1.5 * tock])

    def script():                       # positive* asap* (G04), so that the F46 known finding does not interfere
        k = r.choice([0, 0, 1, 2])
        return [pos() for _ in range(k)] + [asap() for _ in range(r.choice([1, 2, 3, 5, 8]))]
    n = r.choice([2, 3, 3, 4])
    styles = ["fn", "fn", "bound", "bound", "doizebound", "doer"]
    doers = [(k + 1, r.choice(styles), script()) for k in range(n)]
    p = dict(tock=tock, start=start, limit=r.choice([6 * tock, 10 * tock, 15 * tock]), doers=doers, pool=[], ops=[])
    if kind == "dyn":
        ops = []
        for _ in range(r.choice([1, 1, 2])):
            what = r.choice(["settock", "settock", "settyme"])
            val = r.choice([tock / 4, tock / 2, 2 * tock, 0.25, 0.1]) if what == "settock" else None
            ops.append((1, r.choice([1, 2, 3]), (what, val if what == "settock" else r.choice([3 * tock, 5.5 * tock, 1.0]))))   # settyme: forward by
        p["doers"] = [(1, doers[0][1], [asap() for _ in range(r.choice([4, 6, 9]))])] + doers[1:]
        p["ops"] = ops
    else:
        p["pool"] = [(50 + k, r.choice(styles), script()) for k in range(r.choice([0, 1, 2]))]
        ids = [d[0] for d in doers]
        ops = []
        for _ in range(r.choice([1, 2, 3])):
            actor = r.choice(ids)
            if r.random() < 0.5:
                tgt = [r.choice(ids) for _ in range(r.choice([1, 1, 2]))]
                ops.append((actor, r.choice([1, 2, 3]), ("remove", tgt, r.random() < 0.7)))
            else:
                tgt = [r.choice(ids + [q[0] for q in p["pool"]]) for _ in range(r.choice([1, 2, 3]))]
                ops.append((actor, r.choice([2, 3, 4, 6]), ("extend", tgt)))
        p["ops"] = ops
        # make re-extension of a COMPLETED member likely: one short member, one long actor that extends it late
        if r.random() < 0.6 and len(doers) >= 2:
            p["doers"] = [(doers[0][0], doers[0][1], [asap()])] + [(doers[1][0], doers[1][1], [asap() for _ in range(9)])] + doers[2:]
            p["ops"] = ops + [(doers[1][0], r.choice([4, 5, 6]), ("extend", [doers[0][0]] + [q[0] for q in p["pool"]][:1]))]
    return tuple(sorted(p.items()))


def run_world(params, nested=False, mode="do"):
    """REAL code: own logging doers (doify function / doify-ed and doize-d bound methods / Doer subclass); ops are issued by a doer during
    its n-th recur on ITS scheduler: the Doist when flat, the tock-0 DoDoer holding all members when nested"""
    import asyncio
    import gc
    import types
    from hio.base import doing
    core.assert_tree()
    p = dict(params)
    log = []
    obj = {}
    holder = {}
    ops = {}
    for actor, n, op in p["ops"]:
        ops.setdefault((actor, n), []).append(op)

    def fresh(o):
        """an equal but not identical way to name the same doer (what `obj.method` gives on every access)"""
        if isinstance(o, types.MethodType):
            return types.MethodType(o.__func__, o.__self__)
        return o

    def do_ops(i, n):
        sch = holder["sched"]
        for op in ops.get((i, n), ()):
            if op[0] == "settock":
                holder["doist"].tock = op[1]
            elif op[0] == "settyme":
                holder["doist"].tyme = holder["doist"].tyme + op[1]
            elif op[0] == "remove":
                sch.remove([fresh(obj[t]) if op[2] else obj[t] for t in op[1] if t in obj])
                log.append((0, "doers", holder["doist"].tyme, tuple(idof(d) for d in sch.doers)))
            elif op[0] == "extend":
                sch.extend([fresh(obj[t]) if (t % 2) else obj[t] for t in op[1] if t in obj])
                log.append((0, "doers", holder["doist"].tyme, tuple(idof(d) for d in sch.doers)))

    def idof(d):
        return next((k for k, o in obj.items() if o == d), -1)

    def mk(i, style, ys):
        def body(tymth, tock):
            n = 0
            term = "clean"
            log.append((i, "enter", tymth()))
            try:
                sent = yield tock
                while True:
                    n += 1
                    log.append((i, "recur", sent, ("tymth", tymth())))
                    do_ops(i, n)
                    if n > len(ys):
                        break
                    sent = yield ys[n - 1]
            except GeneratorExit:
                term = "cease"
            except Exception:
                term = "abort"
                raise
            finally:
                log.append((i, term, tymth()))
                log.append((i, "exit", tymth()))
            return True
        if style == "fn":
            def fn(tymth=None, tock=0.0, **opts):
                return (yield from body(tymth, tock))
            return doing.doify(fn, name=f"f{i}")
        if style in ("bound", "doizebound"):
            class H:
                def run(self, tymth=None, tock=0.0, **opts):
                    return (yield from body(tymth, tock))
            if style == "doizebound":
                H.run = doing.doize()(H.run)
                return H().run               # a bound method of a doize-d function: every access gives a new, equal object
            return doing.doify(H().run, name=f"m{i}")

        class D(doing.Doer):
            def recur(self, tock=None):
                return (yield from body2(self))

        def body2(self):
            n = 0
            sent = yield self.tock
            while True:
                n += 1
                log.append((i, "recur", sent, ("tymth", self.tymth())))
                do_ops(i, n)
                if n > len(ys):
                    return True
                sent = yield ys[n - 1]
        d = D()
        d.enter = lambda temp=None, _d=d: log.append((i, "enter", _d.tyme))
        d.clean = lambda _d=d: log.append((i, "clean", _d.tyme))
        d.cease = lambda _d=d: log.append((i, "cease", _d.tyme))
        d.abort = lambda ex=None, _d=d: log.append((i, "abort", _d.tyme))
        d.exit = lambda _d=d: log.append((i, "exit", _d.tyme))
        return d

    for i, style, ys in list(p["doers"]) + list(p["pool"]):
        obj[i] = mk(i, style, ys)
    members = [obj[d[0]] for d in p["doers"]]
    doist = doing.Doist(tock=p["tock"], tyme=p["start"], limit=p["limit"])
    holder["doist"] = doist
    if nested:
        group = doing.DoDoer(doers=members, tock=0.0)
        holder["sched"] = group
        top = [group]
    else:
        holder["sched"] = doist
        top = members
    cycles = [0]
    orig = doist.recur

    def recur(*pa, **kw):
        cycles[0] += 1
        if cycles[0] > 3000:
            raise S.Runaway("too many cycles")
        return orig(*pa, **kw)
    doist.recur = recur

    class R:
        dead = False
    rec = R()
    rec.log = log
    gc_was = gc.isenabled()
    gc.disable()
    try:
        def go():
            if mode == "do":
                doist.do(doers=top)
            else:
                loop = asyncio.SelectorEventLoop()
                try:
                    loop.run_until_complete(doist.ado(doers=top))
                finally:
                    loop.close()
        raised, n = _classify(rec, go)
        gc.collect(1)
    finally:
        if gc_was:
            gc.enable()
    sch = holder["sched"]
    return dict(trace=log[:n], late=log[n:], flags=[(i, bool(o.done)) for i, o in sorted(obj.items())], done=bool(doist.done),
                tyme=doist.tyme, tock=doist.tock, raised=raised, doers=[idof(d) for d in sch.doers], cycles=cycles[0])


def simulate_world(params):
    """the documented cycle model with the scheduler's tyme and tock READ WHEN USED (a doer may change them in mid cycle): expected
    (id, kind, tyme) events of a FLAT world without extend/remove, and the final tyme"""
    p = dict(params)
    ops = {}
    for actor, n, op in p["ops"]:
        ops.setdefault((actor, n), []).append(op)
    tyme, tock, start = float(p["start"]), float(p["tock"]), float(p["start"])
    ev = [(d[0], "enter", tyme) for d in p["doers"]]
    deeds = [[d[0], tyme, 0, d[2]] for d in p["doers"]]
    stop = start + abs(float(p["limit"]))
    for _ in range(3000):
        nxt = []
        for dd in deeds:
            i, retyme, n, ys = dd
            if retyme <= tyme:
                n += 1
                ev.append((i, "recur", tyme))
                for op in ops.get((i, n), ()):
                    if op[0] == "settock":
                        tock = float(op[1])
                    elif op[0] == "settyme":
                        tyme = tyme + op[1]
                if n > len(ys):
                    ev.append((i, "clean", tyme))
                    ev.append((i, "exit", tyme))
                    continue
                y = ys[n - 1]
                retyme = (tyme + tock) if not y else retyme + y
            nxt.append([i, retyme, n, ys])
        deeds = nxt
        tyme = tyme + tock
        if not deeds:
            return ev, tyme, True
        if tyme >= stop:
            break
    for i, _, _, _ in reversed(deeds):
        ev.append((i, "cease", tyme))
        ev.append((i, "exit", tyme))
    return ev, tyme, False


def c03_dyn_clauses(params, d):
    bad = []
    for e in d["trace"]:
        if e[1] == "recur" and e[2] != e[3][1]:
            bad.append("recur-sent-tyme-differs-from-scheduler-tyme")
            break
    want, tyme, done = simulate_world(params)
    got = [tuple(e[:3]) for e in d["trace"] if e[1] != "doers"]
    if got != want:
        k = next((n for n, (a, b) in enumerate(zip(got, want)) if a != b), min(len(got), len(want)))
        kind = (want[k][1] if k < len(want) else got[k][1])
        bad.append("doer-not-resumed-when-due-under-the-tock-and-tyme-in-force" if kind == "recur" else "events-differ-from-the-cycle-model")
    if d["tyme"] != tyme or d["done"] != done:
        bad.append("final-tyme-or-done-differs-from-the-cycle-model")
    if d["raised"] != "-" or d["late"]:
        bad.append("raised-or-late-exits")
    return sorted(set(bad))


def c04_pair_clauses(a, b):
    """flat (a) vs the same members and op script inside one tock-0 DoDoer (b)"""
    bad = []
    ta = [tuple(e[:3]) if e[1] != "doers" else e for e in a["trace"]]
    tb = [tuple(e[:3]) if e[1] != "doers" else e for e in b["trace"]]
    sel = lambda t, kinds: [e for e in t if e[1] in kinds]
    if sel(ta, ("enter",)) != sel(tb, ("enter",)):
        bad.append("enters-differ")
    if sel(ta, ("recur",)) != sel(tb, ("recur",)):
        bad.append("recur-steps-differ")
    if sel(ta, ("cease", "clean", "abort", "exit")) != sel(tb, ("cease", "clean", "abort", "exit")):
        bad.append("exits-differ")
    if sel(ta, ("doers",)) != sel(tb, ("doers",)) or a["doers"] != b["doers"]:
        bad.append("doers-list-differs")
    if a["flags"] != b["flags"] or a["done"] != b["done"]:
        bad.append("done-flags-differ")
    if a["tyme"] != b["tyme"]:
        bad.append("completion-cycle-differs")
    if a["raised"] != b["raised"] or len(a["late"]) != len(b["late"]):
        bad.append("raised-or-late-exits-differ")
    if not bad and ta != tb:
        bad.append("event-interleaving-differs")
    return bad


class WorldObs(tuple):
    def __new__(cls, a, b=None):
        o = super().__new__(cls, ("unmodelled",))
        o.a = a
        o.b = b
        o.d = a
        return o

    def __reduce__(self):
        return (WorldObs, (self.a, self.b))


def c30_cancel_clauses(case, j, ref, c):
    """what a cancelled ado must still guarantee (ref = the uncancelled do() run of the same program)"""
    bad = []
    if c["raised"] != "cancelled":
        # the run ended before the (j+1)-th await: nothing may differ from the blocking run
        return ["uncancelled-ado-differs-from-do:" + x for x in c30_clauses(ref, c)]
    tr = c["trace"]
    sb = [n for n, e in enumerate(tr) if e[1] == "stopBeg"]
    if len(sb) != 1 or tr[-1][1] != "stopEnd":
        return ["cancelled-ado-did-not-run-exit-once"]
    if tr[:sb[0]] != ref["trace"][:sb[0]]:
        bad.append("schedule-before-cancellation-differs-from-do")
    if c["done"]:
        bad.append("done-true-after-cancellation")
    t = float(case[2])
    for _ in range(j + 1):
        t += float(case[1])
    if c["tyme"] != t:
        bad.append("cancelled-ado-tyme-is-not-j+1-ticks")
    if c["late"]:
        bad.append("doer-exited-only-by-gc-after-cancellation")
    # every entered doer is exited, forced exits in reverse enter order of the live ones
    state = {}
    for e in tr:
        if e[1] == "enter":
            state[e[0]] = "live"
        elif e[1] == "exit":
            state[e[0]] = "idle"
    if any(v == "live" for v in state.values()):
        bad.append("entered-doer-not-exited-after-cancellation")
    top = [sp[1] for sp in case[5]]
    pos = {}
    for n, e in enumerate(tr[:sb[0]]):
        if e[1] == "enter" and e[0] in top:
            pos[e[0]] = n
    closed = [e[0] for e in tr[sb[0]:] if e[1] == "cease" and e[0] in pos]
    if op_free(case) and [pos[i] for i in closed] != sorted((pos[i] for i in closed), reverse=True):
        bad.append("forced-exits-not-in-reverse-enter-order")
    return bad


class TObs(S.Obs):
    """S.Obs that survives pickling"""
    def __reduce__(self):
        return (TObs, (self.d,))


_RUNS = [0]


def settle_heap():
    """run_program ends with gc.collect(); the observations a check keeps make that full collection slower and slower
    (quadratic over a thorough run).  Every 100 runs move what is alive to the permanent generation."""
    import gc
    _RUNS[0] += 1
    if _RUNS[0] % 100 == 0:
        gc.freeze()


def _y(t=0.0):
    return ([], ("yield", t))


def _lf(i, ys, shape="doify", act="ok", ret=None):
    steps = [_y(t) for t in ys]
    if ret is not None:
        steps.append(([], ("ret", ret[0])))
    return ("leaf", i, shape, act, steps)


def _grp(i, kids, tock=0.0, always=False):
    return ("group", i, tock, always, kids, [])


# pre-finding F46 exactly as in DESIGN §7, and relatives
F46_WITNESS = ("run", 1.0, 0.0, None, [], [_grp(9, [_lf(1, [0.0, 2.5, 0.0, 0.0])]), _lf(2, [0.0] * 7, "plain")])
# known finding C04-K2 = model theorem transparent_under_lagging_dodoer_fails: DoDoer 7 (tock 3) under a Doist with tock 2 comes round
# at 0, 4, 6, 10, 12 ...; the transparent group 9 inside it is due at tyme + 3 and skips the recurs at 6 and 12
K2_WITNESS = ("run", 2.0, 0.0, None, [], [_grp(7, [_grp(9, [_lf(1, [1.0] * 5)])], 3.0)])
# a top-level doer extends the Doist in mid cycle (cycle 1, at tyme 1.0) with doer 5 that yields 2.5 then 1.5: 5 runs at 2.0, 4.0, 5.0
EXTEND_POS_CORPUS = [
    ("run", 1.0, 0.0, None, [_lf(5, [2.5, 1.5, 0.0])], [_lf(1, [0.0] * 8), ("leaf", 2, "doify", "ok", [([], ("yield", 0.0)), ([("extend", [0])], ("yield", 0.0))] + [([], ("yield", 0.0))] * 6), _lf(3, [0.0] * 8, "plain")]),
    ("run", 0.25, 1.0, None, [_lf(5, [0.6, 0.6], "genrecur"), _lf(6, [1.0], "plain")], [("leaf", 1, "bound", "ok", [([("extend", [1, 0])], ("yield", None))] + [([], ("yield", 0.0))] * 9), _lf(2, [0.5] * 4)]),
]
DEGENERATE_CORPUS = [
    ("run", 0.25, 3.0, None, [], []),                                  # Doist(tyme=3.0, tock=0.25).do(doers=[]) must end at 3.25
    ("run", 1.0, 0.0, 5.0, [], []),
    ("run", 0.1, 0.3, None, [], [_lf(1, [], "doify", ("done", True)), _lf(2, [], "genrecur", ("done", None)), _lf(3, [], "plain", ("done", True))]),
    ("run", 0.5, 2.5, None, [], [_grp(9, [_lf(1, [], "bound", ("done", False))]), _grp(8, [])]),
    ("run", 0.3, 100.1, 0.7, [], [_grp(9, [], 0.3)]),
]
# one fault in mid cycle inside the LAST transparent group, live siblings on both sides (flat closes 5,3,2,1; nested 5,3 then 2,1)
ENTER_FAULT_CORPUS = [
    # the enter of a LATER member of a group raises: the members already entered are force-exited (2 then 1), flat and grouped
    ("run", 1.0, 0.0, None, [], [_lf(1, [0.0] * 3), _grp(9, [_lf(2, [0.0] * 3, "plain"), _lf(3, [0.0], "doify", "fail"), _lf(4, [0.0] * 3)])]),
    ("run", 0.5, 1.0, None, [], [_grp(9, [_lf(1, [0.0] * 3), _grp(8, [_lf(2, [0.0] * 3, "genrecur"), _lf(3, [0.0] * 3), _lf(4, [], "bound", "fail")])]), _lf(5, [0.0] * 3)]),
    ("run", 1.0, 0.0, 5.0, [], [_grp(9, [_lf(1, [0.0] * 3, "doize"), _lf(2, [0.0] * 2)]), _grp(8, [_lf(3, [0.0], "genrecur", "fail"), _lf(4, [0.0] * 3)])]),
]
FAULT_CORPUS = [
    ("run", 1.0, 0.0, None, [], [_lf(1, [0.0] * 6), _lf(2, [0.0] * 6, "plain"), _grp(9, [_lf(3, [0.0] * 6), ("leaf", 4, "doify", "ok", [([], ("yield", 0.0)), ([], ("yield", 0.0)), ([], "raise")]), _lf(5, [0.0] * 6, "genrecur")])]),
    ("run", 0.5, 1.0, None, [], [_grp(8, [_lf(1, [None] * 6)]), _grp(9, [_lf(2, [0.0] * 6), _grp(7, [_lf(3, [0.0] * 6, "bound"), ("leaf", 4, "genrecur", "ok", [([], ("yield", 0.0)), ([], "kbint")]), _lf(5, [0.0] * 6), _lf(6, [0.0] * 6, "plain")])])]),
]
# an `always` DoDoer (kept, resumed every cycle) that outlives its only doer, next to a lagging doer; stopped by the limit
ALWAYS_CASE = ("run", 0.5, 0.0, 3.0, [], [_grp(7, [_grp(9, [_lf(1, [0.0, 0.0])])], 0.0, True), _lf(2, [1.0] * 3, "plain")])
# a function-style doer whose done flag comes from its return value, followed in the same pass by a doer that waits on that flag:
# flat and regrouped; the waiter before its target; target done at enter
WAITER_CORPUS = [
    ("run", 1.0, 0.0, None, [], [_lf(1, [0.0, 0.0], "doify"), waiter_leaf(2, 1), _lf(3, [0.0] * 5, "plain")]),
    ("run", 1.0, 0.0, None, [], [_grp(9, [_lf(1, [0.0, 0.0], "doify"), waiter_leaf(2, 1)]), _lf(3, [0.0] * 5, "plain")]),
    ("run", 0.5, 1.0, None, [], [_lf(1, [1.0, 0.0], "bound"), _grp(9, [waiter_leaf(2, 1), _lf(3, [0.3] * 3)])]),
    ("run", 0.25, 0.3, 5.0, [], [waiter_leaf(2, 1), _grp(9, [_grp(8, [_lf(1, [0.5, None], "doize", ret=(True,))]), waiter_leaf(4, 1)]), _lf(3, [], "doify", ("done", True)), waiter_leaf(5, 3)]),
]
TIMING_CORPUS = [
    F46_WITNESS,
    K2_WITNESS,
    ALWAYS_CASE,
    flatten_case(F46_WITNESS),
    # same, None instead of 0.0, generator-recur shape, two levels of nesting, non-dyadic tock, start != 0
    ("run", 0.1, 0.3, None, [], [_grp(9, [_grp(8, [_lf(1, [None, 0.25, None], "genrecur")]), _lf(3, [0.3, 0.3])]), _lf(2, [0.0] * 5, "plain")]),
    # G04-conforming nested program (positive* asap*): transparent
    ("run", 0.25, 1.0, None, [], [_grp(9, [_lf(1, [0.5, 0.3, 0.0, None], "bound"), _grp(8, []), _lf(3, [1.0], "genrecur", ret=(False,))]), _lf(2, [0.1, 0.1, 0.1])]),
    # limit that is not a multiple of the tock, forced exits of nested doers
    ("run", 0.3, 2.5, 1.0, [], [_lf(1, [0.0] * 9), _grp(9, [_lf(2, [0.7] * 5), _grp(8, [_lf(3, [0.0] * 9, "doize")])]), _lf(4, [2.0] * 3, "plain")]),
    # only empty groups / empty program body
    ("run", 1.0, 0.0, None, [], [_grp(9, []), _grp(8, [_grp(7, [])])]),
    ("run", 0.5, 0.0, 2.0, [], [_grp(9, [_lf(1, [], "plain", ("done", True))])]),
    # tock>0 group holding a transparent group
    ("run", 0.5, 0.0, None, [], [_grp(9, [_grp(8, [_lf(1, [0.0, 0.0]), _lf(2, [1.0, 0.0])])], 1.0), _lf(3, [0.25] * 4)]),
]
