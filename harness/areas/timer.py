"""Shared Python for the Timer area (C07 real-time pacing, C08 timers).

Values: every tyme / clock value in a case is an INTEGER in units of 2**-10 s (so that the
double arithmetic of the real code is exact); adapters divide by S on the way in and multiply by S
on the way out (`sc`).  A value that does not come back as an integer is reported as ("q", num, den)
-- the model never produces that, so it shows up as a disagreement.

Case shapes (plain literals):
  ("tymer", (t0, t1, k0, k1), (w, dur, start), ops)
        two Tymists (tyme t_i, tock k_i); Tymer(tymth of tymist w | unwound if w is None, duration=dur, start=start)
        ops: ("tyme", i, v) | ("tick", i) | ("start", dur|None, start|None) | ("restart", dur|None) | ("wind", i)
  ("mono", base, incs, (dur, start, retro), ops)
        scripted clock: the m-th call of time.time() returns base + incs[0] + ... + incs[m]  (run stops when incs run out)
        MonoTimer(duration=dur, start=start, retro=retro)
        ops: ("elapsed",) | ("remaining",) | ("expired",) | ("latest",) | ("duration",) | ("start", dur|None, start|None) | ("restart", dur|None)
  ("pace", base, incs, ovs, tock0, pre, n, xs)
        scripted clock as above; time.sleep(d) advances the clock by d + ovs[j] (j-th sleep; 0 when ovs ran out)
        Doist(real=True, tock=tock0) ; pre ops between construction and do(): ("peek",) reads doist.timer.elapsed,
        ("tock", v) assigns doist.tock ; one doer that runs n cycles and makes xs[k] extra clock readings in cycle k.
"""
import time as _time
from fractions import Fraction

from .. import core

S = 1024


class Exhausted(BaseException):
    """the clock script ran out: the run is truncated here (BaseException so that no `except Exception` eats it)"""


def sc(x):
    """real value (float/int/None/bool) -> scaled exact integer (or ("q", num, den)); anything else -> ("odd", type)"""
    if x is None or x is True or x is False:
        return x
    try:
        f = Fraction(x) * S
    except (TypeError, ValueError, OverflowError):
        return ("odd", type(x).__name__)
    if f.denominator == 1:
        return int(f.numerator)
    return ("q", int(f.numerator), int(f.denominator))


def un(v):
    """scaled integer -> the argument handed to the library: a float, or an equal int when the value is a whole even
    number of seconds (equal-but-not-identical argument types: the library converts with float())"""
    if v is None:
        return None
    if v == S:
        return True           # float(True) == 1.0
    if v % S == 0 and (v // S) % 2 == 0:
        return v // S         # ints, negative ones too
    return v / S


BAD_ARGS = ("abc", [1])      # float("abc") -> ValueError, float([1]) -> TypeError


class FakeClock:
    def __init__(self, base, incs, ovs=()):
        self.c = Fraction(base, S)
        self.incs = list(incs)
        self.ovs = list(ovs)
        self.i = 0
        self.j = 0
        self.tag = "t"
        self.log = []      # ("t"|"x", scaled reading) | ("s", scaled duration) | ("c", k)

    def time(self):
        if self.i >= len(self.incs):
            raise Exhausted()
        self.c += Fraction(self.incs[self.i], S)
        self.i += 1
        v = float(self.c)
        self.log.append((self.tag, sc(v)))
        return v

    def sleep(self, d):
        if d < 0:
            raise ValueError("sleep length must be non-negative")     # as the real time.sleep
        ov = self.ovs[self.j] if self.j < len(self.ovs) else 0
        self.j += 1
        self.log.append(("s", sc(d)))
        self.c += Fraction(d) + Fraction(ov, S)


class patched:
    """replace time.time / time.sleep (the module object hio uses) by the scripted clock, in this process only"""

    def __init__(self, clock):
        self.clock = clock

    def __enter__(self):
        self.t, self.s = _time.time, _time.sleep
        _time.time, _time.sleep = self.clock.time, self.clock.sleep
        return self.clock

    def __exit__(self, *a):
        _time.time, _time.sleep = self.t, self.s
        return False


def _val(fn):
    try:
        return sc(fn())
    except TypeError:
        return "TypeError"
    except Exception as ex:      # anything else is an observation the oracle will not be able to account for
        return "raised-" + type(ex).__name__


# --------------------------------------------------------------------------
# Tymer

def run_tymer(case):
    """ops: ("tyme", i, v) | ("tick", i) | ("tock", i, v) | ("start", dur|None, start|None) | ("restart", dur|None) | ("wind", i)
    | ("bad", "start-dur"|"start-start"|"restart-dur", j)  a call with an argument float() rejects
    | ("other", "restart"|"start"|"wind")  the same call on a SIBLING Tymer wound to tymist 0 (must not touch the primary)"""
    from hio.base import tyming
    _, (t0, t1, k0, k1), (w, dur, start), ops = case
    ts = [tyming.Tymist(tyme=un(t0), tock=un(k0)), tyming.Tymist(tyme=un(t1), tock=un(k1))]
    kept = [ts[0].tymen(), ts[1].tymen()]      # closures made once and re-used: ("wind", i) hands over kept[i] -- the very
    kw = {}                                      # object the tymer already holds when it is wound to i; ("windf", i) a fresh one
    if w is not None:
        kw["tymth"] = kept[w]
    try:
        tm = tyming.Tymer(duration=un(dur), start=un(start), **kw)
        sib = tyming.Tymer(tymth=ts[0].tymen(), duration=un(dur))
    except Exception as ex:
        return (("ctor-raised", type(ex).__name__),)       # the constructor never raises in the model / the reference

    def snap(ret):
        return (ret, _val(lambda: tm.duration), _val(lambda: tm.elapsed), _val(lambda: tm.remaining), _val(lambda: tm.expired))

    out = [snap(None)]
    for op in ops:
        k = op[0]
        ret = None
        try:
            if k == "tyme":
                ts[op[1]].tyme = un(op[2])
            elif k == "tick":
                ts[op[1]].tick()
            elif k == "tock":
                ts[op[1]].tock = un(op[2])
            elif k == "start":
                ret = sc(tm.start(duration=un(op[1]), start=un(op[2])))
            elif k == "restart":
                ret = sc(tm.restart(duration=un(op[1])))
            elif k == "wind":
                tm.wind(kept[op[1]])
            elif k == "windf":
                tm.wind(ts[op[1]].tymen())
            elif k == "windh":
                tm.wind(tm.tymth)          # the closure read back from the tymer itself
            elif k == "bad":
                b = BAD_ARGS[op[2] % len(BAD_ARGS)]
                if op[1] == "start-dur":
                    tm.start(duration=b)
                elif op[1] == "start-start":
                    tm.start(start=b)
                else:
                    tm.restart(duration=b)
                ret = "accepted"
            elif k == "other":
                if op[1] == "restart":
                    sib.restart()
                elif op[1] == "start":
                    sib.start(duration=un(7 * S + 3))
                else:
                    sib.wind(ts[1].tymen())
            else:
                raise core.Infra(f"bad tymer op {op!r}")
        except core.Infra:
            raise
        except Exception:
            # a rejected call.  The model has two: start() at the current tyme on a tymer that is not wound (None + float)
            # and the ("bad", ...) calls; both must leave the timer as it was.  The trace goes on.
            ret = "raised"
        out.append(snap(ret))
    return tuple(out)


def oracle_tymer(case, obs):
    """C08 for the virtual Tymer, from the property text: a reference (start, duration) pair kept from the
    arguments and return values only; elapsed = now - start, remaining = stop - now, expired <=> now >= stop,
    restart begins at the previous stop.  A rejected call (bad argument; start() at the current tyme with no tymist)
    raises and leaves the timer exactly as it was; nothing else raises; a sibling timer is independent."""
    _, (t0, t1, k0, k1), (w, dur, start), ops = case
    bad = set()
    tymes = [t0, t1]
    tocks = [k0, k1]
    rdur = dur if dur is not None else 0
    rstart = start if start is not None else (tymes[w] if w is not None else 0)
    if not obs or obs[0][0] == "ctor-raised":
        return ["tymer-constructor-raised"]

    def chk(o):
        ret, d, e, r, x = o
        if d != rdur:
            bad.add("tymer-duration")
        if w is not None:
            now = tymes[w]
            if e != now - rstart:
                bad.add("tymer-elapsed")
            if r != rstart + rdur - now:
                bad.add("tymer-remaining")
            if x is not (now >= rstart + rdur):
                bad.add("tymer-expired")
        elif (e, r, x) != ("TypeError", "TypeError", "TypeError"):
            bad.add("tymer-unwound-report")

    chk(obs[0])
    for op, o in zip(ops, obs[1:]):
        k = op[0]
        rejected = k == "bad" or (k in ("start", "windh") and (k == "windh" or op[2] is None) and w is None)
        if rejected:
            if o[0] != "raised":
                bad.add("tymer-bad-call-accepted")
            chk(o)      # reference unchanged
            continue
        if o[0] == "raised":
            bad.add("tymer-op-raised")
            continue
        if k == "tyme":
            tymes[op[1]] = op[2]
        elif k == "tick":
            tymes[op[1]] += tocks[op[1]]
        elif k == "tock":
            tocks[op[1]] = op[2]
        elif k == "start":
            rdur = op[1] if op[1] is not None else rdur
            rstart = op[2] if op[2] is not None else tymes[w]
            if o[0] != rstart:
                bad.add("tymer-start-return")
        elif k == "restart":
            rstart = rstart + rdur          # the previous stop
            rdur = op[1] if op[1] is not None else rdur
            if o[0] != rstart:
                bad.add("tymer-restart-at-previous-stop")
        elif k in ("wind", "windf"):
            w = op[1]
            rstart = tymes[w]
        elif k == "windh":
            rstart = tymes[w]           # re-winding onto the same tymist begins a fresh period at its current tyme
        chk(o)
    if len(obs) != len(ops) + 1:
        bad.add("tymer-trace-length")
    return sorted(bad)


def gen_tymer(rng):
    grid = rng.choice([1, 1, 32, 256, 1024])

    def val(lo=-20, hi=60):
        return rng.randint(lo, hi) * grid

    t0, t1 = val(0, 40), val(-10, 40)
    k0, k1 = rng.choice([0, 1, 32, 128, 1024]) , rng.choice([1, 32, 512])
    w = rng.choice([0, 0, 0, 1, None])
    dur = rng.choice([None, 0, val(0, 20), val(0, 20), val(-5, 5), val(-8, -1), -1])
    start = rng.choice([None, None, val()])
    ops = []
    cur = w
    nops = rng.choice([0, 1, 2, 3, 5, 8, 12, 20, rng.randint(0, 40)])
    style = rng.random()
    for _ in range(nops):
        r = rng.random()
        if cur is None and r < 0.3:
            ops.append(("wind", rng.choice([0, 1])))
            cur = ops[-1][1]
        elif r < 0.30:
            i = cur if (cur is not None and rng.random() < 0.8) else rng.choice([0, 1])
            ops.append(("tick", i))
        elif r < 0.50:
            i = cur if (cur is not None and rng.random() < 0.8) else rng.choice([0, 1])
            ops.append(("tyme", i, val(-20, 80)))        # arbitrary, including rewinds
        elif r < 0.72 or style < 0.25:
            ops.append(("restart", rng.choice([None, None, None, val(0, 20), 0, val(-5, 5), val(-8, -1), -1])))
        elif r < 0.92:
            d = rng.choice([None, None, val(0, 20), 0, val(-8, -1), -1])
            s = rng.choice([None, None, val()])
            if cur is None and s is None and rng.random() < 0.6:
                s = val()
            ops.append(("start", d, s))
        else:
            i = cur if (cur is not None and rng.random() < 0.5) else rng.choice([0, 1])      # often the tymist it is already on
            ops.append((rng.choice(["wind", "wind", "windf"]), i))
            cur = i
        q = rng.random()
        if q > 0.93 and cur is not None:
            ops.append(("tyme", cur, val(-20, 80)))
            ops.append((rng.choice(["wind", "windh"]), cur) if rng.random() < 0.5 else ("windh",))
            if len(ops[-1]) == 2 and ops[-1][0] == "windh":
                ops[-1] = ("windh",)
        if q < 0.06:
            ops.append(("bad", rng.choice(["start-dur", "start-start", "restart-dur"]), rng.randint(0, 1)))
        elif q < 0.12:
            ops.append(("other", rng.choice(["restart", "start", "wind"])))
        elif q < 0.17:
            ops.append(("tock", rng.choice([0, 1]), rng.choice([0, 1, 32, 96, val(0, 5)])))
    return ("tymer", (t0, t1, k0, k1), (w, dur, start), tuple(ops))


def boundary_tymer(rng):
    """tyme placed exactly at stop-1, stop, stop+1 after a few restarts (expired is `>=`, restart is at stop not at tyme)"""
    g = rng.choice([1, 32, 1024])
    s0, d = rng.randint(-5, 20) * g, rng.randint(0, 9) * g
    ops = []
    stop = s0 + d
    for _ in range(rng.randint(1, 6)):
        off = rng.choice([-1, 0, 1, rng.randint(-3, 30) * g])
        ops.append(("tyme", 0, stop + off))
        if rng.random() < 0.7:
            nd = rng.choice([None, None, rng.randint(0, 9) * g])
            ops.append(("restart", nd))
            d = nd if nd is not None else d
            stop = stop + d
    return ("tymer", (s0, 0, g, 1), (0, d if rng.random() < 0.5 else None, rng.choice([None, s0])), tuple(ops))


def shrink_ops(case, idx):
    ops = case[idx]
    for i in range(len(ops)):
        yield case[:idx] + (ops[:i] + ops[i + 1:],) + case[idx + 1:]


# --------------------------------------------------------------------------
# MonoTimer

def run_mono(case):
    """ops: ("elapsed",) | ("remaining",) | ("expired",) | ("latest",) | ("duration",) | ("start", dur|None, start|None) | ("restart", dur|None)
    | ("retro", bool)  assigns timer.retro
    | ("bad", "start-dur"|"start-start"|"restart-dur", j)  a call with an argument float() rejects
    | ("other", "elapsed"|"restart")  the same on a SIBLING MonoTimer sharing the clock (elapsed consumes a reading)"""
    from hio.help import timing
    _, base, incs, (dur, start, retro), ops = case
    clock = FakeClock(base, incs)
    out = []
    with patched(clock):
        try:
            sib = timing.MonoTimer(duration=un(dur), start=un(base))      # explicit start: reads no clock
            tm = timing.MonoTimer(duration=un(dur), start=un(start), retro=retro)
            out.append(("new", clock.i))
            for op in ops:
                k = op[0]
                try:
                    if k in ("elapsed", "remaining", "expired", "latest", "duration"):
                        v = sc(getattr(tm, k))
                    elif k == "start":
                        v = sc(tm.start(duration=un(op[1]), start=un(op[2])))
                    elif k == "restart":
                        v = sc(tm.restart(duration=un(op[1])))
                    elif k == "retro":
                        tm.retro = op[1]
                        v = None
                    elif k == "bad":
                        b = BAD_ARGS[op[2] % len(BAD_ARGS)]
                        if op[1] == "start-dur":
                            tm.start(duration=b)
                        elif op[1] == "start-start":
                            tm.start(start=b)
                        else:
                            tm.restart(duration=b)
                        v = "accepted"
                    elif k == "other":
                        if op[1] == "elapsed":
                            sib.elapsed
                        else:
                            sib.restart()
                        v = None
                    else:
                        raise core.Infra(f"bad mono op {op!r}")
                except timing.RetroTimerError:
                    v = "RetroTimerError"
                except core.Infra:
                    raise
                except Exception as ex:
                    v = "ValueError" if k == "bad" else "raised-" + type(ex).__name__
                out.append((v, clock.i))      # result, number of clock readings consumed so far
        except Exhausted:
            out.append(("exhausted",))
        except Exception as ex:
            out.append(("ctor-raised", type(ex).__name__))
    return tuple(out)


def readings(base, incs):
    r, c = [], base
    for d in incs:
        c += d
        r.append(c)
    return r


def pos_sum(rs, a, b):
    """elapsed real time between reading a and reading b (indices into rs): the non-negative increments"""
    return sum(max(0, rs[m] - rs[m - 1]) for m in range(a + 1, b + 1))


def oracle_mono(case, obs):
    """C08 for MonoTimer: between two start/restart calls elapsed never decreases and expired never reverts, for
    every reading sequence; and (title: "measure elapsed time exactly", class doc) for a timer whose period was
    begun by start() at the current clock, elapsed is the real elapsed time = sum of the non-negative increments over
    the readings the timer took since then (a reading it refused with RetroTimerError is not taken), remaining =
    duration - that, expired <=> that >= duration, and restart() continues from the previous stop.  A call rejected for
    a bad argument raises and changes nothing; nothing else raises (RetroTimerError only while retro is off); a sibling
    timer on the same clock is independent."""
    _, base, incs, (dur, start, retro), ops = case
    bad = set()
    rs = readings(base, incs)
    if not obs or obs[0] == ("exhausted",):
        return []
    if obs[0][0] == "ctor-raised":
        return ["mono-constructor-raised"]
    n0 = obs[0][1]
    exact = start is None and n0 >= 1
    E, lastown, off = 0, (rs[n0 - 1] if n0 >= 1 else None), 0
    rdur = dur
    last_el = None
    was_expired = False
    prev = n0
    for op, o in zip(ops, obs[1:]):
        if o == ("exhausted",):
            break
        v, ni = o
        k = op[0]
        took, prev = ni - prev, ni
        if isinstance(v, str) and v.startswith("raised-"):
            bad.add("mono-op-raised")
            exact = False
            continue
        if k == "other":
            continue
        if k == "retro":
            retro = op[1]
            continue
        if k == "bad":
            if v != "ValueError":
                bad.add("mono-bad-call-accepted")
            if took:
                exact = False
            continue
        if k in ("start", "restart"):
            last_el, was_expired = None, False
            if k == "start":
                rdur = op[1] if op[1] is not None else rdur
                if op[2] is None and took == 1:
                    exact, E, lastown, off = True, 0, rs[ni - 1], 0
                    if v != rs[ni - 1]:
                        bad.add("mono-start-return")
                else:
                    exact = False
            else:
                off += rdur
                rdur = op[1] if op[1] is not None else rdur
            continue
        if k == "duration":
            if v != rdur:
                bad.add("mono-duration")
            continue
        if v == "RetroTimerError":
            if retro:
                bad.add("mono-retro-raised")
            continue
        if took != 1:
            exact = False
        if exact:
            E += max(0, rs[ni - 1] - lastown)
            lastown = rs[ni - 1]
        el = E - off if exact else None
        if k == "elapsed":
            if not isinstance(v, int):
                bad.add("mono-elapsed-not-a-number")
                continue
            if last_el is not None and v < last_el:
                bad.add("mono-elapsed-decreased")
            last_el = v
            if exact and v != el:
                bad.add("mono-elapsed-exact")
        elif k == "remaining":
            if exact and v != rdur - el:
                bad.add("mono-remaining-exact")
        elif k == "expired":
            if v is not True and v is not False:
                bad.add("mono-expired-not-a-bool")
                continue
            if was_expired and v is False:
                bad.add("mono-expired-reverted")
            was_expired = was_expired or v is True
            if exact and v is not (el >= rdur):
                bad.add("mono-expired-exact")
    return sorted(bad)


def gen_incs(rng, n, grid, profile=None):
    """clock increments: steady / stalled / stepped backwards, backward steps possible at every position"""
    profile = profile if profile is not None else rng.choice(["steady", "stall", "back", "mixed", "mixed", "wild"])
    out = []
    for _ in range(n):
        r = rng.random()
        if profile == "steady":
            d = rng.randint(0, 6) * grid
        elif profile == "stall":
            d = 0 if r < 0.7 else rng.randint(0, 8) * grid
        elif profile == "back":
            d = -rng.randint(1, 40) * grid if r < 0.3 else rng.randint(0, 6) * grid
        elif profile == "mixed":
            d = 0 if r < 0.25 else (-rng.randint(1, 60) * grid if r < 0.4 else rng.randint(0, 10) * grid)
        else:
            d = rng.randint(-3000, 3000)
        out.append(d)
    return out


def gen_mono(rng):
    grid = rng.choice([1, 1, 32, 1024])
    base = rng.choice([0, 5 * S, 1000 * S, 1700000000 * S, rng.randint(-50, 50) * grid])
    nops = rng.choice([1, 2, 3, 5, 8, 12, 20, rng.randint(0, 40)])
    dur = rng.choice([0, rng.randint(0, 30) * grid, rng.randint(0, 30) * grid, rng.randint(0, 200) * grid, -rng.randint(1, 30) * grid, -1])
    start = None if rng.random() < 0.75 else base + rng.randint(-40, 40) * grid
    retro = rng.random() < 0.85
    ops = []
    for _ in range(nops):
        r = rng.random()
        if r < 0.25:
            ops.append(("elapsed",))
        elif r < 0.40:
            ops.append(("remaining",))
        elif r < 0.60:
            ops.append(("expired",))
        elif r < 0.66:
            ops.append(("latest",))
        elif r < 0.72:
            ops.append(("duration",))
        elif r < 0.86:
            ops.append(("restart", rng.choice([None, None, None, None, rng.randint(0, 30) * grid, 0, -rng.randint(1, 30) * grid])))
        else:
            s = None if rng.random() < 0.75 else base + rng.randint(-40, 40) * grid
            ops.append(("start", rng.choice([None, None, rng.randint(0, 30) * grid, 0, -rng.randint(1, 30) * grid]), s))
    extra = []
    for op in ops:
        extra.append(op)
        q = rng.random()
        if q < 0.05:
            extra.append(("bad", rng.choice(["start-dur", "start-start", "restart-dur"]), rng.randint(0, 1)))
        elif q < 0.12:
            extra.append(("other", rng.choice(["elapsed", "elapsed", "restart"])))
        elif q < 0.16:
            extra.append(("retro", rng.random() < 0.6))
    ops = extra
    need = 2 + len(ops)
    incs = gen_incs(rng, need if rng.random() < 0.9 else rng.randint(0, need), grid)
    # a backward step exactly at a start() (between the previous reading and the reading start() takes)
    if rng.random() < 0.4 and ops:
        pos = 2 if start is None else 0
        for op in ops:
            if op[0] == "start" and op[2] is None and pos < len(incs) and rng.random() < 0.7:
                incs[pos] = -rng.randint(1, 80) * grid
            if op[0] in ("elapsed", "remaining", "expired", "latest") or (op[0] == "start" and op[2] is None) \
                    or op == ("other", "elapsed"):
                pos += 1
    if rng.random() < 0.15 and len(incs) >= 2 and start is None:
        incs[1] = -rng.randint(1, 80) * grid      # between the two readings of the constructor
    return ("mono", base, tuple(incs), (dur, start, retro), tuple(ops))


# --------------------------------------------------------------------------
# real-time pacing

def _mktriv():
    def triv(tymth=None, tock=0.0, **kw):
        while True:
            yield
    triv.tock = 0.0
    triv.done = None
    triv.opts = {}
    return triv


def _mkdoer(clock, n, xs, exc=False, holder=None):
    """the doer of the pacing scenarios: lives n cycles; in cycle k it follows xs[k]: an int x = x extra clock readings;
    (x, e) = the same plus, after the first reading, an operation on the scheduler that runs it (holder[0]):
    e = 1 doist.extend([a new trivial doer]), 2 doist.remove(every doer extended so far), 3 extend one and remove it again.
    The operation is logged as ("o", e).  Before it ends the doer removes what is still extended (so the run can end)."""
    live = []

    def sched(e):
        d = holder[0] if holder else None
        clock.log.append(("o", e))
        if d is None:
            return
        if e in (1, 3):
            t = _mktriv()
            d.extend([t])
            live.append(t)
        if e in (2, 3):
            d.remove(list(live))
            del live[:]

    def doer(tymth=None, tock=0.0, **kw):
        k = 0
        while True:
            yield
            step = xs[k] if k < len(xs) else 0
            x, e = step if isinstance(step, tuple) else (step, 0)
            clock.tag = "x"
            try:
                for i in range(x):
                    _time.time()
                    if i == 0 and e:
                        clock.tag = "t"
                        sched(e)
                        clock.tag = "x"
                if x == 0 and e:
                    clock.tag = "t"
                    sched(e)
            finally:
                clock.tag = "t"
            k += 1
            if k >= n:
                if live and holder and holder[0] is not None:
                    holder[0].remove(list(live))
                    del live[:]
                if exc:
                    raise RuntimeError("doer failed")
                return True
    doer.tock = 0.0
    doer.done = None
    doer.opts = {}
    return doer


def _mkdoist(clock):
    from hio.base import doing

    class LDoist(doing.Doist):
        def recur(self, *pa, **kwa):
            clock.log.append(("c", self._cyc))
            self._cyc += 1
            return super().recur(*pa, **kwa)
    return LDoist


def _ctor_kw(pre, tock0):
    """how the scheduler is configured: ("real",) in pre = built with the default real=False and switched on by assigning
    doist.real = True at that position (otherwise real=True goes to the constructor); ("limit", v, how): how = "ctor" the
    constructor gets limit=v, "attr" doist.limit = v is assigned at that position, "call" do()/ado() gets limit=v"""
    kw = dict(tock=un(tock0))
    if not any(op[0] == "real" for op in pre):
        kw["real"] = True
    for op in pre:
        if op[0] == "limit" and op[2] == "ctor":
            kw["limit"] = un(op[1])
    return kw


def _call_kw(pre):
    for op in pre:
        if op[0] == "limit" and op[2] == "call":
            return dict(limit=un(op[1]))
    return {}


def _pre(clock, d, pre, doing_cls):
    """operations between construction and do(): ("peek",) read doist.timer.elapsed; ("tock", v) assign doist.tock (any
    number of times); ("sib", v) build ANOTHER real-time Doist with tock v (its timer reads the clock twice; tagged x);
    ("sibtock", v) assign the sibling's tock; ("real",) doist.real = True; ("limit", v, "attr") doist.limit = v"""
    sib = None
    for op in pre:
        if op[0] == "peek":
            d.timer.elapsed
        elif op[0] == "tock":
            d.tock = un(op[1])
        elif op[0] == "real":
            d.real = True
        elif op[0] == "limit":
            if op[2] == "attr":
                d.limit = un(op[1])
        elif op[0] == "sib":
            clock.tag = "x"
            try:
                sib = doing_cls(real=True, tock=un(op[1]))
            finally:
                clock.tag = "t"
        elif op[0] == "sibtock":
            if sib is not None:
                sib.tock = un(op[1])
        else:
            raise core.Infra(f"bad pre op {op!r}")


def pre_for_model(pre):
    """the model sees a sibling Doist being built as two clock readings by somebody else; how `real` and `limit` reach the
    scheduler does not exist there (`limit` only bounds the number of cycles, see cycles_for_model)"""
    out = []
    for p in pre:
        if p[0] == "sib":
            out += [("xread",), ("xread",)]
        elif p[0] in ("peek", "tock"):
            out.append(p)
    return tuple(out)


def cycles_for_model(pre, tock0, n, tock_override=None):
    """number of recur() calls of a run with a doer living n cycles: at least one; cut by `limit` (virtual tyme: the run
    ends after the first cycle j with j * tock >= limit)"""
    n = max(n, 1)
    tock = tock0
    limit = None
    for p in pre:
        if p[0] == "tock":
            tock = p[1]
        elif p[0] == "limit":
            limit = abs(p[1]) if p[2] != "attr" else p[1]
    if tock_override is not None:
        tock = tock_override
    if tock is None:
        from hio.base import tyming
        tock = sc(tyming.Tymist.Tock)
    if limit is None:
        return n
    for j in range(1, n + 1):
        if j * tock >= limit:
            return j
    return n


def run_pace(case):
    _, base, incs, ovs, tock0, pre, n, xs = case
    clock = FakeClock(base, incs, ovs)
    LDoist = _mkdoist(clock)
    holder = [None]
    doer = _mkdoer(clock, n, xs, holder=holder)
    end = "done"
    tock_run = None
    i_run = None
    with patched(clock):
        try:
            d = LDoist(**_ctor_kw(pre, tock0))
            holder[0] = d
            d._cyc = 0
            _pre(clock, d, pre, LDoist)
            tock_run = sc(d.tock)
            i_run = len(clock.log)
            d.do(doers=[doer] if n > 0 else [], **_call_kw(pre))      # n == 0: no doers at all -- still one paced cycle
        except Exhausted:
            end = "exhausted"
        except core.Infra:
            raise
        except Exception as ex:      # the run itself raised (e.g. time.sleep(negative) -> ValueError)
            end = "raised-" + type(ex).__name__
    log = clock.log
    if i_run is None:
        return (tuple(log), (), end, None)
    return (tuple(log[:i_run]), tuple(log[i_run:]), end, tock_run)


class _Kbd(FakeClock):
    """script ran out -> KeyboardInterrupt (Ctrl-C arriving during the run) instead of cutting the case"""

    def time(self):
        if self.i >= len(self.incs) and self.kbd:
            self.interrupted = True
            raise KeyboardInterrupt()
        return FakeClock.time(self)


def run_pace2(case):
    """("pace2", (base, incs, ovs, tock0, pre, n, xs), (mode, tock2), (base2, incs2, ovs2, n2, xs2, entry))
    The SAME Doist runs twice.  Run 1 is a pace case; mode "kbd": when its clock script runs out inside do() a
    KeyboardInterrupt is delivered (do() ends the run and returns, or lets it out of timer.start()); mode "exc": the doer
    raises in its last cycle (do() re-raises after exit()); mode "plain": run 1 must finish within its script.
    Then doist.tock = tock2 (if given), the system clock is replaced by the second script (a clock step of any size between
    the runs), and the run is repeated with n2 cycles through entry "do" (doist.do) or "call" (doist())."""
    _, (base, incs, ovs, tock0, pre, n, xs), (mode, tock2), (base2, incs2, ovs2, n2, xs2, entry) = case
    clock = _Kbd(base, incs, ovs)
    clock.kbd = False
    clock.interrupted = False
    LDoist = _mkdoist(clock)
    end1, tock1, i_run = "done", None, None
    run2, end2, tock2run = (), None, None
    with patched(clock):
        try:
            d = LDoist(**_ctor_kw(pre, tock0))
            d._cyc = 0
            _pre(clock, d, pre, LDoist)
            tock1 = sc(d.tock)
            i_run = len(clock.log)
            clock.kbd = mode == "kbd"
            try:
                d.do(doers=[_mkdoer(clock, n, xs, exc=(mode == "exc"), holder=[d])] if n > 0 else [], **_call_kw(pre))
            except KeyboardInterrupt:
                pass
            except RuntimeError:
                end1 = "doer-raised"
            if clock.interrupted:
                end1 = "exhausted"
        except Exhausted:
            end1 = "exhausted"
        except core.Infra:
            raise
        except Exception as ex:
            end1 = "raised-" + type(ex).__name__
        log1 = list(clock.log)
        if i_run is not None and not (end1 == "exhausted" and not clock.interrupted) and not end1.startswith("raised"):
            clock.kbd = False
            clock.c = Fraction(base2, S)
            clock.incs, clock.i, clock.ovs, clock.j = list(incs2), 0, list(ovs2), 0
            clock.log = []
            end2 = "done"
            try:
                if tock2 is not None:
                    d.tock = un(tock2)
                tock2run = sc(d.tock)
                d._cyc = 0
                doer2 = _mkdoer(clock, n2, xs2, holder=[d])
                if entry == "call":
                    d(doers=[doer2])
                else:
                    d.do(doers=[doer2])
            except Exhausted:
                end2 = "exhausted"
            except core.Infra:
                raise
            except Exception as ex:
                end2 = "raised-" + type(ex).__name__
            run2 = tuple(clock.log)
    if i_run is None:
        return (tuple(log1), (), end1, None, (), None, None)
    return (tuple(log1[:i_run]), tuple(log1[i_run:]), end1, tock1, run2, end2, tock2run)


def oracle_pace2(case, obs):
    """C07 for each of the two runs of the same scheduler: every run is paced from ITS OWN first clock reading with the
    tock the scheduler has when THAT run starts, whatever the previous run did (finished, interrupted, failed)."""
    pre, run1, end1, tock1, run2, end2, tock2 = obs
    fake1 = ("pace",) + tuple(case[1])
    bad = set(oracle_pace(fake1, (pre, run1, "done" if end1 == "doer-raised" else end1, tock1)))
    if end2 is not None:
        bad |= {"second-run:" + c for c in oracle_pace(fake1, ((), run2, end2, tock2))}
    return sorted(bad)


def gen_pace2(rng):
    first = gen_pace(rng)[1:]
    base, incs, ovs, tock0, pre, n, xs = first
    mode = rng.choice(["kbd", "kbd", "plain", "exc"])
    if mode != "kbd":
        incs = tuple(incs) + (0,) * (6 * n + 12)       # run 1 must be able to finish
    elif rng.random() < 0.8:
        npre = 2 + sum(1 for p in pre if p[0] == "peek") + 2 * sum(1 for p in pre if p[0] == "sib")
        if len(incs) > npre + 1:
            incs = tuple(incs)[:rng.randint(npre + 1, len(incs))]      # Ctrl-C somewhere inside run 1 (incl. in timer.start)
        else:
            incs = tuple(incs) + (0,) * rng.randint(1, 6)
    grid = rng.choice([1, 8, 32])
    tock2 = rng.choice([None, None, rng.randint(0, 12) * grid, rng.randint(1, 64) * grid, 0])
    base2 = rng.choice([base, 0, base - rng.randint(1, 5000), base + rng.randint(1, 5000), rng.randint(-50, 50) * grid])
    n2 = rng.choice([1, 2, 3, 4, 6])
    xs2 = tuple(rng.choice([0, 0, 1, 2]) for _ in range(n2))
    incs2 = gen_incs(rng, 1 + sum(xs2) + n2 * rng.choice([3, 4, 6]) + rng.randint(0, 6), grid)
    ovs2 = tuple(rng.choice([0, 0, rng.randint(1, 200), -rng.randint(1, 40)]) for _ in range(rng.randint(0, 2 * n2)))
    return ("pace2", (base, tuple(incs), ovs, tock0, pre, n, xs), (mode, tock2),
            (base2, tuple(incs2), ovs2, n2, xs2, rng.choice(["do", "call"])))


def oracle_pace(case, obs):
    """C07 from the property text, on the real log.  The run starts at do(); its first clock reading is time zero.
    elapsed real time = sum of the non-negative increments over ALL readings (timer's and anybody's);
    never-early: cycle k >= 1 begins only when elapsed real time >= k * tock (tock = the scheduler's tock at do());
    lossless: whatever happened in earlier cycles, the wait before cycle k+1 aims at deadline (k+1) * tock in the
    monotone coordinates the timer can see (its own readings): it never asks to sleep beyond that deadline (so no
    lateness is carried over)."""
    _, base, incs, ovs, tock0, pre, n, xs = case
    prelog, run, end, tock_run = obs
    bad = set()
    if tock_run is None:
        return []
    tock = tock_run      # doist.tock read by the adapter immediately before do(): the tock the scheduler has when the run starts
    if not isinstance(tock, int):
        return ["inexact-tock"]
    F = 0
    last = None     # last reading, anybody's
    Ev = 0
    lt = None       # last reading of the timer
    k = None
    cycles = 0
    for ev in run:
        if ev[0] in ("t", "x"):
            v = ev[1]
            if not isinstance(v, int):
                bad.add("inexact-reading")
                return sorted(bad)
            if last is not None:
                F += max(0, v - last)
            last = v
            if ev[0] == "t":
                if lt is not None:
                    Ev += max(0, v - lt)
                lt = v
        elif ev[0] == "c":
            k = ev[1]
            cycles += 1
            if k >= 1 and F < k * tock:
                bad.add("never-early")
        elif ev[0] == "s":
            d = ev[1]
            if k is None or lt is None or not isinstance(d, int):
                bad.add("sleep-before-run")
                continue
            want = max(0, (k + 1) * tock - Ev)
            if d > want:
                bad.add("lossless-sleeps-past-deadline")
            # d < want is not a violation of the property (the loop re-checks and sleeps again); the model theorem
            # proves equality and the correspondence compares the exact value.
    if end.startswith("raised"):
        bad.add("run-raised")
    return sorted(bad)


def gen_pace(rng):
    grid = rng.choice([1, 1, 8, 32])
    base = rng.choice([0, 1000 * S, 1700000000 * S, rng.randint(-50, 50) * grid])
    tock0 = rng.choice([None, 32, 32, rng.randint(0, 12) * grid, rng.randint(1, 64) * grid, 0])
    pre = []
    r = rng.random()
    if r < 0.35:
        pre.append(("tock", rng.choice([rng.randint(0, 12) * grid, rng.randint(1, 64) * grid, 16, 64, 128, 0])))
    if rng.random() < 0.3:
        pre.insert(rng.randint(0, len(pre)), ("peek",))
    if rng.random() < 0.1:
        pre.append(("peek",))
    if rng.random() < 0.15:      # tock reassigned again (and again)
        for _ in range(rng.randint(1, 2)):
            pre.insert(rng.randint(0, len(pre)), ("tock", rng.choice([rng.randint(0, 12) * grid, 16, 64, 0])))
    if rng.random() < 0.2:       # a sibling real-time scheduler is built (and reconfigured) before the run
        k = rng.randint(0, len(pre))
        pre.insert(k, ("sib", rng.choice([rng.randint(1, 64) * grid, 1, 1024])))
        if rng.random() < 0.6:
            pre.insert(rng.randint(k + 1, len(pre)), ("sibtock", rng.randint(1, 64) * grid))
    if rng.random() < 0.35:      # real-time mode switched on after construction (attribute) instead of real=True
        pre.insert(rng.randint(0, len(pre)), ("real",))
    if rng.random() < 0.2:       # a run limit, given to the constructor / assigned / given to do()
        pre.insert(rng.randint(0, len(pre)), ("limit", rng.choice([0, rng.randint(0, 6) * (tock0 or 32), rng.randint(1, 300)]),
                                              rng.choice(["ctor", "attr", "call"])))
    n = rng.choice([0, 1, 2, 3, 3, 4, 5, 6, 8, rng.randint(1, 14)])
    xs = tuple(rng.choice([0, 0, 0, 1, 2, 3]) if rng.random() < 0.5 else 0 for _ in range(n))
    if n >= 2 and rng.random() < 0.35:
        # the doer extends / removes other doers in mid-cycle, after the clock has moved inside that cycle
        xs = tuple((rng.choice([0, 1, 1, 2, 3]), rng.choice([1, 1, 2, 3])) if (k < n - 1 and rng.random() < 0.6) else x
                   for k, x in enumerate(xs))
    npre = 2 + sum(1 for p in pre if p[0] == "peek") + 2 * sum(1 for p in pre if p[0] == "sib")
    nrun = 1 + sum(x[0] if isinstance(x, tuple) else x for x in xs) + n * rng.choice([3, 4, 6]) + rng.randint(0, 10)
    profile = rng.choice(["steady", "stall", "back", "mixed", "mixed", "wild"])
    incs = gen_incs(rng, npre + nrun, grid, profile)
    # time passes (or the clock is stepped back) between construction and do()
    r = rng.random()
    if r < 0.35:
        incs[npre] = -rng.randint(1, 200) * grid       # backward step just before timer.start() in do()
    elif r < 0.6:
        incs[npre] = rng.randint(1, 200) * grid
    if rng.random() < 0.2:
        incs[1] = -rng.randint(1, 50) * grid           # inside the constructor
    if rng.random() < 0.25:
        cut = rng.randint(0, len(incs))
        incs = incs[:cut]
    novs = rng.randint(0, 2 * n + 2)
    ovs = []
    for _ in range(novs):
        q = rng.random()
        if q < 0.35:
            ovs.append(0)
        elif q < 0.6:
            ovs.append(rng.randint(1, 5 * max(1, (tock0 or 32))))     # overshoot (lateness), up to several tocks
        elif q < 0.7:
            ovs.append(rng.choice([1, 2, 3]) * (tock0 or 32))         # late by a whole number of tocks: wakes exactly on a later deadline
        elif q < 0.85:
            ovs.append(-rng.randint(1, 40) * grid)                     # woke early / clock stepped back while asleep
        else:
            ovs.append(rng.randint(1, 3) * grid)
    return ("pace", base, tuple(incs), tuple(ovs), tock0, tuple(pre), n, xs)


def shrink_pace(case):
    _, base, incs, ovs, tock0, pre, n, xs = case
    if n > 1:
        yield ("pace", base, incs, ovs, tock0, pre, n - 1, xs[:n - 1])
    for i in range(len(pre)):
        if pre[i][0] == "peek":
            continue      # removing a peek shifts the script; keep
    if any(xs):
        yield ("pace", base, incs, ovs, tock0, pre, n, tuple(0 for _ in xs))
    for i, x in enumerate(xs):
        if isinstance(x, tuple):
            yield ("pace", base, incs, ovs, tock0, pre, n, xs[:i] + (x[0],) + xs[i + 1:])
    for i in range(len(ovs)):
        if ovs[i] != 0:
            yield ("pace", base, incs, ovs[:i] + (0,) + ovs[i + 1:], tock0, pre, n, xs)
    if ovs:
        yield ("pace", base, incs, ovs[:-1], tock0, pre, n, xs)
    if incs:
        yield ("pace", base, incs[:-1], ovs, tock0, pre, n, xs)
    for i in range(len(incs)):
        if incs[i] != 0:
            yield ("pace", base, incs[:i] + (0,) + incs[i + 1:], ovs, tock0, pre, n, xs)
    if base != 0:
        yield ("pace", 0, incs, ovs, tock0, pre, n, xs)


def shrink_mono(case):
    _, base, incs, init, ops = case
    for i in range(len(ops)):
        yield ("mono", base, incs, init, ops[:i] + ops[i + 1:])
    if incs:
        yield ("mono", base, incs[:-1], init, ops)
    for i in range(len(incs)):
        if incs[i] != 0:
            yield ("mono", base, incs[:i] + (0,) + incs[i + 1:], init, ops)
        yield ("mono", base, incs[:i] + incs[i + 1:], init, ops)
    if base != 0:
        yield ("mono", 0, incs, init, ops)


def shrink_tymer(case):
    yield from shrink_ops(case, 3)
    _, ts, init, ops = case
    if init[1] is not None:
        yield ("tymer", ts, (init[0], None, init[2]), ops)
    if init[2] is not None:
        yield ("tymer", ts, (init[0], init[1], None), ops)


def perturb_incs(rng, incs, grid=1):
    incs = list(incs)
    if not incs:
        return tuple(incs)
    for _ in range(rng.randint(1, 3)):
        i = rng.randrange(len(incs))
        incs[i] = rng.choice([0, -rng.randint(1, 100) * grid, rng.randint(1, 20) * grid])
    return tuple(incs)


# --------------------------------------------------------------------------
# raw-float streams (oracle only: the Int-time model cannot speak about rounding)
#
# The property is about floats as the library computes them.  These cases use non-dyadic readings / durations /
# tocks, so double rounding matters, and are judged by a float reference written from the property text:
# a timer started at clock reading r with duration d has start = r, stop = r + d; a reading below the last one
# is a retrograde by delta = r - last and moves start, stop and last by delta; expired is `latest >= stop`,
# elapsed `latest - start`, remaining `stop - latest`; restart begins at the previous stop with the same duration.

class FClock:
    def __init__(self, base, incs, ovs=()):
        self.c = float(base)
        self.incs = list(incs)
        self.ovs = list(ovs)
        self.i = 0
        self.j = 0
        self.tag = "t"
        self.log = []

    def time(self):
        if self.i >= len(self.incs):
            raise Exhausted()
        self.c = self.c + self.incs[self.i]
        self.i += 1
        self.log.append((self.tag, self.c))
        return self.c

    def sleep(self, d):
        if d < 0:
            raise ValueError("sleep length must be non-negative")
        ov = self.ovs[self.j] if self.j < len(self.ovs) else 0.0
        self.j += 1
        self.log.append(("s", d))
        self.c = self.c + d + ov


class FRef:
    """float reference timer (see the comment above)"""

    def __init__(self, r, dur):
        self.start = self.last = r
        self.stop = r + dur

    def see(self, r):
        delta = r - self.last
        if delta < 0:
            self.start += delta
            self.stop += delta
        self.last += delta
        return self.last

    def restart(self, dur=None):
        d = dur if dur is not None else self.stop - self.start
        self.start = self.stop
        self.stop = self.start + d

    def begin(self, r, dur=None):
        d = dur if dur is not None else self.stop - self.start
        self.start = self.last = r
        self.stop = r + d


def run_fmono(case):
    from hio.help import timing
    _, base, incs, dur, ops = case
    clock = FClock(base, incs)
    out = []
    with patched(clock):
        try:
            tm = timing.MonoTimer(duration=dur)
            out.append(("new", clock.i))
            for op in ops:
                k = op[0]
                if k in ("elapsed", "remaining", "expired", "latest", "duration"):
                    v = getattr(tm, k)
                elif k == "start":
                    v = tm.start(duration=op[1])
                elif k == "restart":
                    v = tm.restart(duration=op[1])
                else:
                    raise core.Infra(f"bad fmono op {op!r}")
                out.append((v, clock.i))
        except Exhausted:
            out.append(("exhausted",))
        except core.Infra:
            raise
        except Exception as ex:
            out.append(("raised", type(ex).__name__))
    return wrapF(tuple(out))


def oracle_fmono(case, obs):
    _, base, incs, dur, ops = case
    obs = unwrapF(obs)
    if any(o and o[0] == "raised" for o in obs):
        return ["fmono-raised"]
    bad = set()
    rs, c = [], float(base)
    for d in incs:
        c = c + d
        rs.append(c)
    if not obs or obs[0] == ("exhausted",):
        return []
    n0 = obs[0][1]
    if n0 < 1:
        return ["fmono-no-reading-at-construction"]
    ref = FRef(rs[n0 - 1], float(dur))
    seen = n0
    last_el, was_exp = None, False
    for op, o in zip(ops, obs[1:]):
        if o == ("exhausted",):
            break
        v, ni = o
        k = op[0]
        if k == "start":
            if ni != seen + 1:
                bad.add("fmono-readings-per-op")
                break
            ref.begin(rs[ni - 1], op[1])
            seen = ni
            if v != ref.start:
                bad.add("fmono-start-return")
            last_el, was_exp = None, False
            continue
        if k == "restart":
            ref.restart(op[1])
            if v != ref.start:
                bad.add("fmono-restart-not-at-previous-stop")
            last_el, was_exp = None, False
            continue
        if k == "duration":
            if v != ref.stop - ref.start:
                bad.add("fmono-duration")
            continue
        if ni != seen + 1:
            bad.add("fmono-readings-per-op")
            break
        ref.see(rs[ni - 1])
        seen = ni
        if k == "elapsed":
            if v != ref.last - ref.start:
                bad.add("fmono-elapsed-not-latest-minus-start")
            if last_el is not None and v < last_el:
                bad.add("fmono-elapsed-decreased")
            last_el = v
        elif k == "remaining":
            if v != ref.stop - ref.last:
                bad.add("fmono-remaining-not-stop-minus-latest")
        elif k == "expired":
            if v is not (ref.last >= ref.stop):
                bad.add("fmono-expired-not-exactly-latest>=stop")
            if was_exp and v is False:
                bad.add("fmono-expired-reverted")
            was_exp = was_exp or v is True
        elif k == "latest":
            if v != ref.last:
                bad.add("fmono-latest")
    return sorted(bad)


FVALS = [0.1, 0.3, 0.7, 1.1, 0.05, 0.01, 0.03, 1 / 3, 0.2, 0.123456, 2.5, 1e-3, 4.23]


def gen_fmono(rng):
    import math
    pick = lambda: rng.choice(FVALS) * rng.choice([1, 1, 3, 7, 0.1])
    base = rng.choice([0.0, 0.1, 1000.7, 1700000000.123, 5e-3])
    dur = rng.choice([pick(), pick(), pick(), -pick(), -0.0, -5e-324, -1e-17])
    ops = []
    for _ in range(rng.choice([1, 2, 3, 5, 8, 12])):
        r = rng.random()
        if r < 0.2:
            ops.append(("elapsed",))
        elif r < 0.4:
            ops.append(("remaining",))
        elif r < 0.7:
            ops.append(("expired",))
        elif r < 0.75:
            ops.append(("latest",))
        elif r < 0.8:
            ops.append(("duration",))
        elif r < 0.93:
            ops.append(("restart", rng.choice([None, None, None, pick(), -pick(), -0.0])))
        else:
            ops.append(("start", rng.choice([None, pick(), -pick(), -1e-17])))
    # readings: aim at the deadline and its float neighbours, with backward steps in between
    incs = [rng.choice([0.0, pick() * 0.01]), rng.choice([0.0, pick() * 0.01, -pick()])]
    c = base + incs[0] + incs[1]
    start, stop = c, c + dur
    for op in ops:
        if op[0] == "restart":
            d = op[1] if op[1] is not None else stop - start
            start, stop = stop, stop + d
        elif op[0] in ("duration",):
            continue
        else:
            q = rng.random()
            if q < 0.4:
                target = rng.choice([stop, math.nextafter(stop, -1e300), math.nextafter(stop, 1e300), start + (stop - start)])
                inc = target - c
            elif q < 0.6:
                inc = -pick() * rng.choice([0.1, 1, 1])
            elif q < 0.7:
                inc = 0.0
            else:
                inc = pick() * rng.choice([0.01, 0.1, 1])
            incs.append(inc)
            c2 = c + inc
            if c2 < c:
                start += c2 - c
                stop += c2 - c
            c = c2
            if op[0] == "start":
                d = op[1] if op[1] is not None else stop - start
                start, stop = c, c + d
    if rng.random() < 0.3:
        # aim: timer started on a clock below zero, shown a reading a little before its stop and then the float
        # neighbours of the stop itself (see gen_fpace)
        base = -rng.choice(FVALS) * rng.choice([1, 0.1, 0.5])
        dur = -base + rng.choice(FVALS) * rng.choice([1, 0.1, 0.5, 3])
        stop = base + dur
        below = math.nextafter(stop, -math.inf)
        near = stop - dur * rng.choice([0.01, 0.001, 0.1])
        seq = [near] + [rng.choice([below, below, stop, math.nextafter(below, -math.inf), math.nextafter(stop, math.inf)]) for _ in range(3)]
        incs, c, ops = [0.0, 0.0], base, []
        for t in seq:
            if c + (t - c) != t:
                break
            incs.append(t - c)
            c = t
            ops.append((rng.choice(["expired", "expired", "remaining", "elapsed"]),))
    return ("fmono", base, tuple(incs), dur, tuple(ops))


def run_fpace(case):
    from hio.base import doing
    _, base, incs, ovs, tock0, tock1, n = case
    clock = FClock(base, incs, ovs)

    class LDoist(doing.Doist):
        def recur(self, *pa, **kwa):
            clock.log.append(("c", self._cyc))
            self._cyc += 1
            return super().recur(*pa, **kwa)

    def doer(tymth=None, tock=0.0, **kw):
        k = 0
        while True:
            yield
            k += 1
            if k >= n:
                return True
    doer.tock = 0.0
    doer.done = None
    doer.opts = {}

    end = "done"
    tock_run = None
    i_run = None
    with patched(clock):
        try:
            d = LDoist(real=True, tock=tock0)
            d._cyc = 0
            if tock1 is not None:
                d.tock = tock1
            tock_run = d.tock
            i_run = len(clock.log)
            d.do(doers=[doer])
        except Exhausted:
            end = "exhausted"
        except Exception as ex:
            end = "raised-" + type(ex).__name__
    if i_run is None:
        return ((), end, None)
    return wrapF((tuple(clock.log[i_run:]), end, tock_run))


def oracle_fpace(case, obs):
    """C07 with floats as the library computes them, tolerance-free: the run's first reading r0 starts a timer of
    duration tock (the scheduler's tock at do()); cycle k >= 1 begins only when the timer, shown exactly the readings
    the run made, has reached its float-accumulated deadline (latest >= stop); then the next period begins at the previous
    stop; no sleep request exceeds the time left (stop - latest)."""
    run, end, tock = unwrapF(obs)
    bad = set()
    if tock is None:
        return []
    ref = None
    reached = False
    for ev in run:
        if ev[0] == "t":
            if ref is None:
                ref = FRef(ev[1], float(tock))
            else:
                ref.see(ev[1])
                reached = ref.last >= ref.stop
        elif ev[0] == "c":
            if ev[1] >= 1:
                if ref is None or not reached:
                    bad.add("never-early-float")
                    return sorted(bad)
                ref.restart()
                reached = False
        elif ev[0] == "s":
            if ref is None:
                bad.add("sleep-before-run")
            elif ev[1] > max(0.0, ref.stop - ref.last):
                bad.add("lossless-sleeps-past-deadline-float")
    if end.startswith("raised"):
        bad.add("run-raised")
    return sorted(bad)


def gen_fpace(rng):
    import math
    pick = lambda: rng.choice(FVALS) * rng.choice([1, 1, 3, 0.1])
    base = rng.choice([0.0, 0.1, 0.01, 0.003, -0.05, -0.3, -1e-3, 4.23, 3.3, 1000.7, 1700000000.123])
    tock0 = rng.choice([0.1, 0.03, 0.01, 1 / 3, 0.7, 50.0, 1.1, pick(), pick() * 10])
    tock1 = rng.choice([None, None, None, pick()])
    n = rng.choice([1, 2, 3, 4, 6, 9])
    m = 3 + n * rng.choice([3, 4, 6]) + rng.randint(0, 6)
    u = math.ulp(base + n * (tock1 if tock1 is not None else tock0))      # the clock's grain around the deadlines
    style = rng.random()
    incs = []
    for _ in range(m):
        q = rng.random()
        if style < 0.5:      # quiet clock: wake-ups land on the float deadline or a few grains beside it
            incs.append(0.0 if q < 0.8 else rng.choice([-2, -1, 1, 1, 2, 3]) * u)
        else:
            incs.append(0.0 if q < 0.55 else (-pick() * rng.choice([0.1, 1]) if q < 0.7 else pick() * rng.choice([0.001, 0.01, 0.1])))
    ovs = []
    for _ in range(rng.randint(0, 2 * n + 1)):
        q = rng.random()
        if style < 0.5:
            ovs.append(0.0 if q < 0.5 else rng.choice([-3, -2, -1, 1, 2]) * u)
        else:
            ovs.append(0.0 if q < 0.6 else (pick() * rng.choice([0.01, 1, 3]) if q < 0.85 else -pick() * 0.1))
    if rng.random() < 0.4:
        # aim: a quiet clock that starts below zero (stop - start then lies in a higher binade than stop itself, which is
        # where `latest >= stop` and a rewrite through differences round differently); the first sleep wakes a little
        # early, the second wake-up is put exactly on the float deadline or a grain or two beside it.
        # readings: 2 in the constructor, timer.start, expired, remaining, sleep, expired, remaining, sleep, expired
        base = -rng.choice(FVALS) * rng.choice([1, 0.1, 0.5])
        tock0 = -base + rng.choice(FVALS) * rng.choice([1, 0.1, 0.5, 3])
        tock1 = None
        incs = [0.0] * max(m, 12)
        ref = FRef(base, tock0)
        ov = -tock0 * rng.choice([0.01, 0.001, 0.1])
        c = base + (ref.stop - ref.last) + ov
        ref.see(c)
        ref.see(c)
        c = c + max(0.0, ref.stop - ref.last) + 0.0
        below = math.nextafter(ref.stop, -math.inf)
        target = rng.choice([below, below, ref.stop, math.nextafter(below, -math.inf), math.nextafter(ref.stop, math.inf)])
        ovs = [ov]
        if c + (target - c) == target:
            incs[7] = target - c
    return ("fpace", base, tuple(incs), tuple(ovs), tock0, tock1, n)


def wrapF(v):
    from .. import sx
    if isinstance(v, float):
        return sx.F(v)
    if isinstance(v, tuple):
        return tuple(wrapF(x) for x in v)
    return v


def unwrapF(v):
    from .. import sx
    if isinstance(v, sx.F):
        return v.x
    if isinstance(v, tuple):
        return tuple(unwrapF(x) for x in v)
    return v


# --------------------------------------------------------------------------
# Timer / AsyncTimer (plain wall-clock timers, no retrograde compensation)
#   ("ptimer", kind, base, incs, (dur, start), ops)   kind = "timer" (time.time) | "async" (event loop .time())
#   ops: ("elapsed",) | ("remaining",) | ("expired",) | ("duration",) | ("start", dur|None, start|None) | ("restart", dur|None)

def run_ptimer(case):
    import asyncio
    from hio.help import timing
    _, kind, base, incs, (dur, start), ops = case
    clock = FakeClock(base, incs)
    out = []

    class FakeLoop(asyncio.AbstractEventLoop):
        def time(self):
            return clock.time()

    def body():
        cls = timing.Timer if kind == "timer" else timing.AsyncTimer
        try:
            tm = cls(duration=un(dur), start=un(start))
            out.append(("new", clock.i))
            for op in ops:
                k = op[0]
                if k in ("elapsed", "remaining", "expired", "duration"):
                    v = sc(getattr(tm, k))
                elif k == "start":
                    v = sc(tm.start(duration=un(op[1]), start=un(op[2])))
                elif k == "restart":
                    v = sc(tm.restart(duration=un(op[1])))
                elif k == "bad":
                    b = BAD_ARGS[op[2] % len(BAD_ARGS)]
                    try:
                        if op[1] == "start-dur":
                            tm.start(duration=b)
                        elif op[1] == "start-start":
                            tm.start(start=b)
                        else:
                            tm.restart(duration=b)
                        v = "accepted"
                    except Exhausted:
                        raise
                    except Exception:
                        v = "ValueError"
                else:
                    raise core.Infra(f"bad ptimer op {op!r}")
                out.append((v, clock.i))
        except Exhausted:
            out.append(("exhausted",))
        except core.Infra:
            raise
        except Exception as ex:
            out.append(("raised", type(ex).__name__))

    if kind == "timer":
        with patched(clock):
            body()
    else:
        import warnings
        try:
            old = None
            asyncio.set_event_loop(FakeLoop())
            # AsyncTimer.__init__ takes a provisional ._start from time.time() (overwritten by start()): not a script reading
            with warnings.catch_warnings():
                warnings.simplefilter("ignore", DeprecationWarning)
                body()
        finally:
            asyncio.set_event_loop(old)
    return tuple(out)


def oracle_ptimer(case, obs):
    """Timer / AsyncTimer from their documented contract: elapsed = now - start, remaining = stop - now, expired <=> now >= stop,
    restart begins at the previous stop; on a stretch where the clock does not go backwards (the event-loop clock is
    monotonic by contract) elapsed never decreases and expired never reverts."""
    _, kind, base, incs, (dur, start), ops = case
    bad = set()
    rs = readings(base, incs)
    if not obs or obs[0] == ("exhausted",):
        return []
    if obs[0][0] == "raised":
        return ["ptimer-constructor-raised"]
    n0 = obs[0][1]
    rstart = start if start is not None else (rs[n0 - 1] if n0 >= 1 else None)
    if rstart is None:
        return ["ptimer-no-reading-at-construction"]
    rdur = dur
    seen = n0
    last_el, was_exp, mono_ok = None, False, True
    for op, o in zip(ops, obs[1:]):
        if o == ("exhausted",):
            break
        if o[0] == "raised":
            bad.add("ptimer-op-raised")
            break
        v, ni = o
        k = op[0]
        if k == "bad":
            if v != "ValueError":
                bad.add("ptimer-bad-call-accepted")
            seen = ni
            continue
        if ni > seen and any(rs[m] < rs[m - 1] for m in range(max(seen, 1), ni)):
            mono_ok = False     # the clock went backwards inside this period: no monotonicity claim
        if k == "duration":
            if v != rdur:
                bad.add("ptimer-duration")
        elif k == "restart":
            rstart = rstart + rdur
            rdur = op[1] if op[1] is not None else rdur
            if v != rstart:
                bad.add("ptimer-restart-at-previous-stop")
            last_el, was_exp, mono_ok = None, False, True
        elif k == "start":
            rdur = op[1] if op[1] is not None else rdur
            rstart = op[2] if op[2] is not None else rs[ni - 1]
            if v != rstart:
                bad.add("ptimer-start-return")
            last_el, was_exp, mono_ok = None, False, True
        else:
            now = rs[ni - 1]
            if k == "elapsed":
                if v != now - rstart:
                    bad.add("ptimer-elapsed")
                if mono_ok and last_el is not None and v < last_el:
                    bad.add("ptimer-elapsed-decreased-on-monotonic-clock")
                last_el = v
            elif k == "remaining":
                if v != rstart + rdur - now:
                    bad.add("ptimer-remaining")
            elif k == "expired":
                if v is not (now >= rstart + rdur):
                    bad.add("ptimer-expired")
                if mono_ok and was_exp and v is False:
                    bad.add("ptimer-expired-reverted-on-monotonic-clock")
                was_exp = was_exp or v is True
        seen = ni
    return sorted(bad)


def gen_ptimer(rng):
    grid = rng.choice([1, 1, 32, 1024])
    kind = rng.choice(["timer", "async", "async"])
    base = rng.choice([0, 5 * S, 1000 * S, rng.randint(-50, 50) * grid])
    dur = rng.choice([0, rng.randint(0, 30) * grid, rng.randint(0, 30) * grid, -rng.randint(1, 30) * grid, -1])
    start = None if rng.random() < 0.7 else base + rng.randint(-40, 40) * grid
    ops = []
    for _ in range(rng.choice([1, 2, 3, 5, 8, 12, rng.randint(0, 25)])):
        r = rng.random()
        if r < 0.3:
            ops.append(("elapsed",))
        elif r < 0.45:
            ops.append(("remaining",))
        elif r < 0.7:
            ops.append(("expired",))
        elif r < 0.76:
            ops.append(("duration",))
        elif r < 0.9:
            ops.append(("restart", rng.choice([None, None, None, rng.randint(0, 30) * grid, 0, -rng.randint(1, 30) * grid])))
        else:
            s = None if rng.random() < 0.6 else base + rng.randint(-40, 40) * grid
            ops.append(("start", rng.choice([None, None, rng.randint(0, 30) * grid, 0, -rng.randint(1, 30) * grid]), s))
    for _ in range(rng.choice([0, 0, 1, 2])):
        ops.insert(rng.randint(0, len(ops)), ("bad", rng.choice(["start-dur", "start-start", "restart-dur"]), rng.randint(0, 1)))
    need = 2 + len(ops)
    incs = gen_incs(rng, need, grid, rng.choice(["steady", "steady", "stall", "mixed"]))
    # put readings exactly on / beside the stop now and then (expired is `>=`)
    if rng.random() < 0.4 and start is None and len(incs) >= 3:
        incs[2] = dur + rng.choice([-1, 0, 1])
    return ("ptimer", kind, base, tuple(incs), (dur, start), tuple(ops))


def shrink_ptimer(case):
    _, kind, base, incs, init, ops = case
    for i in range(len(ops)):
        yield ("ptimer", kind, base, incs, init, ops[:i] + ops[i + 1:])
    if incs:
        yield ("ptimer", kind, base, incs[:-1], init, ops)
    for i in range(len(incs)):
        if incs[i] != 0:
            yield ("ptimer", kind, base, incs[:i] + (0,) + incs[i + 1:], init, ops)


# --------------------------------------------------------------------------
# raw-float Timer / AsyncTimer (oracle only)

def _fake_loop(clock):
    import asyncio

    class FakeLoop(asyncio.AbstractEventLoop):
        def time(self):
            return clock.time()
    return FakeLoop()


def run_fptimer(case):
    import asyncio
    import warnings
    from hio.help import timing
    _, kind, base, incs, dur, ops = case
    clock = FClock(base, incs)
    out = []

    def body():
        cls = timing.Timer if kind == "timer" else timing.AsyncTimer
        try:
            tm = cls(duration=dur)
            out.append(("new", clock.i))
            for op in ops:
                k = op[0]
                if k in ("elapsed", "remaining", "expired", "duration"):
                    v = getattr(tm, k)
                elif k == "start":
                    v = tm.start(duration=op[1])
                else:
                    v = tm.restart(duration=op[1])
                out.append((v, clock.i))
        except Exhausted:
            out.append(("exhausted",))
        except Exception as ex:
            out.append(("raised", type(ex).__name__))

    if kind == "timer":
        with patched(clock):
            body()
    else:
        try:
            asyncio.set_event_loop(_fake_loop(clock))
            with warnings.catch_warnings():
                warnings.simplefilter("ignore", DeprecationWarning)
                body()
        finally:
            asyncio.set_event_loop(None)
    return wrapF(tuple(out))


def oracle_fptimer(case, obs):
    """floats as the library computes them: started at reading r with duration d: start = r, stop = r + d;
    elapsed = now - start, remaining = stop - now, expired exactly when now >= stop; restart at the previous stop"""
    _, kind, base, incs, dur, ops = case
    obs = unwrapF(obs)
    bad = set()
    rs, c = [], float(base)
    for d in incs:
        c = c + d
        rs.append(c)
    if not obs or obs[0] == ("exhausted",):
        return []
    if obs[0][0] == "raised" or obs[0][1] < 1:
        return ["fptimer-constructor"]
    start = rs[obs[0][1] - 1]
    stop = start + float(dur)
    for op, o in zip(ops, obs[1:]):
        if o == ("exhausted",):
            break
        if o[0] == "raised":
            bad.add("fptimer-op-raised")
            break
        v, ni = o
        k = op[0]
        now = rs[ni - 1]
        if k == "duration":
            if v != stop - start:
                bad.add("fptimer-duration")
        elif k == "restart":
            d = op[1] if op[1] is not None else stop - start
            start, stop = stop, stop + d
            if v != start:
                bad.add("fptimer-restart-not-at-previous-stop")
        elif k == "start":
            d = op[1] if op[1] is not None else stop - start
            start, stop = now, now + d
            if v != start:
                bad.add("fptimer-start-return")
        elif k == "elapsed":
            if v != now - start:
                bad.add("fptimer-elapsed-not-now-minus-start")
        elif k == "remaining":
            if v != stop - now:
                bad.add("fptimer-remaining-not-stop-minus-now")
        elif k == "expired":
            if v is not (now >= stop):
                bad.add("fptimer-expired-not-exactly-now>=stop")
    return sorted(bad)


def gen_fptimer(rng):
    import math
    pick = lambda: rng.choice(FVALS) * rng.choice([1, 1, 3, 7, 0.1])
    kind = rng.choice(["timer", "async", "async"])
    base = rng.choice([0.0, 0.1, -0.05, -0.3, 4.23, 1000.7, 1700000000.123])
    dur = rng.choice([pick(), pick(), 50.0, -base + pick() if base < 0 else pick()])
    nctor = 2 if kind == "timer" else 1
    incs = [0.0] * nctor
    c = base
    start, stop = c, c + dur
    ops = []
    for _ in range(rng.choice([1, 2, 3, 5, 8])):
        r = rng.random()
        if r < 0.12:
            ops.append(("duration",))
            continue
        if r < 0.3:
            d = rng.choice([None, None, pick(), -pick(), -0.0])
            ops.append(("restart", d))
            dd = d if d is not None else stop - start
            start, stop = stop, stop + dd
            continue
        below = math.nextafter(stop, -math.inf)
        t = rng.choice([stop, below, math.nextafter(stop, math.inf), math.nextafter(below, -math.inf), start + (stop - start), c + pick() * 0.1, c])
        if t < c and kind == "async":
            t = c                      # the event-loop clock does not go backwards
        if c + (t - c) != t:
            t = c + (t - c)
        incs.append(t - c)
        c = t
        if r < 0.4:
            d = rng.choice([None, pick()])
            ops.append(("start", d))
            dd = d if d is not None else stop - start
            start, stop = c, c + dd
        else:
            ops.append((rng.choice(["expired", "expired", "remaining", "elapsed"]),))
    if rng.random() < 0.6:
        # aim (see gen_fpace): clock below zero, stop above it; readings climb to just before the stop, then its float neighbours
        base = -rng.choice(FVALS) * rng.choice([1, 0.1, 0.5])
        dur = -base + rng.choice(FVALS) * rng.choice([1, 0.1, 0.5, 3])
        stop = base + dur
        below = math.nextafter(stop, -math.inf)
        seq = [stop - dur * rng.choice([0.01, 0.001, 0.1]), math.nextafter(below, -math.inf), below, stop, math.nextafter(stop, math.inf)]
        incs, c, ops = [0.0] * nctor, base, []
        for t in seq:
            if t < c or c + (t - c) != t:
                continue
            incs.append(t - c)
            c = t
            ops.append((rng.choice(["expired", "expired", "expired", "expired", "remaining", "elapsed"]),))
    return ("fptimer", kind, base, tuple(incs), dur, tuple(ops))


# --------------------------------------------------------------------------
# Doist.ado in real mode (AsyncTimer pacing) -- oracle only.  C07's text names the blocking do() loop; this stream
# covers the other public entry point of the same pacing with the same two clauses, on an event-loop clock that
# (by contract) never goes backwards.
#   ("apace", base, incs>=0, ovs, tock0, tock1|None, n, xs)

def run_apace(case):
    import asyncio
    _, base, incs, ovs, tock0, tock1, n, xs = case
    clock = FakeClock(base, incs, ovs)
    LDoist = _mkdoist(clock)
    fake = _fake_loop(clock)

    async def fsleep(d, result=None):
        clock.sleep(d)
        return result

    end, tock_run, i_run = "done", None, None
    old_gel, old_sleep = asyncio.get_event_loop, asyncio.sleep
    with patched(clock):
        try:
            if (n + len(incs)) % 2:
                d = LDoist(real=True, tock=un(tock0))
            else:                      # configured after construction
                d = LDoist(tock=un(tock0))
                d.real = True
            d._cyc = 0
            if tock1 is not None:
                d.tock = un(tock1)
            tock_run = sc(d.tock)
            i_run = len(clock.log)
            asyncio.get_event_loop, asyncio.sleep = (lambda: fake), fsleep
            try:
                asyncio.run(d.ado(doers=[_mkdoer(clock, n, xs, holder=[d])]))
            finally:
                asyncio.get_event_loop, asyncio.sleep = old_gel, old_sleep
        except Exhausted:
            end = "exhausted"
        except core.Infra:
            raise
        except Exception as ex:
            end = "raised-" + type(ex).__name__
    if i_run is None:
        return ((), end, None)
    return (tuple(clock.log[i_run:]), end, tock_run)


def oracle_apace(case, obs):
    run, end, tock = obs
    # the AsyncTimer is built (one reading) and then started (another) before the first cycle: the run's clock starts at
    # the last reading before recur 0
    k0 = next((i for i, e in enumerate(run) if e[0] == "c"), None)
    if k0 is None:
        return ["run-raised"] if end.startswith("raised") else []
    lead = [i for i in range(k0) if run[i][0] == "t"]
    if not lead:
        return ["ado-no-clock-reading-before-first-cycle"]
    fake = ("pace", case[1], case[2], case[3], case[4], (), case[6], case[7])
    return oracle_pace(fake, ((), tuple(run[lead[-1]:]), end, tock))


def gen_apace(rng):
    grid = rng.choice([1, 8, 32])
    base = rng.choice([0, 1000 * S, rng.randint(0, 50) * grid])
    tock0 = rng.choice([None, 32, rng.randint(0, 12) * grid, rng.randint(1, 64) * grid, 0])
    tock1 = rng.choice([None, None, rng.randint(0, 12) * grid, rng.randint(1, 64) * grid])
    n = rng.choice([1, 2, 3, 4, 6, 8])
    xs = tuple(rng.choice([0, 0, 1, 2]) for _ in range(n))
    m = 4 + sum(xs) + n * rng.choice([3, 4, 6]) + rng.randint(0, 6)
    incs = [abs(d) for d in gen_incs(rng, m, grid, rng.choice(["steady", "stall", "stall"]))]
    if rng.random() < 0.2:
        incs = incs[:rng.randint(0, len(incs))]
    ovs = tuple(rng.choice([0, 0, rng.randint(1, 5 * max(1, tock0 or 32)), rng.randint(1, 3) * grid]) for _ in range(rng.randint(0, 2 * n + 1)))
    return ("apace", base, tuple(incs), ovs, tock0, tock1, n, xs)
