"""translator for the Box area: statement-level facts of hio.base.hier.boxing that the hand-written model
relies on, read from the source AST *now* and emitted as Lean data (lean/Box/HioModel/Gen/BoxTables.lean).
Theorems in Props/C25.lean (`gen_*`) re-check them against what the model assumes.

Everything is normalised so that renaming a local variable does not change the tables: variables are replaced
by the position they were unpacked from, slices / reversals by a small vocabulary; an unrecognised shape is
emitted as "unknown" (the `gen_*` theorem then fails and the run proceeds as for a broken proof)."""
import ast
import os
from .. import core


def _find(cls, name):
    if cls is None:
        return None
    for n in cls.body:
        if isinstance(n, ast.FunctionDef) and n.name == name:
            return n
    return None


def _loops(fn):
    """attribute names iterated by the top-level for loops of a Box nabe method, in order"""
    out = []
    for n in (fn.body if fn else []):
        if isinstance(n, ast.For) and isinstance(n.iter, ast.Attribute):
            out.append(n.iter.attr)
    return out


def _self_call(node):
    """(method, args) when node is `self.<method>(args…)`"""
    if isinstance(node, ast.Call) and isinstance(node.func, ast.Attribute) and isinstance(node.func.value, ast.Name) \
            and node.func.value.id == "self":
        return node.func.attr, node.args
    return None


def _strip_list(e):
    while isinstance(e, ast.Call) and isinstance(e.func, ast.Name) and e.func.id == "list" and len(e.args) == 1:
        e = e.args[0]
    return e


def _slice_word(e, idxvar, names):
    """classify  [list(reversed(]X[i:] / X[:i]  with X one of the two pile variables"""
    e = _strip_list(e)
    rev = False
    if isinstance(e, ast.Call) and isinstance(e.func, ast.Name) and e.func.id == "reversed" and len(e.args) == 1:
        rev = True
        e = _strip_list(e.args[0])
    if isinstance(e, ast.Subscript) and isinstance(e.value, ast.Name) and isinstance(e.slice, ast.Slice) and e.slice.step is None:
        lo, hi = e.slice.lower, e.slice.upper
        who = names.get(e.value.id)
        if who and isinstance(lo, ast.Name) and lo.id == idxvar and hi is None:
            return ("rev-" if rev else "") + who + "-from-i"
        if who and lo is None and isinstance(hi, ast.Name) and hi.id == idxvar:
            return ("rev-" if rev else "") + who + "-to-i"
    return "unknown"


def _pile_word(e):
    """classify an expression denoting the active pile, possibly reversed"""
    e = _strip_list(e)
    rev = False
    if isinstance(e, ast.Call) and isinstance(e.func, ast.Name) and e.func.id == "reversed" and len(e.args) == 1:
        rev = True
        e = _strip_list(e.args[0])
    if isinstance(e, ast.Subscript) and isinstance(e.slice, ast.Slice) and e.slice.lower is None and e.slice.upper is None \
            and isinstance(e.slice.step, ast.UnaryOp) and isinstance(e.slice.step.op, ast.USub) \
            and isinstance(e.slice.step.operand, ast.Constant) and e.slice.step.operand.value == 1:
        rev = not rev
        e = e.value
    if ast.unparse(e) == "self.box.pile":
        return "rev-active-pile" if rev else "active-pile"
    return "unknown"


def _lst(xs):
    return "[" + ", ".join('"' + str(x).replace('"', "'") + '"' for x in xs) + "]"


def extract():
    path = os.path.join(core.REPO, "src", "hio", "base", "hier", "boxing.py")
    tree = ast.parse(open(path).read())
    classes = {n.name: n for n in tree.body if isinstance(n, ast.ClassDef)}
    boxer, box = classes.get("Boxer"), classes.get("Box")
    run = _find(boxer, "run")

    # --- the transition block of run(): where each list handed to exdo/rexdo/rendo/endo comes from
    pos = {}            # variable name -> position in the tuple unpacked from self.exen(...)
    exen_near = "unknown"
    block_calls, after_calls = [], []
    if run is not None:
        for n in ast.walk(run):
            if isinstance(n, ast.Assign) and _self_call(n.value) and _self_call(n.value)[0] == "exen" \
                    and isinstance(n.targets[0], ast.Tuple):
                pos = {e.id: k for k, e in enumerate(n.targets[0].elts) if isinstance(e, ast.Name)}
                args = _self_call(n.value)[1]
                if args:
                    exen_near = "active-box" if ast.unparse(args[0]) == "self.box" else \
                                ("scanned-box" if isinstance(args[0], ast.Name) else "unknown")

        def word(m, args):
            if not args:
                return m
            a = args[0]
            if isinstance(a, ast.Name) and a.id in pos:
                return f"{m}<-{pos[a.id]}"
            return f"{m}<-unknown"
        for w in ast.walk(run):
            if isinstance(w, ast.While):
                for st in w.body:
                    if isinstance(st, ast.Expr) and _self_call(st.value):
                        after_calls.append(word(*_self_call(st.value)))
                for n in ast.walk(w):
                    if isinstance(n, ast.If) and isinstance(n.test, ast.NamedExpr):
                        for st in n.body:
                            if isinstance(st, ast.Expr) and _self_call(st.value):
                                block_calls.append(word(*_self_call(st.value)))
                            elif isinstance(st, ast.If) and any(isinstance(x, ast.Expr) and _self_call(x.value)
                                                                 for x in ast.walk(st) if isinstance(x, ast.Expr)):
                                block_calls.append("conditional-call")
    # --- exen's return tuple
    ex = _find(boxer, "exen")
    ret = []
    if ex is not None:
        names = {}
        idxvar = None
        for n in ast.walk(ex):
            if isinstance(n, ast.Assign) and isinstance(n.targets[0], ast.Name) and isinstance(n.value, ast.Attribute) \
                    and n.value.attr == "pile" and isinstance(n.value.value, ast.Name):
                arg_names = [a.arg for a in ex.args.args]
                if n.value.value.id in arg_names:
                    names[n.targets[0].id] = ("nears", "fars")[min(arg_names.index(n.value.value.id), 1)]
            if isinstance(n, ast.For) and isinstance(n.target, ast.Name):
                idxvar = n.target.id
        for n in ast.walk(ex):
            if isinstance(n, ast.Return) and isinstance(n.value, ast.Tuple):
                ret = [_slice_word(e, idxvar, names) for e in n.value.elts]
    # --- end()
    end = _find(boxer, "end")
    end_calls = []
    for st in (end.body if end else []):
        if isinstance(st, ast.Expr) and _self_call(st.value):
            m, args = _self_call(st.value)
            end_calls.append(f"{m}<-{_pile_word(args[0]) if args else 'none'}")
    txt = ("/-! GENERATED by harness/extract/box.py from hio/base/hier/boxing.py. Do not edit.\n"
           "`m<-k`: method `self.m` is called with the k-th component of the tuple unpacked from `self.exen(…)`. -/\n"
           "namespace Hio.Gen\n"
           f"def runExenNear : String := \"{exen_near}\"\n"
           f"def runTransitCalls : List String := {_lst(block_calls)}\n"
           f"def runAfterScanCalls : List String := {_lst(after_calls)}\n"
           f"def exenReturn : List String := {_lst(ret)}\n"
           f"def endCalls : List String := {_lst(end_calls)}\n"
           f"def boxRendoLoops : List String := {_lst(_loops(_find(box, 'rendo')))}\n"
           f"def boxEndoLoops : List String := {_lst(_loops(_find(box, 'endo')))}\n"
           "end Hio.Gen\n")
    rel = "HioModel/Gen/BoxTables.lean"
    core.write_gen(rel, txt)
    return [rel]
