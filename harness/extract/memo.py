"""translator for the Memo area: reads $HIO_REPO/src NOW and rewrites lean/Memo/HioModel/Gen/*.lean

* B64Table.lean    the two Base64 alphabet tables of hio.help.helping (same as the B64 package; packages are independent)
* MemoTables.lean  Memoer.Sizes, the codexes, Pairs, the Max* constants;
                   the errnos on which Memoer._serviceOnceTxGrams drops the gram (finite-domain probe over errno.errorcode,
                   cross-checked against the tuple in the AST) and those on which udp/uxd Peer.send returns 0;
                   which exception classes the two `except` clauses on the receive path catch (AST handler types +
                   issubclass closure over the classes the model distinguishes)
Emits Lean data only, never proofs."""
import ast
import errno
import inspect
import textwrap

from .. import core

# exception classes the model distinguishes, in the order of `Hio.Memo.Exn.code`
EXN = ["MemoerError", "MemoerVerifyError", "KeyError", "ValueError", "UnicodeDecodeError", "Error",
       "UnboundLocalError", "OverflowError", "ZeroDivisionError", "IndexError", "OSError", "TypeError", "AttributeError"]


def _cls(name):
    import binascii
    import builtins
    from hio import hioing
    if name == "Error":
        return binascii.Error
    return getattr(hioing, name, None) or getattr(builtins, name)


def _text(s):
    return "[" + ", ".join(str(ord(c)) for c in s) + "]"


def _handlers(func, callee):
    """names of the exception classes in the `except` clauses of the try statement of func whose body calls self.<callee>"""
    tree = ast.parse(textwrap.dedent(inspect.getsource(func)))
    out = None
    for node in ast.walk(tree):
        if isinstance(node, ast.Try):
            calls = [n for b in node.body for n in ast.walk(b) if isinstance(n, ast.Call) and isinstance(n.func, ast.Attribute) and n.func.attr == callee]
            if calls:
                out = []
                for h in node.handlers:
                    if any(isinstance(n, ast.Raise) and n.exc is None for n in ast.walk(h)):
                        continue   # a handler that re-raises does not stop the exception
                    t = h.type
                    elts = t.elts if isinstance(t, ast.Tuple) else [t]
                    for e in elts:
                        out.append(e.attr if isinstance(e, ast.Attribute) else e.id)
    return out


def _caught(names):
    import builtins
    from hio import hioing
    if names is None:
        return []
    classes = tuple(getattr(hioing, n, None) or getattr(builtins, n) for n in names)
    return [i for i, n in enumerate(EXN) if classes and issubclass(_cls(n), classes)]


def _tx_drop_errnos():
    """finite-domain probe: for EVERY errno the platform names, what does _serviceOnceTxGrams do when send raises it?"""
    from hio.core.memo import memoing

    class P(memoing.Memoer):
        def send(self, gram, dst, *, echoic=False):
            raise OSError(self._e, "probe")
    drop = []
    for e in sorted(errno.errorcode):
        p = P()
        p.reopen()
        p._e = e
        p.gramit(b"abc", "x")
        try:
            p._serviceOnceTxGrams()
            if not p.txgs and p.txbs[1] is None:
                drop.append(e)
        except OSError:
            pass
    # cross-check with the tuple in the source
    tree = ast.parse(textwrap.dedent(inspect.getsource(memoing.Memoer._serviceOnceTxGrams)))
    names = sorted({n.attr for n in ast.walk(tree) if isinstance(n, ast.Attribute) and isinstance(n.value, ast.Name) and n.value.id == "errno"})
    ast_vals = sorted({getattr(errno, n) for n in names})
    if ast_vals != drop:
        raise core.Infra(f"unreachable-errno tuple: AST {ast_vals} != probed {drop}")
    return drop, names


def _send_zero_errnos(modname):
    """errnos on which Peer.send returns 0 (would-block) instead of raising"""
    import importlib
    mod = importlib.import_module(modname)

    class S:
        def __init__(self, e):
            self.e = e

        def sendto(self, data, dst):
            raise OSError(self.e, "probe")
    zero = []
    for e in sorted(errno.errorcode):
        p = mod.Peer.__new__(mod.Peer)
        p.ls = S(e)
        p.wl = None
        for k, v in (("ha", ("127.0.0.1", 0)), ("path", "x"), ("_path", "x")):
            try:
                setattr(p, k, v)
            except AttributeError:
                pass
        try:
            if p.send(b"abc", "x") == 0:
                zero.append(e)
        except OSError:
            pass
    return zero


def extract():
    from hio.help import helping
    from hio.core.memo import memoing
    out = []
    c2 = sorted((int(i), ord(c)) for i, c in helping.B64ChrByIdx.items() if isinstance(i, int) and isinstance(c, str) and len(c) == 1)
    i2 = sorted((ord(c), int(i)) for c, i in helping.B64IdxByChr.items() if isinstance(i, int) and isinstance(c, str) and len(c) == 1)
    if len(c2) != len(helping.B64ChrByIdx) or len(i2) != len(helping.B64IdxByChr):
        raise core.Infra("B64 tables hold entries the translator cannot express")
    txt = ("/-! GENERATED by harness/extract/memo.py from hio.help.helping (B64ChrByIdx, B64IdxByChr). Do not edit. -/\n"
           "namespace Hio.Gen\n"
           "def b64ChrByIdx : List (Nat × Nat) := [" + ", ".join(f"({a}, {b})" for a, b in c2) + "]\n"
           "def b64IdxByChr : List (Nat × Nat) := [" + ", ".join(f"({a}, {b})" for a, b in i2) + "]\n"
           "end Hio.Gen\n")
    core.write_gen("HioModel/Gen/B64Table.lean", txt)
    out.append("HioModel/Gen/B64Table.lean")

    M = memoing.Memoer
    sizes = []
    for code, sz in M.Sizes.items():
        if not (isinstance(code, str) and len(tuple(sz)) == 5 and all(isinstance(x, int) and x >= 0 for x in sz)):
            raise core.Infra("Memoer.Sizes holds an entry the translator cannot express")
        sizes.append(f"({_text(code)}, ({', '.join(str(x) for x in sz)}))")
    dex = lambda d: "[" + ", ".join(_text(c) for c in d) + "]"
    pairs = "[" + ", ".join(f"({_text(a)}, {_text(b)})" for a, b in M.Pairs.items()) + "]"
    drop, dropnames = _tx_drop_errnos()
    udp0 = _send_zero_errnos("hio.core.udp.udping")
    uxd0 = _send_zero_errnos("hio.core.uxd.uxding")
    rx = _handlers(M._serviceOneReceived, "pick")
    fu = _handlers(M._serviceOnceRxGrams, "fuse")
    txt = ("/-! GENERATED by harness/extract/memo.py from hio.core.memo.memoing, hio.core.udp.udping, hio.core.uxd.uxding. Do not edit. -/\n"
           "namespace Hio.Gen\n"
           "/-- Memoer.Sizes: code ↦ (bz, nz, mz, vz, az) -/\n"
           "def memoSizes : List (List Nat × (Nat × Nat × Nat × Nat × Nat)) := [" + ", ".join(sizes) + "]\n"
           f"def zeroDex : List (List Nat) := {dex(memoing.ZeroDex)}\n"
           f"def gramDex : List (List Nat) := {dex(memoing.GramDex)}\n"
           f"def authDex : List (List Nat) := {dex(M.Audex)}\n"
           f"def ackDex : List (List Nat) := {dex(memoing.AckDex)}\n"
           f"def zedex : List (List Nat) := {dex(M.Zedex)}\n"
           f"def memoPairs : List (List Nat × List Nat) := {pairs}\n"
           f"def maxMemoSize : Nat := {int(M.MaxMemoSize)}\n"
           f"def maxGramCount : Nat := {int(M.MaxGramCount)}\n"
           f"def maxGramSize : Nat := {int(M.MaxGramSize)}\n"
           f"/-- errnos on which `_serviceOnceTxGrams` drops the gram ({', '.join(dropnames)}); probed over all {len(errno.errorcode)} platform errnos -/\n"
           f"def txDropErrnos : List Nat := {drop}\n"
           f"/-- errnos on which udp / uxd `Peer.send` returns 0 (nothing consumed, try again) -/\n"
           f"def udpSendZero : List Nat := {udp0}\n"
           f"def uxdSendZero : List Nat := {uxd0}\n"
           f"def allErrnos : List Nat := {sorted(errno.errorcode)}\n"
           f"def eAGAIN : Nat := {errno.EAGAIN}\n"
           f"def eWOULDBLOCK : Nat := {errno.EWOULDBLOCK}\n"
           f"def eNOBUFS : Nat := {errno.ENOBUFS}\n"
           f"/-- exception class codes (order: {', '.join(EXN)}) stopped by the `except` clause around `self.pick` in `_serviceOneReceived`: {rx} -/\n"
           f"def rxCaught : List Nat := {_caught(rx)}\n"
           f"/-- … and by the `except` clause around `self.fuse` in `_serviceOnceRxGrams`: {fu} -/\n"
           f"def fuseCaught : List Nat := {_caught(fu)}\n"
           "end Hio.Gen\n")
    core.write_gen("HioModel/Gen/MemoTables.lean", txt)
    out.append("HioModel/Gen/MemoTables.lean")
    return out
