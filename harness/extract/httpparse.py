"""translator for the HttpParse area: constants and tables of hio.core.http read from $HIO_REPO/src *now*
-> lean/HttpParse/HioModel/Gen/HttpTables.lean (data only)

* constants: MAX_LINE_SIZE, MAX_HEADERS, METHODS, CONTINUE and the status codes the parsers branch on
* eols tuple of every parseLine / parseLeader call site on the parse path (AST)
* finite-domain probes of the CPython text primitives the parsers lean on, over all 256 latin-1 code points:
  str.lower(), str.isspace() (str.split()/str.strip()), bytes.strip() white space, int() digit limit
* exception classes: issubclass closure of every exception class of hio.core.http.httping plus the builtins that the
  implicit raisers produce
* raise-site table (AST): for every function on the parse path the explicit `raise C(...)` statements and the implicit
  raisers (int(x[,16]), tuple-unpacking of a .split(), .decode() without errors=, urlsplit / .port, subscript of a
  dict literal-keyed lookup, next() on a generator), each with the exception class it produces and the classes named by
  the enclosing `except` clauses in the same function; and for every service loop the handler classes around parse().
"""
import ast
import builtins
import os
import sys

from .. import core

PARSE_PATH = [
    ("httping", None, "findEol"), ("httping", None, "pendingEol"),
    ("httping", None, "parseLine"), ("httping", None, "parseLeader"), ("httping", None, "parseChunk"),
    ("httping", None, "parseStatusLine"), ("httping", None, "parseRequestLine"),
    ("httping", "EventSource", "parseEvents"), ("httping", "EventSource", "parse"),
    ("httping", "Parsent", "parseMessage"), ("httping", "Parsent", "parse"),
    ("serving", "Requestant", "parseHead"), ("serving", "Requestant", "parseBody"), ("serving", "Requestant", "checkPersisted"),
    ("clienting", "Respondent", "parseHead"), ("clienting", "Respondent", "parseBody"), ("clienting", "Respondent", "checkPersisted"),
]
# service loops: (module, class, function, callee whose exceptions must be handled there)
LOOPS = [("serving", "Server", "serviceReqs", "parse"), ("serving", "BareServer", "serviceStewards", "parse"),
         ("clienting", "Client", "serviceResponse", "parse"), ("clienting", "Client", "serviceResponse", "redirect")]

BUILTIN_EXC = ["Exception", "ValueError", "TypeError", "KeyError", "IndexError", "AttributeError", "RuntimeError",
               "UnicodeDecodeError", "UnicodeEncodeError", "StopIteration", "AssertionError", "OSError", "LookupError", "UnicodeError"]


def size_constants():
    """[(name, value)] of the upper-case int constants >= 1024 of hio.core.http.httping, read from the module now"""
    from hio.core.http import httping
    return sorted((k, int(v)) for k, v in vars(httping).items()
                  if k.lstrip("_").isupper() and isinstance(v, int) and not isinstance(v, bool) and v >= 1024)


def interpreted_headers():
    """lower-cased names of every header the parse path / redirect / WSGI environ code looks at by name: constant-string
    arguments of `<x>headers.get(...)`, `<x>headers[...]`, `'..' in <x>headers`, read from the source now"""
    names = set()
    for mod in ("httping", "serving", "clienting"):
        tree = ast.parse(open(_src(mod)).read())
        for n in ast.walk(tree):
            tgt = None
            key = None
            if isinstance(n, ast.Call) and isinstance(n.func, ast.Attribute) and n.func.attr in ("get", "nab", "getall", "pop") and n.args:
                tgt, key = n.func.value, n.args[0]
            elif isinstance(n, ast.Subscript):
                tgt, key = n.value, n.slice
            elif isinstance(n, ast.Compare) and len(n.ops) == 1 and isinstance(n.ops[0], (ast.In, ast.NotIn)):
                tgt, key = n.comparators[0], n.left
            if tgt is None or not isinstance(key, ast.Constant) or not isinstance(key.value, str):
                continue
            tn = _name(tgt) or ""
            if isinstance(tgt, ast.Subscript) and isinstance(tgt.slice, ast.Constant) and isinstance(tgt.slice.value, str):
                tn = tgt.slice.value           # redirect['headers'].get('location')
            if "header" in tn.lower():
                names.add(key.value.lower())
    return sorted(names)


def _src(mod):
    return os.path.join(core.REPO, "src", "hio", "core", "http", mod + ".py")


def _find(tree, cls, fn):
    body = tree.body
    if cls:
        for n in body:
            if isinstance(n, ast.ClassDef) and n.name == cls:
                body = n.body
                break
        else:
            return None
    for n in body:
        if isinstance(n, ast.FunctionDef) and n.name == fn:
            return n
    return None


def _name(n):
    if isinstance(n, ast.Name):
        return n.id
    if isinstance(n, ast.Attribute):
        return n.attr
    if isinstance(n, ast.Call):
        return _name(n.func)
    return None


def _handler_names(h):
    if h.type is None:
        return ["BaseException"]
    if isinstance(h.type, ast.Tuple):
        return [_name(e) for e in h.type.elts]
    return [_name(h.type)]


def _sites(fn):
    """[(lineno, kind, class, [handler classes in the same function that enclose it])]"""
    out = []

    def implicit(node):
        # int(x) / int(x, 16)
        if isinstance(node, ast.Call) and isinstance(node.func, ast.Name) and node.func.id == "int" and node.args \
                and not isinstance(node.args[0], ast.Constant):
            return [("int", "ValueError")]
        # .decode(...) without errors=
        if isinstance(node, ast.Call) and isinstance(node.func, ast.Attribute) and node.func.attr == "decode":
            kw = {k.arg for k in node.keywords}
            enc = node.args[0].value if node.args and isinstance(node.args[0], ast.Constant) else None
            if "errors" not in kw and len(node.args) < 2 and str(enc).lower().replace("-", "") not in ("iso88591", "latin1"):
                return [("decode", "UnicodeDecodeError")]
        # str.format / % applied to a format string that is not a plain literal (f-string, variable, concatenation with
        # input): braces or % coming from the peer are interpreted -> KeyError / IndexError / ValueError
        if isinstance(node, ast.Call) and isinstance(node.func, ast.Attribute) and node.func.attr == "format" \
                and not (isinstance(node.func.value, ast.Constant) and isinstance(node.func.value.value, str)):
            return [("format-dynamic", "LookupError"), ("format-dynamic", "ValueError")]
        if isinstance(node, ast.BinOp) and isinstance(node.op, ast.Mod) and isinstance(node.left, ast.JoinedStr):
            return [("format-dynamic", "TypeError"), ("format-dynamic", "ValueError")]
        if isinstance(node, ast.Call) and _name(node.func) == "urlsplit":
            return [("urlsplit", "ValueError")]
        # name resolution IDNA-encodes a str host: UnicodeError for an empty / over long label
        if isinstance(node, ast.Call) and _name(node.func) in ("normalizeHost", "getaddrinfo"):
            return [("resolve-idna", "UnicodeError"), ("resolve", "OSError")]     # socket.gaierror is an OSError
        # str.encode with a strict codec
        if isinstance(node, ast.Call) and isinstance(node.func, ast.Attribute) and node.func.attr == "encode":
            kw = {k.arg: k.value for k in node.keywords}
            enc = node.args[0] if node.args else kw.get("encoding")
            encv = enc.value if isinstance(enc, ast.Constant) else None
            if "errors" not in kw and len(node.args) < 2 and isinstance(encv, str):
                if encv.lower() == "idna":
                    return [("encode-idna", "UnicodeError")]
                if encv.lower().replace("-", "").replace("_", "") not in ("utf8",):
                    return [("encode", "UnicodeEncodeError")]
        if isinstance(node, ast.Attribute) and node.attr == "port" and isinstance(node.ctx, ast.Load) \
                and isinstance(node.value, ast.Name) and "plit" in node.value.id:
            return [("port", "ValueError")]
        return []

    def walk(node, handlers):
        if isinstance(node, ast.Try):
            hs = [c for h in node.handlers for c in _handler_names(h)]
            for b in node.body:
                walk(b, handlers + [hs])
            for h in node.handlers:
                for b in h.body:
                    walk(b, handlers)
            for b in node.orelse + node.finalbody:
                walk(b, handlers)
            return
        if isinstance(node, ast.Raise):
            cls = _name(node.exc) if node.exc is not None else "reraise"
            out.append((node.lineno, "raise", cls, [c for hs in handlers for c in hs]))
        if isinstance(node, ast.Assign) and isinstance(node.targets[0], ast.Tuple) and isinstance(node.value, ast.Call) \
                and isinstance(node.value.func, ast.Attribute) and node.value.func.attr in ("split", "rsplit"):
            out.append((node.lineno, "unpack-split", "ValueError", [c for hs in handlers for c in hs]))
        if isinstance(node, ast.Subscript) and isinstance(node.ctx, (ast.Store,)) and isinstance(node.value, ast.Name) \
                and node.value.id in ("parms",):
            # dict key must be hashable: bytearray keys raise TypeError
            v = node.slice
            ok = isinstance(v, ast.Call) and _name(v.func) in ("bytes", "str")
            if not ok:
                out.append((node.lineno, "unhashable-key", "TypeError", [c for hs in handlers for c in hs]))
        for kind, cls in implicit(node):
            out.append((getattr(node, "lineno", 0), kind, cls, [c for hs in handlers for c in hs]))
        for ch in ast.iter_child_nodes(node):
            if isinstance(ch, (ast.FunctionDef, ast.ClassDef, ast.Lambda)):
                continue
            walk(ch, handlers)

    for st in fn.body:
        walk(st, [])
    guarded = _guarded_ints(fn)
    out = [(ln, ("int-guarded" if kind == "int" and ln in guarded else kind), c, hs) for ln, kind, c, hs in out]
    return out


def _helper_calls(fn, helpers):
    """[(helper name, handler classes enclosing the call)] for calls of module level httping functions inside fn"""
    out = []

    def walk(node, handlers):
        if isinstance(node, ast.Try):
            hs = [c for h in node.handlers for c in _handler_names(h)]
            for b in node.body:
                walk(b, handlers + hs)
            for h in node.handlers:
                for b in h.body:
                    walk(b, handlers)
            for b in node.orelse + node.finalbody:
                walk(b, handlers)
            return
        if isinstance(node, ast.Call):
            nm = _name(node.func)
            if nm in helpers and (isinstance(node.func, ast.Name) or (isinstance(node.func, ast.Attribute) and _name(node.func.value) == "httping")):
                out.append((nm, list(handlers)))
        for ch in ast.iter_child_nodes(node):
            if isinstance(ch, (ast.FunctionDef, ast.ClassDef, ast.Lambda)):
                continue
            walk(ch, handlers)

    for st in fn.body:
        walk(st, [])
    seen = set()
    res = []
    for nm, hs in out:
        if (nm, tuple(hs)) not in seen:
            seen.add((nm, tuple(hs)))
            res.append((nm, hs))
    return res


def _guarded_ints(fn):
    """line numbers of `x = int(x, base)` statements whose preceding sibling statement is `if <test on x>: raise ...`
    (the validation that makes the conversion total)"""
    out = set()
    for node in ast.walk(fn):
        for f in ("body", "orelse", "finalbody"):
            blk = getattr(node, f, None)
            if not isinstance(blk, list):
                continue
            for prev, st in zip(blk, blk[1:]):
                if not (isinstance(prev, ast.If) and prev.body and isinstance(prev.body[-1], ast.Raise)):
                    continue
                names = {n.id for n in ast.walk(prev.test) if isinstance(n, ast.Name)}
                for c in ast.walk(st):
                    if isinstance(c, ast.Call) and isinstance(c.func, ast.Name) and c.func.id == "int" and c.args \
                            and isinstance(c.args[0], ast.Name) and c.args[0].id in names:
                        out.add(c.lineno)
    return out


def _closed_gen_next(fn):
    """`next(g)` reachable after `g.close()` on the same name inside one loop without re-creation: StopIteration inside a
    generator surfaces as RuntimeError (PEP 479).  Reports names g for which close() appears in a `while` body in which
    next(g) also appears and g is not assigned in that same body."""
    out = []
    for loop in ast.walk(fn):
        if not isinstance(loop, ast.While):
            continue
        # only statements that are directly in this loop (not in nested loops)
        def direct(nodes):
            for n in nodes:
                if isinstance(n, (ast.While, ast.For)):
                    continue
                yield n
                for f in ("body", "orelse", "handlers", "finalbody"):
                    yield from direct(getattr(n, f, []) or [])
        stmts = list(direct(loop.body))
        closed, nexted, assigned, brk_after_close = set(), set(), set(), set()
        for n in stmts:
            for c in ast.walk(n) if not isinstance(n, (ast.If, ast.Try)) else [n]:
                pass
        for n in stmts:
            if isinstance(n, ast.Expr) and isinstance(n.value, ast.Call) and isinstance(n.value.func, ast.Attribute) \
                    and n.value.func.attr == "close" and isinstance(n.value.func.value, ast.Name):
                closed.add(n.value.func.value.id)
            if isinstance(n, ast.Assign):
                for t in n.targets:
                    if isinstance(t, ast.Name):
                        assigned.add(t.id)
                if isinstance(n.value, ast.Call) and _name(n.value.func) == "next" and n.value.args and isinstance(n.value.args[0], ast.Name):
                    nexted.add(n.value.args[0].id)
        for g in closed & nexted:
            if g in assigned:
                continue
            # closing immediately followed by an unconditional break in the same block is fine
            safe = False
            for blk in [loop.body] + [getattr(n, "body", []) for n in stmts] + [getattr(n, "orelse", []) for n in stmts]:
                for i, n in enumerate(blk or []):
                    if isinstance(n, ast.Expr) and isinstance(n.value, ast.Call) and isinstance(n.value.func, ast.Attribute) \
                            and n.value.func.attr == "close" and _name(n.value.func.value) == g:
                        rest = blk[i + 1:]
                        if rest and isinstance(rest[0], (ast.Break, ast.Return)):
                            safe = True
            if not safe:
                out.append((loop.lineno, "next-after-close", "RuntimeError", []))
    return out


def _lean_str(s):
    return '"' + s.replace("\\", "\\\\").replace('"', '\\"') + '"'


def extract():
    from hio.core.http import httping
    trees = {m: ast.parse(open(_src(m)).read()) for m in ("httping", "serving", "clienting")}

    # --- eols of each call site
    eolsites = []
    names = {"CRLF": "crlf", "LF": "lf", "CR": "cr"}
    for mod, cls, fn in PARSE_PATH:
        f = _find(trees[mod], cls, fn)
        if f is None:
            continue
        for n in ast.walk(f):
            if isinstance(n, ast.Call) and _name(n.func) in ("parseLine", "parseLeader"):
                eols = None
                kind = ""
                for k in n.keywords:
                    if k.arg == "eols" and isinstance(k.value, ast.Tuple):
                        eols = [names.get(_name(e), "?") for e in k.value.elts]
                    if k.arg == "kind" and isinstance(k.value, ast.Constant):
                        kind = k.value.value
                if eols is None:      # default of the callee
                    d = _find(trees["httping"], None, _name(n.func))
                    for a, dv in zip(reversed(d.args.args), reversed(d.args.defaults)):
                        if a.arg == "eols" and isinstance(dv, ast.Tuple):
                            eols = [names.get(_name(e), "?") for e in dv.elts]
                eolsites.append((f"{cls or mod}.{fn}", kind, eols or ["?"]))
    eolsites.sort()

    # --- text primitive probes
    lower = []
    for i in range(256):
        lo = chr(i).lower()
        lower.append(ord(lo) if len(lo) == 1 and ord(lo) < 256 else i)
    strws = [i for i in range(256) if chr(i).isspace()]
    bytesws = [i for i in range(256) if bytes([i]).strip() == b""]
    hexd = [i for i in range(256) if bytes([i]).strip(b"0123456789abcdefABCDEF") == b""]
    def _intok(t):
        try:
            int(t)
            return True
        except ValueError:
            return False
    intws = [i for i in range(256) if chr(i) not in "0123456789+-_" and _intok(chr(i) + "2") and _intok("2" + chr(i))]
    maxdig = sys.get_int_max_str_digits() if hasattr(sys, "get_int_max_str_digits") else 0

    # --- exception classes
    classes = {}
    for nm in dir(httping):
        o = getattr(httping, nm)
        if isinstance(o, type) and issubclass(o, BaseException) and o.__module__ == httping.__name__:
            classes[nm] = o
    for nm in BUILTIN_EXC:
        classes[nm] = getattr(builtins, nm)
    cn = sorted(classes)
    sub = [(a, b) for a in cn for b in cn if issubclass(classes[a], classes[b])]

    # --- raise sites + handlers
    sites = []
    scanned = {fn for mod, cls, fn in PARSE_PATH if mod == "httping" and cls is None}
    helpers = {n.name: n for n in trees["httping"].body if isinstance(n, ast.FunctionDef)}
    for mod, cls, fn in PARSE_PATH:
        f = _find(trees[mod], cls, fn)
        if f is None:
            continue
        for ln, kind, c, hs in _sites(f) + _closed_gen_next(f):
            if c == "reraise":
                continue
            sites.append((f"{cls or mod}.{fn}", kind, c, hs))
        # one level into module level helpers of httping that the function calls and that are not scanned on their own:
        # their sites, under the handlers that enclose the call
        for callee, hcall in _helper_calls(f, helpers):
            if callee in scanned:
                continue
            for ln, kind, c, hs in _sites(helpers[callee]):
                if c != "reraise":
                    sites.append((f"{cls or mod}.{fn}>httping.{callee}", kind, c, hs + hcall))
    # the message parser wraps parseHead/parseBody: handler classes around next(headParser)/next(bodyParser)
    pm = _find(trees["httping"], "Parsent", "parseMessage")
    wrap = sorted({c for n in ast.walk(pm) if isinstance(n, ast.Try) for h in n.handlers for c in _handler_names(h)})
    loops = []
    for mod, cls, fn, callee in LOOPS:
        f = _find(trees[mod], cls, fn)
        hs = set()
        if f is not None:
            def walk(node, handlers):
                if isinstance(node, ast.Try):
                    h2 = [c for h in node.handlers for c in _handler_names(h)]
                    for b in node.body:
                        walk(b, handlers + h2)
                    for h in node.handlers:
                        for b in h.body:
                            walk(b, handlers)
                    for b in node.orelse + node.finalbody:
                        walk(b, handlers)
                    return
                if isinstance(node, ast.Call) and isinstance(node.func, ast.Attribute) and node.func.attr == callee:
                    hs.update(handlers)
                for ch in ast.iter_child_nodes(node):
                    walk(ch, handlers)
            for st in f.body:
                walk(st, [])
        loops.append((f"{cls}.{fn}", callee, sorted(hs)))

    rsites = []
    # everything Client.redirect runs: its own body, the re-send (transmit -> Requester.rebuild/reinit/build -> packHeader,
    # updateQargsQuery) and the host/port normalisation
    for mod, cls, fn in [("clienting", "Client", "redirect"), ("httping", None, "normalizeHostPort"), ("clienting", "Client", "transmit"),
                         ("clienting", "Requester", "rebuild"), ("clienting", "Requester", "reinit"), ("clienting", "Requester", "build"),
                         ("httping", None, "packHeader"), ("httping", None, "updateQargsQuery")]:
        f = _find(trees[mod], cls, fn)
        if f is not None:
            for ln, kind, c, hs in _sites(f):
                if c != "reraise":
                    rsites.append((f"{cls or mod}.{fn}", kind, c, hs))
    # the reconnect path of Client.service: transmit() with whatever handlers Client.service has around it
    csites = []
    for mod, cls, fn in [("clienting", "Client", "transmit"), ("clienting", "Requester", "rebuild"), ("clienting", "Requester", "reinit"),
                         ("clienting", "Requester", "build"), ("httping", None, "packHeader"), ("httping", None, "updateQargsQuery")]:
        f = _find(trees[mod], cls, fn)
        if f is not None:
            for ln, kind, c, hs in _sites(f):
                if c != "reraise":
                    csites.append((f"{cls or mod}.{fn}", kind, c, hs))
    svc = _find(trees["clienting"], "Client", "service")
    chand = set()
    if svc is not None:
        def walk2(node, handlers):
            if isinstance(node, ast.Try):
                h2 = [c for h in node.handlers for c in _handler_names(h)]
                for b in node.body:
                    walk2(b, handlers + h2)
                for h in node.handlers:
                    for b in h.body:
                        walk2(b, handlers)
                for b in node.orelse + node.finalbody:
                    walk2(b, handlers)
                return
            if isinstance(node, ast.Call) and isinstance(node.func, ast.Attribute) and node.func.attr == "transmit":
                chand.update(handlers)
            for ch in ast.iter_child_nodes(node):
                walk2(ch, handlers)
        for st in svc.body:
            walk2(st, [])
    known = set(cn)

    def cls_ok(c):
        return c if c in known else "Exception"

    L = []
    L.append("/-! GENERATED by harness/extract/httpparse.py from $HIO_REPO/src/hio/core/http (constants, eols per call site,\n"
             "text-primitive probes, exception class closure, raise sites and handlers).  Do not edit. -/")
    L.append("namespace Hio.Gen.Http")
    L.append(f"def maxLineSize : Nat := {int(httping.MAX_LINE_SIZE)}")
    L.append(f"def maxHeaders : Nat := {int(httping.MAX_HEADERS)}")
    L.append(f"def statusContinue : Nat := {int(httping.CONTINUE)}")
    L.append(f"def statusNoContent : Nat := {int(httping.NO_CONTENT)}")
    L.append(f"def statusNotModified : Nat := {int(httping.NOT_MODIFIED)}")
    L.append("def redirectStatuses : List Nat := [" + ", ".join(str(int(x)) for x in (httping.MULTIPLE_CHOICES, httping.MOVED_PERMANENTLY, httping.FOUND, httping.SEE_OTHER, httping.TEMPORARY_REDIRECT)) + "]")
    L.append("def methods : List String := [" + ", ".join(_lean_str(m) for m in httping.METHODS) + "]")
    L.append(f"def intMaxStrDigits : Nat := {maxdig}")
    L.append("/-- module level integer constants of hio.core.http.httping that are sizes (>= 1024): boundaries for the generators -/")
    L.append("def sizeConstants : List (String × Nat) := [" + ", ".join(f"({_lean_str(k)}, {v})" for k, v in size_constants()) + "]")
    L.append("/-- `chr(i).lower()` for i < 256 (latin-1), as code points -/")
    L.append("def latin1Lower : List Nat := [" + ", ".join(map(str, lower)) + "]")
    L.append("/-- code points < 256 with `str.isspace()` (str.split() / str.strip()) -/")
    L.append("def strSpace : List Nat := [" + ", ".join(map(str, strws)) + "]")
    L.append("/-- code points < 256 that `int(str)` strips from both ends (not the same set as str.isspace()) -/")
    L.append("def intSpace : List Nat := [" + ", ".join(map(str, intws)) + "]")
    L.append("/-- bytes removed by `bytes.strip()` -/")
    L.append("def bytesSpace : List Nat := [" + ", ".join(map(str, bytesws)) + "]")
    L.append("/-- bytes accepted as a chunk-size digit by parseChunk (probe of its strip set) -/")
    L.append("def hexDigits : List Nat := [" + ", ".join(map(str, hexd)) + "]")
    L.append("/-- lower-cased names of the headers the code interprets by name (parse path, redirect, WSGI environ) -/")
    L.append("def interpretedHeaders : List String := [" + ", ".join(_lean_str(h) for h in interpreted_headers()) + "]")
    L.append("/-- (call site, kind, eols) of every parseLine / parseLeader call on the parse path -/")
    L.append("def eolSites : List (String × String × List String) := [\n  " + ",\n  ".join(
        f"({_lean_str(a)}, {_lean_str(k)}, [" + ", ".join(_lean_str(e) for e in es) + "])" for a, k, es in eolsites) + "]")
    L.append("def excClasses : List String := [" + ", ".join(_lean_str(c) for c in cn) + "]")
    L.append("/-- issubclass(a, b) pairs -/")
    L.append("def excSub : List (String × String) := [\n  " + ",\n  ".join(f"({_lean_str(a)}, {_lean_str(b)})" for a, b in sub) + "]")
    L.append("/-- (function, kind, exception class, handler classes enclosing it inside that function) -/")
    L.append("def raiseSites : List (String × String × String × List String) := [\n  " + ",\n  ".join(
        f"({_lean_str(fn)}, {_lean_str(k)}, {_lean_str(cls_ok(c))}, [" + ", ".join(_lean_str(cls_ok(h)) for h in hs) + "])"
        for fn, k, c, hs in sites) + "]")
    L.append("/-- raise sites of Client.redirect and normalizeHostPort (called from Client.serviceResponse) -/")
    L.append("def redirectSites : List (String × String × String × List String) := [\n  " + ",\n  ".join(
        f"({_lean_str(fn)}, {_lean_str(k)}, {_lean_str(cls_ok(c))}, [" + ", ".join(_lean_str(cls_ok(h)) for h in hs) + "])"
        for fn, k, c, hs in rsites) + "]")
    L.append("/-- raise sites on the reconnect path of Client.service (transmit and what it calls) -/")
    L.append("def reconnectSites : List (String × String × String × List String) := [\n  " + ",\n  ".join(
        f"({_lean_str(fn)}, {_lean_str(k)}, {_lean_str(cls_ok(c))}, [" + ", ".join(_lean_str(cls_ok(h)) for h in hs) + "])"
        for fn, k, c, hs in csites) + "]")
    L.append("/-- handler classes Client.service has around transmit() -/")
    L.append("def reconnectHandlers : List String := [" + ", ".join(_lean_str(cls_ok(c)) for c in sorted(chand)) + "]")
    L.append("/-- classes named by the except clauses of Parsent.parseMessage around parseHead / parseBody -/")
    L.append("def messageHandlers : List String := [" + ", ".join(_lean_str(cls_ok(c)) for c in wrap) + "]")
    L.append("/-- (service loop, callee, handler classes around the call) -/")
    L.append("def loopHandlers : List (String × String × List String) := [\n  " + ",\n  ".join(
        f"({_lean_str(a)}, {_lean_str(c)}, [" + ", ".join(_lean_str(cls_ok(h)) for h in hs) + "])" for a, c, hs in loops) + "]")
    L.append("end Hio.Gen.Http")
    rel = "HioModel/Gen/HttpTables.lean"
    core.write_gen(rel, "\n".join(L) + "\n")
    return [rel]
