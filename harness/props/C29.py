"""C29 — hio.base.filing.Filer: everything created or deleted lies inside its head directory (the temp directory when temp);
closing with clear removes what it created and nothing outside its own path."""
import os

from .. import core, sx
from ..areas import path as P
from ..extract import path as xpath


def _b(s):
    return s.encode("utf-8")


class C29(core.Check):
    pid = "C29"
    pkg = "Path"
    props_mod = "HioModel.Props.C29"
    design_ref = "DESIGN.md §5 C29, §7 F43 F44"
    technique = ("Lean 4 proofs on an executable model of Filer path construction (os.path.join/abspath/splitext as segment-list functions) and of "
                 "remake/_clearPath over a modelled filesystem; differential run of the compiled model against the real Filer on the real filesystem "
                 "(full snapshot of a disposable sandbox after every step); independent containment oracle on the snapshots")
    level_text = ("Lean theorems for every name, base, extension, all 16 flag combinations and every history (unbounded, no guard on name/base): remake_inside_head / remake_inside_tempdir "
                  "(remake creates and deletes only entries below headDirPath, resp. below its own fresh mkdtemp directory, and an accepted path lies below <head>/hio[/clean]), "
                  "escaping_name_is_rejected_untouched (a base/name whose normalised relative part climbs above its start raises FilerError before anything, mkdtemp included, is touched; this is the fix for F43), "
                  "clear_within_path (_clearPath adds nothing and removes only at/below .path, resp. the directory holding it when temp), history_inside_head / fresh_filer_history_inside_head "
                  "(induction over any sequence of reopen(clear,reuse,clean)/close(clear) calls: the filesystem differs from the initial one only inside the head / the Filer's mkdtemp directories). "
                  "'temp resources are removed' is FALSE for the mkdtemp directory itself and the directories between it and .path: witness temp_clear_leaves_tempdir, known finding C29-K1. "
                  "The filesystem and os.path functions are modelled; the correspondence compares full sandbox snapshots with the real Filer after every step.")
    level_note = ("Trusted: Lean kernel + propext/Classical.choice/Quot.sound; POSIX os.path.join/abspath/splitext/split, os.makedirs, shutil.rmtree, os.remove, "
                  "tempfile.mkdtemp as modelled (exercised by the correspondence on the real filesystem); no symlinks, no permission failures, no alt-path fallback.")
    quick_n = 700
    thorough_n = 6000
    rule = ("case = (name, base, temp, clean, filed, extensioned, fext, pre-existing dirs/sentinel files, steps reopen(clear,reuse,clean)* close(clear)); names/bases of 1-3 segments over "
            "plain, dotted ('..', '.', '', '.h', 'a.', '...', '..b', 'x.y') and unicode segments, occasionally absolute; all 16 flag combinations; thorough adds every name of <= 3 segments over "
            "{'..','.','','a','.h','a.b'} x 5 bases x 16 flag combinations. non-trivial = Filer constructed and at least one entry created or deleted; distinct by request line")
    trusted_base = ["translator harness/extract/path.py (Filer.TailDirPath / CleanTailDirPath -> Gen/FilerConsts.lean; the containment proofs re-check that both are non-empty lists of ordinary segments)",
                    "correspondence harness/props/C29.py + harness/areas/path.py: compiled model driver vs hio.base.filing.Filer on the real filesystem (sandbox under /tmp/path_scratch), full snapshot after every step",
                    "modelled: POSIX path functions on segment lists, the filesystem as a set of (path, kind)"]
    assumptions = ["no symlinks below the sandbox; the process may create/chmod/delete everything below it; mkdtemp returns a fresh directory directly below TempHeadDir"]

    def extract(self):
        return xpath.extract()

    # ---------------------------------------------------------------- cases
    def corpus(self):
        C = [("close", True)]
        cs = []
        for temp in (False, True):
            for filed, ext in ((False, False), (True, False), (False, True), (True, True)):
                cs.append(("main", "", temp, False, filed, ext, "text", [], C))
                cs.append(("../../x", "", temp, False, filed, ext, "text", [], C))       # F43
                cs.append(("x", "../..", temp, True, filed, ext, "text", [], C))          # F43 via base, clean tail
                cs.append(("../x", "", temp, False, filed, ext, "text", [], C))           # leaves the tail but not the head
                cs.append(("a/../b", "", temp, False, filed, ext, "text", [], C))
        cs.append(("..", "", False, False, False, False, "text", [], C))
        cs.append(("../..", "", True, True, False, False, "text", [], C))
        cs.append((".", "", False, False, False, False, "text", [("hio", "d"), ("hio/keep", "f")], C))
        cs.append(("/abs", "", False, False, False, False, "text", [], C))
        cs.append(("a", "/abs", True, False, False, False, "text", [], C))
        cs.append(("main", "b", False, True, True, False, "text", [("hio", "d"), ("hio/clean", "d"), ("hio/clean/b", "d"), ("hio/clean/b/keep", "f")],
                   [("reopen", False, False, True), ("reopen", True, True, False), ("close", True)]))
        cs.append(("main", "", True, False, True, False, "text", [], [("reopen", False, True, False), ("reopen", False, False, False), ("close", True)]))
        cs.append(("db.d", "b", False, False, False, False, "text", [("hio", "d"), ("hio/b", "d"), ("hio/b/sib", "d"), ("hio/b/sib/keep", "f")],
                   [("reopen", True, False, True), ("close", True)]))
        sib = [("hio", "d"), ("hio/clean", "d"), ("hio/clean/b", "d"), ("hio/clean/b/keep", "f"), ("hio/clean/b/sib", "d"), ("hio/clean/b/sib/keep", "f")]
        for filed, ext in ((False, False), (True, False), (False, True), (True, True)):
            # the clean path is visited twice: what is there is removed, nothing next to it
            cs.append(("main", "b", False, True, filed, ext, "text", sib, [("reopen", False, False, True), ("close", True)]))
            there = ("hio/clean/b/main.text", "f") if (filed or ext) else ("hio/clean/b/main", "d")
            cs.append(("main", "b", False, True, filed, ext, "text", sib + [there], [("close", True)]))
        return cs

    def exhaustive(self, tier):
        if tier != "thorough":
            return [], None
        return list(P.exhaustive_cases()), ("every name of 1-3 segments over {'..', '.', '', 'a', '.h', 'a.b'} x bases {'', 'b', '..', 'b/..', '../..'} x "
                                            "all 16 combinations of temp/clean/filed/extensioned, then close(clear=True)")

    def generate(self, rng, n, tier):
        for _ in range(n):
            yield P.gen_case(rng)

    # ---------------------------------------------------------------- wire
    def _initial(self, case):
        """initial snapshot (computed on a throw-away sandbox so that the request is self-contained)"""
        key = repr(case[7])
        if key not in self._init_cache:
            sb = P.Sandbox()
            try:
                self._populate(sb, case)
                self._init_cache[key] = sb.snapshot()
            finally:
                sb.destroy()
        return self._init_cache[key]

    _init_cache = {}

    @staticmethod
    def _populate(sb, case):
        for rel, kind in case[7]:
            full = os.path.join(sb.head, rel)
            if kind == "d":
                os.makedirs(full, exist_ok=True)
            else:
                os.makedirs(os.path.dirname(full), exist_ok=True)
                open(full, "w").close()

    def request(self, case):
        name, base, temp, clean, filed, ext, fext, pre, steps = case
        return ("filer", _b(name), _b(base), bool(temp), bool(clean), bool(filed), bool(ext), _b(fext),
                P.HEADSEGS, P.TEMPSEGS, self._initial(case),
                tuple((s[0],) + tuple(bool(x) for x in s[1:]) for s in steps))

    # ---------------------------------------------------------------- implementation
    def run_impl(self, case):
        from hio.base import filing
        from hio import hioing
        name, base, temp, clean, filed, ext, fext, pre, steps = case
        sb = P.Sandbox()
        filer = None
        try:
            self._populate(sb, case)
            init = sb.snapshot()
            cls = type("SandboxFiler", (filing.Filer,), dict(TempHeadDir=sb.temphead, AltHeadDirPath=sb.alt, HeadDirPath=sb.head))
            out = [init]

            def stage(fn):
                try:
                    fn()
                    res = ("ok", tuple(_b(x) for x in sb.rel(filer.path))) if filer is not None and filer.path else ("ok", None)
                except hioing.FilerError:
                    res = ("raise", "FilerError")
                except OSError:
                    res = ("raise", "OSError")
                # the snapshot first: it names new temp directories
                snap = sb.snapshot()
                if res[0] == "ok" and res[1] is not None:
                    res = ("ok", tuple(_b(x) for x in sb.rel(filer.path)))
                out.append((res, snap))
                return res[0] == "ok"

            def make():
                nonlocal filer
                filer = cls(name=name, base=base, temp=temp, headDirPath=sb.head, clean=clean, filed=filed, extensioned=ext, fext=fext, reopen=True)
            if stage(make):
                for s in steps:
                    if s[0] == "reopen":
                        ok = stage(lambda: filer.reopen(clear=s[1], reuse=s[2], clean=s[3]))
                    else:
                        ok = stage(lambda: filer.close(clear=s[1]))
                    if not ok:
                        break
            return tuple(out)
        finally:
            try:
                if filer is not None and filer.file and not filer.file.closed:
                    filer.file.close()
            except Exception:
                pass
            sb.destroy()

    # ---------------------------------------------------------------- oracle: containment on the real snapshots
    def oracle(self, case, obs):
        name, base, temp, clean, filed, ext, fext, pre, steps = case
        bad = set()
        init = obs[0]
        prev = set(init)
        head = P.HEADSEGS
        tmph = P.TEMPSEGS
        path = None

        def inside_head(p):
            if temp:
                return len(p) > len(tmph) and p[:len(tmph)] == tmph and p[len(tmph)].startswith(b"TMP")
            return len(p) > len(head) and p[:len(head)] == head      # strictly inside: the head directory itself is not the Filer's to create or delete

        for i, (res, snap) in enumerate(obs[1:]):
            cur = set(snap)
            created = cur - prev
            deleted = prev - cur
            if any(not inside_head(p) for p, _ in created):
                bad.add("created-outside-head")
            if any(not inside_head(p) for p, _ in deleted):
                bad.add("deleted-outside-head")
            newpath = res[1] if res[0] == "ok" and res[1] is not None else path
            own = [q for q in (path, newpath) if q is not None]
            if any(e in init for e in deleted if not any(e[0][:len(q)] == q for q in own)):
                # something that was there before the Filer existed, and is not below its own path, is gone
                bad.add("removed-foreign-entry")
            step = None if i == 0 else steps[i - 1]
            if step is not None and step[0] == "close" and res[0] == "ok":
                if step[1]:
                    if path is not None and any(p == path for p, _ in cur):
                        bad.add("clear-left-path")
                    if path is not None and any(not (p[:len(path)] == path or (temp and inside_head(p))) for p, _ in deleted):
                        bad.add("clear-removed-outside-path")
                    if temp and path is not None and len(path) > len(tmph) and any(p[:len(tmph) + 1] == path[:len(tmph) + 1] for p, _ in cur):
                        bad.add("temp-not-removed")     # the temporary directory this path lives in is still there
                elif deleted:
                    bad.add("close-without-clear-deleted")
            if res[0] == "ok" and res[1] is not None:
                path = res[1]
            prev = cur
        return sorted(bad)

    def known(self, case, obs, clauses):
        temp = case[2]
        if clauses == ["temp-not-removed"] and temp and obs[-1][0][0] == "ok" and obs[-1][0][1] is not None:
            n = len(P.TEMPSEGS)
            path = obs[-1][0][1]
            left = [(p, k) for p, k in obs[-1][1] if p[:n + 1] == path[:n + 1]]
            # exactly the defect: only (empty) directories of the current temp tree are left, the path itself is gone
            if left and all(k == "d" for _, k in left) and all(p != path for p, _ in left):
                return "C29-K1"
        return None

    def nontrivial(self, case, obs):
        if len(obs) < 2 or obs[1][0][0] != "ok":
            return False
        return any(set(s) != set(obs[0]) for _, s in obs[1:])

    def features(self, case, obs):
        name, base, temp, clean, filed, ext, fext, pre, steps = case
        f = [f"flags:t{int(temp)}c{int(clean)}f{int(filed)}e{int(ext)}", f"init:{obs[1][0][0] if len(obs) > 1 else 'none'}" + (":" + obs[1][0][1] if len(obs) > 1 and obs[1][0][0] == "raise" else "")]
        segs = name.split("/") + (base.split("/") if base else [])
        if ".." in segs:
            f.append("has-dotdot")
        if any(s in (".", "") for s in name.split("/")):
            f.append("has-dot-or-empty")
        if pre:
            f.append("pre-populated")
        f.append(f"steps:{len(steps)}")
        for s in steps:
            f.append("step:" + s[0] + ("+clear" if s[1] else ""))
        return f

    def shrink(self, case):
        name, base, temp, clean, filed, ext, fext, pre, steps = case
        for i in range(len(steps)):
            yield (name, base, temp, clean, filed, ext, fext, pre, steps[:i] + steps[i + 1:])
        for i in range(len(pre) - 1, -1, -1):
            yield (name, base, temp, clean, filed, ext, fext, pre[:i] + pre[i + 1:], steps)
        if base:
            yield (name, "", temp, clean, filed, ext, fext, pre, steps)
        segs = name.split("/")
        for i in range(len(segs)):
            if len(segs) > 1:
                yield ("/".join(segs[:i] + segs[i + 1:]), base, temp, clean, filed, ext, fext, pre, steps)
        for flag in (3, 4, 5):
            if case[flag]:
                c = list(case)
                c[flag] = False
                yield tuple(c)
        if fext != "text":
            yield (name, base, temp, clean, filed, ext, "text", pre, steps)

    def mutate(self, rng, case):
        out = list(self.shrink(case))
        name, base, temp, clean, filed, ext, fext, pre, steps = case
        for t in (False, True):
            for fl in (False, True):
                for e in (False, True):
                    out.append((name, base, t, clean, fl, e, fext, [] if t else pre, [("close", True)]))
        return out


CHECK = C29()
