"""C29 — hio.base.filing.Filer: everything created or deleted lies inside its head directory (the temp directory when temp);
closing with clear removes what it created and nothing outside its own path."""
import os

from .. import core, sx
from ..areas import path as P
from ..extract import path as xpath


def _b(s):
    return s.encode("utf-8")


def _nstr(v):
    """a name / base in a case: str | ("path", str) = a pathlib.PurePosixPath of it | None | int (not path-like).
    -> the string os.fspath() gives the code, or None when the value is not path-like"""
    if isinstance(v, str):
        return P.DEEP + v[1:] if v.startswith("@/") else v          # "@/x": an absolute path inside the sandbox
    if isinstance(v, tuple) and v[:1] == ("path",):
        import pathlib
        return os.fspath(pathlib.PurePosixPath(v[1]))
    return None


def _nobj(v, sb=None):
    if isinstance(v, str) and v.startswith("@/") and sb is not None:
        return sb.deep + v[1:]
    if isinstance(v, tuple) and v[:1] == ("path",):
        import pathlib
        return pathlib.PurePosixPath(v[1])
    return v


def _extras(case):
    """perm / mode arguments for the constructor and the reopens: they do not change which entries exist, so they are
    not part of the request; derived from the case so that a replay passes the same ones"""
    import zlib
    h = zlib.crc32(repr(case[:9]).encode())
    return [None, 0o700, 0o1755, 0o1700][h % 4], [None, "r+", "w+", "rb+", "a+"][(h // 4) % 5]


class C29(core.Check):
    pid = "C29"
    pkg = "Path"
    props_mod = "HioModel.Props.C29"
    design_ref = "DESIGN.md §5 C29, §7 F43 F44"
    technique = ("Lean 4 proofs on an executable model of Filer path construction (os.path.join/abspath/splitext as segment-list functions) and of "
                 "remake/_clearPath over a modelled filesystem; differential run of the compiled model against the real Filer on the real filesystem "
                 "(full snapshot of a disposable sandbox after every step); independent containment oracle on the snapshots")
    level_text = ("Lean theorems for every name, base, extension, all 16 flag combinations and every history (unbounded, no guard on name/base): remake_inside_head / remake_inside_tempdir "
                  "(remake creates and deletes only entries below headDirPath, resp. below its own fresh mkdtemp directory, and an accepted path lies below <head>/hio[/clean]), "
                  "escaping_name_is_rejected_untouched (a base/name whose normalised relative part climbs above its start raises FilerError before anything, mkdtemp included, is touched; this is the fix for F43), "
                  "clear_within_path (_clearPath adds nothing and removes only at/below .path, resp. the directory holding it when temp), history_inside_head / fresh_filer_history_inside_head "
                  "(induction over any sequence of reopen(temp,fext,clear,reuse,clean)/close(clear) calls, including calls that switch the Filer between persistent and temporary: the filesystem differs from the "
                  "initial one only inside the head / the Filer's mkdtemp directories), reopen_to_temp_keeps_siblings (a persistent Filer reopened as temporary clears its old path under the OLD setting: nothing "
                  "outside the old path and the new mkdtemp directory changes). context_exit_clears_path (leaving an openFiler context of a temp / clear=True Filer leaves nothing at .path whether or not the block closed it already; exit and FilerDoer steps are part of the histories). reuse_with_temp_flip_clears_holding_dir is the witness for known finding C29-K2 (reuse keeps the path, the setting flips). "
                  "'temp resources are removed' is FALSE for the mkdtemp directory itself and the directories between it and .path: witness temp_clear_leaves_tempdir, known finding C29-K1. "
                  "The filesystem and os.path functions are modelled; the correspondence compares full sandbox snapshots with the real Filer after every step.")
    level_note = ("Trusted: Lean kernel + propext/Classical.choice/Quot.sound; POSIX os.path.join/abspath/splitext/split, os.makedirs, shutil.rmtree, os.remove, "
                  "tempfile.mkdtemp as modelled (exercised by the correspondence on the real filesystem); no symlinks, no permission failures, no alt-path fallback.")
    quick_n = 500
    thorough_n = 4000
    rule = ("case = (name, base, temp, clean, filed, extensioned, fext, pre-existing dirs/sentinel files incl. other Filers' files in the holding directory, steps reopen(clear,reuse,clean,temp,fext)* close(clear)) where a third of the reopens change temp and/or fext, ('doer',) steps run a FilerDoer under a Doist, and a third of the cases run inside `with openFiler(...)` (blocks that leave the filer closed included); HOME points into the sandbox and names/bases contain '~', '~/x', '$HOME'; names/bases of 1-3 segments over "
            "plain, dotted ('..', '.', '', '.h', 'a.', '...', '..b', 'x.y') and unicode segments, occasionally absolute; all 16 flag combinations; thorough adds every name of <= 3 segments over "
            "{'..','.','','a','.h','a.b'} x 5 bases x 16 flag combinations. non-trivial = Filer constructed and at least one entry created or deleted; distinct by request line")
    trusted_base = ["translator harness/extract/path.py (Filer.TailDirPath / CleanTailDirPath -> Gen/FilerConsts.lean; the containment proofs re-check that both are non-empty lists of ordinary segments)",
                    "correspondence harness/props/C29.py + harness/areas/path.py: compiled model driver vs hio.base.filing.Filer on the real filesystem (sandbox under /tmp/path_scratch), full snapshot after every step",
                    "modelled: POSIX path functions on segment lists, the filesystem as a set of (path, kind)"]
    assumptions = ["no symlinks below the sandbox; the process may create/chmod/delete everything below it; mkdtemp returns a fresh directory directly below TempHeadDir"]

    def extract(self):
        return xpath.extract()

    # ---------------------------------------------------------------- cases
    def corpus(self):
        C = [("close", True)]
        cs = []
        for temp in (False, True):
            for filed, ext in ((False, False), (True, False), (False, True), (True, True)):
                cs.append(("main", "", temp, False, filed, ext, "text", [], C))
                cs.append(("../../x", "", temp, False, filed, ext, "text", [], C))       # F43
                cs.append(("x", "../..", temp, True, filed, ext, "text", [], C))          # F43 via base, clean tail
                cs.append(("../x", "", temp, False, filed, ext, "text", [], C))           # leaves the tail but not the head
                cs.append(("a/../b", "", temp, False, filed, ext, "text", [], C))
        for temp, clean, filed, ext in ((False, False, False, False), (True, False, True, False), (False, True, False, True), (True, True, True, True)):
            # '..' not in first position: down, then further up
            cs.append(("logs/../../../stolen", "", temp, clean, filed, ext, "text", [], C))
            cs.append(("../victim", "conf/../..", temp, clean, filed, ext, "text", [], C))
            cs.append(("a/./../../b", "", temp, clean, filed, ext, "text", [], C))
            cs.append(("x", "a/b/../../../..", temp, clean, filed, ext, "text", [], C))
            cs.append(("a/../b/../c", "d/..", temp, clean, filed, ext, "text", [], C))          # cancels out: accepted
        cs.append(("..", "", False, False, False, False, "text", [], C))
        cs.append(("../..", "", True, True, False, False, "text", [], C))
        cs.append((".", "", False, False, False, False, "text", [("hio", "d"), ("hio/keep", "f")], C))
        cs.append(("/abs", "", False, False, False, False, "text", [], C))
        cs.append(("a", "/abs", True, False, False, False, "text", [], C))
        cs.append(("main", "b", False, True, True, False, "text", [("hio", "d"), ("hio/clean", "d"), ("hio/clean/b", "d"), ("hio/clean/b/keep", "f")],
                   [("reopen", False, False, True), ("reopen", True, True, False), ("close", True)]))
        cs.append(("main", "", True, False, True, False, "text", [], [("reopen", False, True, False), ("reopen", False, False, False), ("close", True)]))
        cs.append(("db.d", "b", False, False, False, False, "text", [("hio", "d"), ("hio/b", "d"), ("hio/b/sib", "d"), ("hio/b/sib/keep", "f")],
                   [("reopen", True, False, True), ("close", True)]))
        shared = [("hio", "d"), ("hio/shared", "d"), ("hio/shared/other.text", "f"), ("hio/shared/otherdir", "d"), ("hio/shared/otherdir/data", "f")]
        for filed, ext, there in ((True, False, []), (False, True, [("hio/shared/mine.text", "f")]), (False, False, []), (True, True, [])):
            # a persistent Filer next to other Filers' files is reopened as a temporary one, clearing the old path
            cs.append(("mine", "shared", False, False, filed, ext, "text", shared + there, [("reopen", True, False, False, True, None), ("close", True)]))
            cs.append(("mine", "shared", False, False, filed, ext, "text", shared + there, [("reopen", True, True, False, True, None), ("close", True)]))
            # the known one: the old path is KEPT (reuse) while temp flips, the later clear uses the temp rule on it
            cs.append(("mine", "shared", False, False, filed, ext, "text", shared + there, [("reopen", False, True, False, True, None), ("close", True)]))
            # temporary -> persistent
            cs.append(("mine", "shared", True, False, filed, ext, "text", shared, [("reopen", True, False, False, False, None), ("close", True)]))
            cs.append(("mine", "shared", True, False, filed, ext, "text", shared, [("reopen", False, True, False, False, "db"), ("close", True)]))
        for temp, cl in ((True, False), (False, True), (True, True), (False, False)):
            for filed, ext in ((False, False), (True, False), (False, True)):
                # openFiler context: the closing clear happens however the block leaves the filer
                for steps in ([], [("close", False)], [("close", False), ("reopen", False, True, False, None, None), ("close", False)], [("doer",)],
                              [("reopen", True, False, False, None, None)], [("close", True)]):
                    cs.append(("test", "", temp, False, filed, ext, "text", [], steps, ("ctx", cl)))
        for nm, bs in (("~", ""), ("~/x", ""), ("x", "~"), ("x", "~/b"), ("~nosuchuser9", ""), ("a/~", "b"), ("~", "~")):
            for temp, filed in ((False, False), (False, True), (True, False)):
                cs.append((nm, bs, temp, False, filed, False, "text", [], C))          # '~' is an ordinary segment below head
        for temp, filed in ((False, False), (True, True)):
            for nm, bs in ((None, ""), ("x", None), (7, ""), ("x", 0), (("path", "a/b"), ""), ("x", ("path", "b/./c/")), (("path", "a/../../../x"), ""), (("path", "."), ("path", ""))):
                cs.append((nm, bs, temp, False, filed, False, "text", [], C))
            for fx in ("", "a/b", "/../../../x", "..", ".", "t.x", "é"):
                cs.append(("main", "b", temp, False, filed, not filed, fx, [], [("reopen", False, False, False, None, "db"), ("exists",), ("close", True)]))
        for temp in (True, False):
            for filed in (False, True):
                for route in ("do", "doist", "doer"):
                    # a FilerDoer with temp injected at enter, on a filer that is open already / closed before
                    cs.append(("test", "", temp, False, filed, False, "text", [], [("doer", route, True), ("close", True)]))
                    cs.append(("test", "", temp, False, filed, False, "text", [], [("close", False), ("doer", route, True), ("doer", route, True)]))
                    cs.append(("test", "", temp, False, filed, False, "text", [], [("doer", route, True)], ("ctx", False)))
                cs.append(("test", "", temp, False, filed, False, "text", [], [("close", False), ("doer", "do", False), ("close", True)]))
        near = [("hio", "d"), ("hio/b", "d"), ("hio/b/main.textx", "f"), ("hio/b/main.text.bak", "f"), ("hio/b/mainx", "d"), ("hio/b/mainx/data", "f"), ("hio/b/main0", "d"), ("hio/b/mai", "f")]
        for filed, ext in ((False, False), (True, False), (False, True)):
            # neighbours whose names are in prefix relation with the path: none of them is the Filer's
            cs.append(("main", "b", False, False, filed, ext, "text", near, [("reopen", True, False, False, None, None), ("exists",), ("close", True)]))
            cs.append(("main", "b", False, False, filed, ext, "text", near + ([("hio/b/main.text", "f")] if ext else []), [("reopen", True, False, False, True, None), ("close", True)]))
        for filed, ext in ((False, False), (True, False), (False, True)):
            # the head directory as parameter / class default, the alternative head as class attribute, resolved against HOME and cwd
            for param in (None, "", ".", "rel/x", "../up", "~", "~/x", "@/h2/deeper"):
                cs.append(("main", "b", False, False, filed, ext, "text", [], C, None, (param, "@/head", "@/alt", None, False)))
                cs.append(("main", "b", False, True, filed, ext, "text", [], [("reopen", True, False, True, None, None), ("close", True)], ("ctx", True), (param, "~/cls", "~", None, False)))
            # the primary head cannot be used (a regular file sits there): fallback to the alternative head, every spelling of it
            for alt in ("@/alt", "~", "~/altx", "", "altrel"):
                for block in ("head", "tail"):
                    cs.append(("main", "b", False, False, filed, ext, "text", [], C, None, ("@/h2", "@/head", alt, block, False)))
                    cs.append(("main", "", False, True, filed, ext, "text", [], [("close", False), ("reopen", False, True, True, None, None), ("close", True)], None, (None, "rel", alt, block, False)))
            # reopen(temp=True) while TempHeadDir does not exist: the call raises, the history goes on (C29-K3)
            cs.append(("main", "b", False, False, filed, ext, "text", [("hio", "d"), ("hio/b", "d"), ("hio/b/other.text", "f")],
                       [("reopen", False, False, False, True, None), ("close", True)], None, ("@/head", "@/head", "@/alt", None, True)))
            cs.append(("main", "b", False, False, filed, ext, "text", [("hio", "d"), ("hio/b", "d"), ("hio/b/other.text", "f")],
                       [("reopen", False, False, False, True, None)], ("ctx", False), ("@/head", "@/head", "@/alt", None, True)))
            cs.append(("main", "b", True, False, filed, ext, "text", [], C, None, ("@/head", "@/head", "@/alt", None, True)))
        for filed in (False, True):
            for temp in (False, True):
                # attributes assigned after construction, then reopen(); direct calls of the public remake()
                for attr, val in (("base", "@/home"), ("base", "@/home/sub"), ("name", "@/cwd/x"), ("base", "../.."), ("name", "../../../x"), ("base", "b2"), ("name", "other"),
                                  ("filed", not filed), ("extensioned", True)):
                    cs.append(("main", "b", temp, False, filed, False, "text", [], [("set", attr, val), ("reopen", False, False, False, None, None), ("close", True)]))
                    cs.append(("main", "b", temp, False, filed, False, "text", [], [("close", False), ("set", attr, val), ("reopen", True, True, False, None, None), ("doer",), ("close", True)]))
                for nm, bs in (("x", "@/home"), ("@/home/x", ""), ("x", "../.."), ("../../x", "b"), ("y", "b"), ("main", "b")):
                    for t2 in (False, True):
                        cs.append(("main", "b", temp, False, filed, False, "text", [], [("remake", nm, bs, t2, True, filed, False), ("remake", nm, bs, t2, False, not filed, True), ("close", True)]))
        for filed, ext in ((True, False), (False, True), (False, False), (True, True)):
            for lk in ("lf", "ld"):
                # a symbolic link to something outside the head sits at the path: clear may remove the link, never its target
                pth = "hio/b/main.text" if (filed or ext) else "hio/b/main"
                lpre = [("hio", "d"), ("hio/b", "d"), ("hio/b/keep", "f"), (pth, lk)]
                cs.append(("main", "b", False, False, filed, ext, "text", lpre, C))
                cs.append(("main", "b", False, False, filed, ext, "text", lpre, [("reopen", True, False, False, None, None), ("close", True)]))
                cs.append(("main", "b", False, False, filed, ext, "text", lpre, [("close", False)], ("ctx", True)))
            cpre = [("hio", "d"), ("hio/clean", "d"), ("hio/clean/b", "d"), ("hio/clean/b/main.text" if (filed or ext) else "hio/clean/b/main", "lf" if (filed or ext) else "ld")]
            cs.append(("main", "b", False, True, filed, ext, "text", cpre, C))
        for filed in (False, True):
            # TempHeadDir is gone when remake runs: nothing may be created anywhere (not in the process default temp directory either)
            nt = ("@/head", "@/head", "@/alt", None, True)
            cs.append(("main", "", True, False, filed, False, "text", [], [("close", True)], None, nt))
            cs.append(("main", "", False, False, filed, False, "text", [], [("close", False), ("doer", "do", True), ("close", True)], None, nt))
            cs.append(("main", "", False, False, filed, False, "text", [], [("reopen", True, False, False, True, None), ("doer",), ("close", True)], ("ctx", False), nt))
            cs.append(("main", "", False, False, filed, False, "text", [], [("remake", "x", "b", True, False, filed, False), ("close", True)], None, nt))
        sib = [("hio", "d"), ("hio/clean", "d"), ("hio/clean/b", "d"), ("hio/clean/b/keep", "f"), ("hio/clean/b/sib", "d"), ("hio/clean/b/sib/keep", "f")]
        for filed, ext in ((False, False), (True, False), (False, True), (True, True)):
            # the clean path is visited twice: what is there is removed, nothing next to it
            cs.append(("main", "b", False, True, filed, ext, "text", sib, [("reopen", False, False, True), ("close", True)]))
            there = ("hio/clean/b/main.text", "f") if (filed or ext) else ("hio/clean/b/main", "d")
            cs.append(("main", "b", False, True, filed, ext, "text", sib + [there], [("close", True)]))
        return cs

    def exhaustive(self, tier):
        if tier != "thorough":
            return [], None
        return list(P.exhaustive_cases()), ("every name of 1-3 segments over {'..', '.', '', 'a', '.h', 'a.b'} x bases {'', 'b', '..', 'b/..', '../..'} x "
                                            "all 16 combinations of temp/clean/filed/extensioned, then close(clear=True)")

    def generate(self, rng, n, tier):
        for _ in range(n):
            yield P.gen_case(rng)

    # ---------------------------------------------------------------- wire
    def _initial(self, case):
        """initial snapshot (computed on a throw-away sandbox so that the request is self-contained)"""
        key = repr((case[7], self._hp(case)))
        if key not in self._init_cache:
            sb = P.Sandbox()
            try:
                self._populate(sb, case)
                self._init_cache[key] = sb.snapshot()
            finally:
                sb.destroy()
        return self._init_cache[key]

    _init_cache = {}

    @staticmethod
    def _populate(sb, case):
        import posixpath
        import shutil
        hp = C29._hp(case)
        head = os.path.join(sb.root, *[x.decode("utf-8") for x in P.tok_resolved(C29._head_tok(case))])
        if hp[3] is not None:
            # a regular file where the primary head (or its tail directory) should be: creating below it raises OSError
            spot = head if hp[3] == "head" and not os.path.isdir(head) else os.path.join(head, "hio")
            if not os.path.lexists(spot):
                os.makedirs(os.path.dirname(spot), exist_ok=True)
                open(spot, "w").close()
        if hp[4]:
            shutil.rmtree(sb.temphead)
        for rel, kind in case[7]:
            full = os.path.join(head, rel)
            if kind in ("lf", "ld"):
                # a symbolic link whose target lies OUTSIDE the head, next to sentinel files that must survive everything
                out_dir = os.path.join(sb.deep, "outside")
                os.makedirs(out_dir, exist_ok=True)
                for nm_ in ("keep", "keep2"):
                    open(os.path.join(out_dir, nm_), "w").close()
                tgt = os.path.join(out_dir, "target_" + rel.replace("/", "_"))
                if kind == "lf":
                    open(tgt, "w").close()
                else:
                    os.makedirs(tgt, exist_ok=True)
                    open(os.path.join(tgt, "inside"), "w").close()
                os.makedirs(os.path.dirname(full), exist_ok=True)
                os.symlink(tgt, full)
                continue
            if kind == "d":
                os.makedirs(full, exist_ok=True)
            else:
                os.makedirs(os.path.dirname(full), exist_ok=True)
                open(full, "w").close()

    def request(self, case):
        name, base, temp, clean, filed, ext, fext, pre, steps = case[:9]
        return ("filer", None if _nstr(name) is None else _b(_nstr(name)), None if _nstr(base) is None else _b(_nstr(base)), bool(temp), bool(clean), bool(filed), bool(ext), _b(fext),
                (None if self._hp(case)[0] is None else P.tok_wire(self._hp(case)[0]), P.tok_wire(self._hp(case)[1]), P.tok_wire(self._hp(case)[2]),
                 P.HOMESEGS, P.CWDSEGS),
                P.TEMPSEGS, self._initial(case),
                tuple(self._wire_step(s) for s in steps),
                "ctor" if self._entry(case) is None else ("ctx", bool(self._entry(case)[1])))

    @staticmethod
    def _entry(case):
        return case[9] if len(case) > 9 else None

    @staticmethod
    def _hp(case):
        """(headDirPath parameter token | None, HeadDirPath class attr token, AltHeadDirPath class attr token, block, notemp)"""
        hp = case[10] if len(case) > 10 and case[10] is not None else ("@/head", "@/head", "@/alt", None, False)
        return tuple(hp) + (None, False)[len(hp) - 3:] if len(hp) < 5 else tuple(hp)

    @classmethod
    def _head_tok(cls, case):
        hp = cls._hp(case)
        return hp[0] if hp[0] is not None else hp[1]

    @staticmethod
    def _norm(step):
        """("reopen", clear, reuse, clean[, temp[, fext]]) -> 6-tuple; temp in (None, True, False), fext None | str"""
        if step[0] == "reopen":
            return tuple(step) + (None,) * (6 - len(step))
        return tuple(step)

    @classmethod
    def _wire_step(cls, step):
        st = cls._norm(step)
        if st[0] == "reopen":
            return ("reopen", bool(st[1]), bool(st[2]), bool(st[3]), None if st[4] is None else bool(st[4]), None if st[5] is None else _b(st[5]))
        if st[0] == "doer":
            # ("doer"[, route, temp]): route do | doist | doer says where the temp value is injected
            # (only a TRUE temp is ever injected: Doist.do / Doer.do turn a false one into None before enter)
            return ("doer",) if len(st) < 3 or not st[2] else ("doer", True)
        if st[0] == "exists":
            return (st[0],)
        if st[0] == "set":
            return ("set", st[1], _b(_nstr(st[2])) if st[1] in ("name", "base") else bool(st[2]))
        if st[0] == "remake":
            return ("remake", _b(_nstr(st[1])), _b(_nstr(st[2]))) + tuple(bool(x) for x in st[3:7])
        return ("close", bool(st[1]))

    # ---------------------------------------------------------------- implementation
    def run_impl(self, case):
        from hio.base import filing, doing
        from hio import hioing
        name, base, temp, clean, filed, ext, fext, pre, steps = case[:9]
        sb = P.Sandbox()
        filer = None
        try:
            self._populate(sb, case)
            init = sb.snapshot()
            hp = self._hp(case)
            head_arg = None if hp[0] is None else P.tok_real(sb, hp[0])
            cls = type("SandboxFiler", (filing.Filer,), dict(TempHeadDir=sb.temphead, AltHeadDirPath=P.tok_real(sb, hp[2]), HeadDirPath=P.tok_real(sb, hp[1])))
            out = [init]

            def stage(fn):
                try:
                    fn()
                    res = ("ok", tuple(_b(x) for x in sb.rel(filer.path))) if filer is not None and filer.path else ("ok", None)
                except OSError:
                    res = ("raise", "OSError")
                except Exception as ex:          # every exception out of the real code is an observation, never a crash
                    res = ("raise", type(ex).__name__)
                # the snapshot first: it names new temp directories
                snap = sb.snapshot()
                if res[0] == "ok" and res[1] is not None:
                    res = ("ok", tuple(_b(x) for x in sb.rel(filer.path)))
                out.append((res, snap))
                return res[0] == "ok"

            def make():
                nonlocal filer
                filer = cls(name=_nobj(name, sb), base=_nobj(base, sb), temp=temp, headDirPath=head_arg, clean=clean, filed=filed, extensioned=ext, fext=fext,
                             reopen=True, perm=perm, mode=mode)

            def run_steps():
                for s in steps:
                    s = self._norm(s)
                    if s[0] == "reopen":
                        ok = stage(lambda: filer.reopen(clear=s[1], reuse=s[2], clean=s[3], temp=s[4], fext=s[5], perm=perm, mode=mode))
                    elif s[0] == "set":
                        # plain attribute assignment after construction; the next reopen / doer uses the new value
                        ok = stage(lambda: setattr(filer, s[1], _nobj(s[2], sb) if s[1] in ("name", "base") else s[2]))
                    elif s[0] == "remake":
                        def direct():
                            # the public remake(): builds the path it is asked for and hands back (path, file)
                            _p, _f = filer.remake(name=_nobj(s[1], sb), base=_nobj(s[2], sb), temp=s[3], headDirPath=filer.headDirPath, clean=s[4],
                                                  filed=s[5], extensioned=s[6], fext=filer.fext, perm=perm, mode=mode)
                            if _f is not None:
                                _f.close()
                        ok = stage(direct)
                    elif s[0] == "exists":
                        ok = stage(lambda: filer.exists(name=filer.name, base=filer.base, headDirPath=filer.headDirPath, clean=clean, filed=filer.filed,
                                                        extensioned=filer.extensioned, fext=filer.fext))
                    elif s[0] == "doer":
                        def run_doer():
                            route, val = (s[1], s[2]) if len(s) >= 3 and s[2] is not None else (None, None)
                            doist = doing.Doist(limit=0.0625, tock=0.03125, real=False, **(dict(temp=val) if route == "doist" else {}))
                            doer = filing.FilerDoer(filer=filer, **(dict(temp=val) if route == "doer" else {}))
                            doist.do(doers=[doer], **(dict(temp=val) if route == "do" else {}))
                        ok = stage(run_doer)
                    else:
                        ok = stage(lambda: filer.close(clear=s[1]))
                    # a caller may catch the exception and go on: the history continues after a fault

            entry = self._entry(case)
            perm, mode = _extras(case)
            old_home = os.environ.get("HOME")
            old_cwd = os.getcwd()
            os.environ["HOME"] = sb.home
            os.chdir(sb.cwd)
            import tempfile
            old_tmp = (tempfile.tempdir, os.environ.get("TMPDIR"))
            tempfile.tempdir = sb.systmp          # the process default temp directory lies in the sandbox too
            os.environ["TMPDIR"] = sb.systmp
            try:
                if entry is None:
                    if stage(make):
                        run_steps()
                else:
                    opened = []

                    def enter():
                        nonlocal filer
                        cm = filing.openFiler(cls=cls, name=_nobj(name, sb), base=_nobj(base, sb), temp=temp, headDirPath=head_arg, clean=clean, filed=filed,
                                              extensioned=ext, fext=fext, reopen=True, clear=entry[1], perm=perm, mode=mode)
                        filer = cm.__enter__()
                        opened.append(cm)
                    if stage(enter):
                        run_steps()
                        stage(lambda: opened[0].__exit__(None, None, None))
            finally:
                tempfile.tempdir = old_tmp[0]
                if old_tmp[1] is None:
                    os.environ.pop("TMPDIR", None)
                else:
                    os.environ["TMPDIR"] = old_tmp[1]
                os.chdir(old_cwd)
                if old_home is None:
                    os.environ.pop("HOME", None)
                else:
                    os.environ["HOME"] = old_home
            return tuple(out)
        finally:
            try:
                if filer is not None and filer.file and not filer.file.closed:
                    filer.file.close()
            except Exception:
                pass
            sb.destroy()

    # ---------------------------------------------------------------- oracle: containment on the real snapshots
    def _stage_clauses(self, case, obs):
        """[(stage index, clause, temp setting in force before the stage, path before the stage)]"""
        name, base, temp, clean, filed, ext, fext, pre, steps = case[:9]
        out = []
        init = obs[0]
        prev = set(init)
        head = P.tok_resolved(self._head_tok(case))      # the requested head, resolved independently of code and model
        alth = P.tok_resolved(self._hp(case)[2])
        tmph = P.TEMPSEGS
        path = None
        cur_temp = bool(temp)
        is_open = False          # as the caller sees it: open after a successful constructor / reopen, closed after close / doer / exit

        def in_temp(p):
            return len(p) > len(tmph) and p[:len(tmph)] == tmph and p[len(tmph)].startswith(b"TMP")

        def in_head(p):      # strictly inside: the head directory itself is not the Filer's to create or delete
            return len(p) > len(head) and p[:len(head)] == head

        def in_alt(p):
            return len(p) > len(alth) and p[:len(alth)] == alth

        def inside(p, t):
            return in_temp(p) if t else in_head(p)

        for i, (res, snap) in enumerate(obs[1:]):
            was_open = is_open
            cur = set(snap)
            created = cur - prev
            deleted = prev - cur
            ent = self._entry(case)
            if i == 0:
                step = None
            elif ent is not None and i == len(obs) - 2:
                # the last stage of an openFiler block (also after a step raised): the context manager's closing clear
                step = ("close", bool(cur_temp or ent[1]))
            else:
                step = self._norm(steps[i - 1])
            old_temp = cur_temp
            new_temp = cur_temp
            if step is not None and step[0] == "reopen" and step[4] is not None and res[0] == "ok":
                new_temp = bool(step[4])
            elif step is not None and step[0] == "reopen" and step[4] is not None:
                new_temp = None     # the call raised: either setting may have been in force
            elif step is not None and step[0] == "remake":
                new_temp = None     # a direct remake(temp=…) builds below the head or below a fresh mkdtemp directory, as asked
            elif step is not None and step[0] == "doer" and len(step) >= 3 and step[2]:
                new_temp = None     # an injected temp is taken over only when the doer had to open the filer
            # the alternative head is the Filer's own only when it actually fell back to it: its path lies below it
            fell = res[0] == "ok" and res[1] is not None and in_alt(res[1]) and not in_head(res[1])
            was_alt = path is not None and in_alt(path) and not in_head(path)
            ok_new = (lambda p: in_temp(p) or in_head(p) or (fell and in_alt(p))) if new_temp is None else \
                (lambda p: inside(p, new_temp) or (fell and not new_temp and in_alt(p)))
            # a head directory that does not exist yet is created by the Filer itself (makedirs): allowed; deleting a head
            # directory that was there before is not (the strict tests above)
            if step is not None and step[0] == "remake":
                # a direct remake() may fall back to the alternative head as well; the path it returns is not the Filer's .path
                _base_ok = ok_new
                ok_new = lambda p, _f=_base_ok: _f(p) or in_alt(p)
                fell = True
            made_head = {e for e in created if e[1] == "d" and (e[0] == head[:len(e[0])] or (fell and e[0] == alth[:len(e[0])]))}      # the head and its missing ancestors
            if any(not ok_new(p) for p, _ in created - made_head):
                out.append((i, "created-outside-head", old_temp, path))
            if any(not (inside(p, old_temp) or ok_new(p) or (was_alt and in_alt(p)) or (path is not None and p[:len(path)] == path)) for p, _ in deleted):
                out.append((i, "deleted-outside-head", old_temp, path))
            newpath = res[1] if res[0] == "ok" and res[1] is not None else path
            own = [q for q in (path, newpath) if q is not None]
            if any(e in init for e in deleted if not any(e[0][:len(q)] == q for q in own)):
                # something that was there before the Filer existed, and is not below its own (old or new) path, is gone
                out.append((i, "removed-foreign-entry", old_temp, path))
            if step is not None and step[0] == "doer" and is_open and path is not None and in_temp(path) and any(p == path for p, _ in cur) \
                    and res[0] == "ok" and res[1] is not None and res[1] != path:
                # a doer run on an OPEN filer moved it to another place and left the temporary path it had before behind:
                # nothing will ever remove it ("temp resources are removed" holds for EVERY temp path the filer made)
                out.append((i, "doer-abandoned-temp-path", old_temp, path))
            if step is not None and step[0] == "exists" and (created or deleted):
                out.append((i, "query-changed-filesystem", old_temp, path))
            if res[0] == "raise" and res[1] not in ("FilerError", "OSError", "TypeError"):
                out.append((i, "unexpected-exception-" + res[1], old_temp, path))
            if i == 0 and res[0] == "raise" and (created or deleted):
                out.append((i, "rejected-constructor-touched-filesystem", old_temp, path))
            if step is not None and step[0] == "close" and res[0] == "ok":
                if step[1]:
                    if path is not None and any(p == path for p, _ in cur):
                        out.append((i, "clear-left-path", old_temp, path))
                    if path is not None and any(not (p[:len(path)] == path or (in_temp(path) and p[:len(tmph) + 1] == path[:len(tmph) + 1]))
                                                for p, _ in deleted):
                        out.append((i, "clear-removed-outside-path", old_temp, path))
                    if path is not None and in_temp(path) and any(p[:len(tmph) + 1] == path[:len(tmph) + 1] for p, _ in cur):
                        out.append((i, "temp-not-removed", old_temp, path))     # the temporary directory this path lives in is still there
                elif deleted:
                    out.append((i, "close-without-clear-deleted", old_temp, path))
            if res[0] == "ok" and res[1] is not None:
                path = res[1]
            if res[0] == "ok":
                is_open = step is None or step[0] == "reopen" or (step[0] in ("exists", "set", "remake") and is_open)
            elif step is None or step[0] in ("reopen", "close", "doer"):
                is_open = False          # (a failed set / remake() / exists() leaves the filer as it was)
            if new_temp is not None:
                cur_temp = new_temp
            elif step is not None and step[0] == "remake":
                pass                # the Filer's own setting is not touched by a direct remake()
            elif step is not None and step[0] == "doer" and res[0] == "ok" and res[1] is not None:
                cur_temp = cur_temp if was_open or not (len(step) >= 3 and step[2]) else True      # the doer takes the injected temp over iff it has to open the filer
            prev = cur
        return out

    def oracle(self, case, obs):
        return sorted({c for _, c, _, _ in self._stage_clauses(case, obs)})

    def known(self, case, obs, clauses):
        n = len(P.TEMPSEGS)
        det = self._stage_clauses(case, obs)
        ids = set()
        for i, cl, old_temp, path in det:
            res, snap = obs[1 + i]
            if cl == "temp-not-removed":
                left = [(p, k) for p, k in snap if p[:n + 1] == path[:n + 1]]
                # exactly the defect: only (empty) directories of the current temp tree are left, the path itself is gone
                if left and all(k == "d" for _, k in left) and all(p != path for p, _ in left):
                    ids.add("C29-K1")
                    continue
                if not old_temp:
                    # a temp path kept by reopen(temp=False, reuse=True): cleared like a persistent one
                    ids.add("C29-K2")
                    continue
                return None
            if cl == "deleted-outside-head":
                prev = set(obs[0]) if i == 0 else set(obs[i][1])
                gone = prev - set(snap)
                hd = P.tok_resolved(self._head_tok(case))
                if not all((len(p) > len(hd) and p[:len(hd)] == hd) or (len(p) > n and p[:n] == P.TEMPSEGS and p[n].startswith(b"TMP")) for p, _ in gone):
                    return None          # really outside both heads: never a known finding
            if cl in ("clear-removed-outside-path", "removed-foreign-entry", "deleted-outside-head", "close-without-clear-deleted"):
                # the temp SETTING and the kind of path disagree because an earlier reopen(reuse=True, temp=...) kept the
                # old path while taking over the new setting; the clear of THIS stage then used the wrong rule
                steps = [self._norm(s) for s in case[8]]
                kept_flip = any(s[0] == "reopen" and s[2] and s[4] is not None for s in steps[:max(i - 1, 0)])
                failed_flip = any(s[0] == "reopen" and s[4] is not None and obs[2 + j][0][0] == "raise"
                                  for j, s in enumerate(steps[:max(i - 1, 0)]) if 2 + j < len(obs))
                hd = P.tok_resolved(self._head_tok(case))
                al = P.tok_resolved(self._hp(case)[2])
                persistent = path is not None and (path[:len(hd)] == hd or path[:len(al)] == al) and not (len(path) > n and path[:n] == P.TEMPSEGS)
                if kept_flip and old_temp and persistent:
                    ids.add("C29-K2")
                    continue
                if failed_flip and persistent:      # (which setting is in force after the failed call is exactly what is wrong)
                    ids.add("C29-K3")
                    continue
                return None
            return None
        if len(ids) == 1:
            return ids.pop()
        if ids and ids <= {"C29-K1", "C29-K2", "C29-K3"}:
            return sorted(ids - {"C29-K1"})[0]
        return None

    def nontrivial(self, case, obs):
        if len(obs) < 2 or obs[1][0][0] != "ok":
            return False
        return any(set(s) != set(obs[0]) for _, s in obs[1:])

    def features(self, case, obs):
        name, base, temp, clean, filed, ext, fext, pre, steps = case[:9]
        f = [f"flags:t{int(temp)}c{int(clean)}f{int(filed)}e{int(ext)}", f"init:{obs[1][0][0] if len(obs) > 1 else 'none'}" + (":" + obs[1][0][1] if len(obs) > 1 and obs[1][0][0] == "raise" else "")]
        name, base = _nstr(name) or "", _nstr(base) or ""
        if _nstr(case[0]) is None or _nstr(case[1]) is None:
            f.append("arg-not-pathlike")
        if isinstance(case[0], tuple) or isinstance(case[1], tuple):
            f.append("arg-pathlib")
        segs = name.split("/") + (base.split("/") if base else [])
        if ".." in segs:
            f.append("has-dotdot")
        if any(s in (".", "") for s in name.split("/")):
            f.append("has-dot-or-empty")
        if pre:
            f.append("pre-populated")
        if any(k in ("lf", "ld") for _, k in pre):
            f.append("symlink-at-path")
        if "~" in name or "~" in base:
            f.append("has-tilde")
        f.append("entry:" + ("ctor" if self._entry(case) is None else "openFiler"))
        if len(case) > 10 and case[10] is not None:
            hp = self._hp(case)
            f.append("head-param:" + ("None" if hp[0] is None else "abs" if hp[0].startswith("@") else "tilde" if hp[0].startswith("~") else "empty" if hp[0] == "" else "relative"))
            f.append("alt-attr:" + ("abs" if hp[2].startswith("@") else "tilde" if hp[2].startswith("~") else "relative"))
            if hp[3]:
                f.append("head-blocked:" + hp[3])
            if hp[4]:
                f.append("no-TempHeadDir")
            if len(obs) > 1 and obs[1][0][0] == "ok" and obs[1][0][1] is not None:
                al = P.tok_resolved(hp[2])
                if obs[1][0][1][:len(al)] == al:
                    f.append("fell-back-to-alt-head")
        f.append(f"steps:{len(steps)}")
        for s in steps:
            s = self._norm(s)
            if s[0] in ("set", "remake"):
                f.append("step:" + s[0] + (":" + s[1] if s[0] == "set" else ""))
                continue
            f.append("step:" + s[0] + ("+clear" if len(s) > 1 and s[1] else "") + ("+temp=" + str(s[4]) if s[0] == "reopen" and s[4] is not None else "") + (f"+{s[1]}-temp={s[2]}" if s[0] == "doer" and len(s) >= 3 and s[2] is not None else "")
                     + ("+fext" if s[0] == "reopen" and s[5] is not None else ""))
        return f

    def shrink(self, case):
        extra = tuple(case[9:])
        if extra and extra[0] is not None:
            yield tuple(case[:9]) + (None,)
        for c in self._shrink9(case):
            yield tuple(c[:9]) + extra

    def _shrink9(self, case):
        name, base, temp, clean, filed, ext, fext, pre, steps = case[:9]
        for i in range(len(steps)):
            yield (name, base, temp, clean, filed, ext, fext, pre, steps[:i] + steps[i + 1:])
        for i in range(len(pre) - 1, -1, -1):
            yield (name, base, temp, clean, filed, ext, fext, pre[:i] + pre[i + 1:], steps)
        if base:
            yield (name, "", temp, clean, filed, ext, fext, pre, steps)
        if not isinstance(name, str):
            if _nstr(name) is not None:
                yield (_nstr(name), base, temp, clean, filed, ext, fext, pre, steps)
            return
        segs = name.split("/")
        for i in range(len(segs)):
            if len(segs) > 1:
                yield ("/".join(segs[:i] + segs[i + 1:]), base, temp, clean, filed, ext, fext, pre, steps)
        for flag in (3, 4, 5):
            if case[flag]:
                c = list(case)
                c[flag] = False
                yield tuple(c)
        if fext != "text":
            yield (name, base, temp, clean, filed, ext, "text", pre, steps)

    def mutate(self, rng, case):
        out = list(self.shrink(case))
        name, base, temp, clean, filed, ext, fext, pre, steps = case[:9]
        out.append(tuple(case[:9]) + (('ctx', True),))
        for t in (False, True):
            for fl in (False, True):
                for e in (False, True):
                    out.append((name, base, t, clean, fl, e, fext, [] if t else pre, [("close", True)]))
        return out


CHECK = C29()
