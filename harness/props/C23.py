"""C23 — Durq / Dusq behave as FIFO queue / insertion-ordered set with FIFO pull, mirror durably, survive reopen."""
import itertools

from .. import core, sx
from ..areas import store as st
from ..extract import store as xstore

KEYSETS = [(b"q",), (b"q", b"r"), (b"a", b"a_b"), (b"a", b"ab"), (b"a", b"a.b")]


def reference(kind, nq, ops, vs):
    """FIFO queue / insertion-ordered set over the actual Python values (== decides membership).
    Per op: (expected result or ANY, expected content of every queue as lists of values, rejected?).
    An operation whose argument is not a RegDom value (index < 0) is REJECTED: push(None) answers False, a foreign
    object anywhere in a batch / as push or remove argument raises HierError, count answers 0 - and nothing changes."""
    ANY = reference.ANY
    qs = [[] for _ in range(nq)]
    out = []
    for op in ops:
        name = op[0]
        exp = ANY
        rejected = False
        args = [op[2]] if name in ("push", "remove", "count") else list(op[2]) if name == "extend" else []
        if any(i < 0 for i in args):
            rejected = True
            if name == "push" and op[2] == -1:
                exp = False
            elif name == "count":
                exp = 0
            else:
                exp = ("raise", "HierError")
        elif name == "reopen":
            # fresh or PRELOADED objects are injected: a non-empty durable copy wins, an empty one takes the preload
            exp = True
            if len(op) > 1:
                for q, pre in zip(qs, op[1]):
                    if pre == "keep":
                        continue           # the same object goes into the new Hold: nothing changes
                    if not q and pre:
                        for i in pre:
                            if kind == "durq" or vs[i] not in q:
                                q.append(vs[i])
        elif name == "scribble":
            exp = None                      # what the caller does with ITS objects afterwards changes nothing
        elif name == "sync":
            exp = True if op[2] else None     # a live queue is in sync: only a forced sync does anything (and changes nothing)
        else:
            q = qs[op[1]]
            if name == "push":
                if kind == "durq" or vs[op[2]] not in q:
                    q.append(vs[op[2]])
                exp = True
            elif name in ("pull", "pullx"):
                if q:
                    exp = q.pop(0)
                else:
                    exp = None if name == "pull" else ("raise", "IndexError")
            elif name == "extend":
                new = [vs[i] for i in op[2]]
                if kind == "durq":
                    q.extend(new)
                    exp = bool(new)
                else:
                    n0 = len(q)
                    for v in new:
                        if v not in q:
                            q.append(v)
                    exp = len(q) > n0
            elif name == "clear":
                exp = bool(q)
                del q[:]
            elif name == "remove":
                v = vs[op[2]]
                if v in q:
                    q.remove(v)
                    exp = True
                else:
                    exp = ANY      # docstring says both "False" and "raises KeyError"
            elif name == "count":
                exp = sum(1 for x in q if x == vs[op[2]])
        out.append((exp, [list(q) for q in qs], rejected))
    return out


reference.ANY = object()


class C23(core.Check):
    pid = "C23"
    pkg = "Store"
    props_mod = "HioModel.Props.C23"
    design_ref = "DESIGN.md §5 C23, §7 F37 F38"
    technique = ("Lean 4 model of Durq/Dusq (in-memory list + the lmdb/IoSuber/IoSetSuber model of C24 underneath, Hold.inject/sync on reopen); "
                 "refinement to FIFO queue / ordered set, durable-mirror invariant, reopen theorem; differential run on real lmdb with reopen at every gap")
    level_text = ""
    level_note = ""
    quick_n = 400
    thorough_n = 6000
    rule = ("kinds wdurq|wdusq run the same histories over the WebDuror backend (scripted in-memory pyscript.storage; sessions end by aclose / flush+close / close); values include field-less marker doms and, oracle-only, falsy doms (expected to behave like any value); "
            "case = (durq|dusq, 1-2 queue keys held in one Hold over one Subery, <= 30 ops push/pull/pull(emptive=False)/extend|update/clear/remove/count/reopen "
            "over 5 values with duplicates (plus, rarely, the ==-equal values Bag(1)/Bag(1.0)/Bag(True)), and REJECTED calls: None / a str / an int as push, remove, count argument or at any position of an extend|update batch (the adapter records the HierError and continues); reopen = close the lmdb env, open it again, new Hold, "
            "fresh OR PRELOADED queue objects - Durq(vals)/Dusq(vals) with the same / permuted / same-length / shorter / longer content than the durable copy - or the SAME objects re-injected ('keep'), via every argument form of Hold(...) / Hold.update(...) / hold[k]= (dict, list of pairs, zip, generator, iterator, **kwa, mixed, tuple keys; form chosen by history length and reopen count), on a new or the same re-opened Subery; sync(force) on live queues; fresh equal value objects per call, Dusq arguments (push, update with deep default/True/False, constructor preload) and results scribbled on immediately and again by 'scribble' ops later; Durq + scribble = oracle-only witnesses of known finding C23-K2; sibling sub-db sentinel). After every op list(queue) and the durable list at the key are observed for every queue. "
            "non-trivial = at least one reopen with a non-empty queue and >= 3 mutating ops; distinct by request line")
    trusted_base = ["lmdb modelled as a sorted association list (exercised by the correspondence on real lmdb, including close/reopen of the environment)",
                    "translator harness/extract/store.py (suffix constants)",
                    "correspondence harness/props/C23.py: compiled model driver vs Durq/Dusq/Hold/Subery on the same histories",
                    "values are abstracted to (==-class, serialisation): RegDom json round trip and dataclass ==/hash are outside the model"]
    assumptions = ["lmdb commits are durable across env.close()/lmdb.open() in one process (no crash inside a transaction is modelled: reopen happens between operations)",
                   "deserialisation is the inverse of serialisation on the value table"]

    def extract(self):
        return xstore.extract()

    def witnesses(self):
        """replays of known finding C23-K1 (theorem dusq_mirror_fails_without_guard); appended at the END of the generated cases"""
        q = (b"q",)
        return [
            ("dusq", q, [("push", 0, 1), ("push", 0, 5), ("reopen",), ("pull", 0), ("pull", 0)]),
            ("dusq", q, [("push", 0, 1), ("push", 0, 5), ("push", 0, 6), ("reopen",), ("pull", 0), ("pull", 0)]),
            ("dusq", q, [("extend", 0, [1, 5, 2]), ("remove", 0, 5), ("reopen",)]),
            # K2: Durq and caller-side mutation of handed-over objects (push, extend, constructor preload)
            ("durq", q, [("push", 0, 1), ("scribble", 0)]),
            ("durq", q, [("extend", 0, [0, 3, 1]), ("scribble", 0), ("pull", 0), ("reopen",), ("pull", 0)]),
            ("durq", q, [("reopen", [[0, 1]]), ("scribble", 0), ("pull", 0)]),
        ]

    def corpus(self):
        q = (b"q",)
        return [
            # F37 regression: remove of present / absent values, then reopen
            ("dusq", q, [("push", 0, 1), ("remove", 0, 1), ("remove", 0, 1), ("push", 0, 2), ("push", 0, 0), ("remove", 0, 2), ("reopen",), ("pull", 0)]),
            ("durq", q, [("push", 0, 1), ("push", 0, 1), ("extend", 0, [2, 3, 1]), ("reopen",), ("pull", 0), ("reopen",), ("pull", 0), ("clear", 0), ("clear", 0),
                         ("reopen",), ("pullx", 0), ("pull", 0), ("extend", 0, []), ("count", 0, 1)]),
            ("dusq", (b"a", b"a_b"), [("extend", 0, [0, 1, 1, 2]), ("push", 1, 1), ("pull", 0), ("reopen",), ("push", 0, 0), ("push", 0, 1), ("clear", 1), ("reopen",), ("pullx", 1)]),
            ("durq", (b"a", b"a.b"), [("push", 0, 0), ("push", 1, 1), ("push", 0, 2), ("reopen",), ("pull", 0), ("pull", 1), ("pull", 0), ("pull", 0)]),
            # partial-duplicate update, update of only known values, reopen of an emptied queue
            ("dusq", q, [("extend", 0, [0, 1]), ("extend", 0, [1, 2, 0, 3]), ("extend", 0, [3, 3]), ("reopen",), ("pull", 0), ("pull", 0), ("pull", 0), ("pull", 0), ("reopen",), ("pull", 0)]),
            # reopen with PRELOADED objects: same length different content, permuted, shorter, longer, same; empty durable copy takes the preload
            ("durq", q, [("extend", 0, [0, 1, 2]), ("pull", 0), ("push", 0, 0), ("reopen", [[0, 1, 2]]), ("pull", 0), ("reopen", [[0, 2, 1]]), ("pull", 0),
                         ("reopen", [[4]]), ("reopen", [[4, 4, 4, 4]]), ("pull", 0), ("pull", 0), ("reopen", [[3, 3, 1]]), ("pull", 0), ("sync", 0, True), ("sync", 0, False), ("reopen", [None]), ("pull", 0)]),
            ("dusq", q, [("extend", 0, [0, 1, 2]), ("pull", 0), ("push", 0, 0), ("reopen", [[0, 1, 2]]), ("pull", 0), ("reopen", [[0, 2]]), ("sync", 0, True), ("pull", 0),
                         ("pull", 0), ("reopen", [[3, 3, 1, 3]]), ("sync", 0, False), ("pull", 0), ("reopen", [[]]), ("pull", 0)]),
            ("durq", (b"a", b"a_b"), [("push", 0, 0), ("push", 1, 1), ("pull", 0), ("push", 0, 2), ("reopen", [[0], [2]]), ("pull", 0), ("pull", 1), ("reopen", [[1, 1], None]), ("pull", 0)]),
            # the SAME queue objects re-injected after reopen (even reopens re-open the same Subery object), ops before and after
            ("durq", (b"q", b"r"), [("push", 0, 0), ("push", 1, 1), ("reopen", ["keep", "keep"]), ("push", 0, 2), ("pull", 1), ("reopen", ["keep", [3]]), ("pull", 0), ("push", 1, 0),
                                    ("reopen", [None, "keep"]), ("pull", 0), ("pull", 1), ("reopen", ["keep", "keep"]), ("pull", 0), ("pull", 1)]),
            ("dusq", q, [("extend", 0, [0, 1]), ("reopen", ["keep"]), ("push", 0, 1), ("push", 0, 2), ("reopen", ["keep"]), ("remove", 0, 0), ("sync", 0, True), ("reopen", [None]), ("pull", 0)]),
            # Dusq copies whatever it is handed (constructor preload, push, update with either `deep` flag) and whatever it hands out:
            # the caller mutating its own objects later changes nothing
            ("dusq", q, [("reopen", [[0, 1, 2]]), ("scribble", 0), ("push", 0, 0), ("extend", 0, [4, 1]), ("extend", 0, [2, 4]), ("extend", 0, [0]), ("scribble", 0), ("remove", 0, 1), ("pull", 0),
                         ("reopen", [[4, 4]]), ("scribble", 0), ("pull", 0), ("pull", 0), ("pull", 0), ("reopen", [[1, 0]]), ("scribble", 0), ("push", 0, 1), ("pull", 0)]),
            # field-less marker doms and an empty-string value next to other members: remove one, the others stay (mutable and frozen)
            ("dusq", q, [("extend", 0, [7, 0, 8, 9, 1]), ("remove", 0, 7), ("remove", 0, 9), ("reopen",), ("remove", 0, 8), ("pull", 0), ("reopen",), ("pull", 0), ("pull", 0)]),
            ("durq", q, [("extend", 0, [7, 7, 8, 9]), ("count", 0, 7), ("pull", 0), ("reopen",), ("pull", 0), ("pull", 0), ("pull", 0), ("reopen",)]),
            # the WebDuror backend: sessions that DRAIN a whole sub-db (last pull / remove / clear) before the store is closed and reopened
            ("wdurq", q, [("push", 0, 0), ("reopen",), ("pull", 0), ("reopen",), ("pull", 0), ("push", 0, 1), ("push", 0, 2), ("clear", 0), ("reopen",), ("pull", 0)]),
            ("wdusq", q, [("extend", 0, [0, 1]), ("reopen",), ("remove", 0, 0), ("remove", 0, 1), ("reopen",), ("pull", 0), ("push", 0, 2), ("pull", 0), ("reopen",), ("reopen",), ("pull", 0)]),
            ("wdurq", (b"q", b"r"), [("push", 0, 0), ("push", 1, 1), ("reopen",), ("pull", 0), ("pull", 1), ("reopen", [[2], None]), ("pull", 0), ("pull", 1), ("reopen",), ("pull", 0)]),
            ("wdusq", (b"a", b"a.b"), [("extend", 0, [0, 1, 2]), ("push", 1, 3), ("reopen", ["keep", "keep"]), ("clear", 0), ("pull", 1), ("reopen",), ("pull", 0), ("pull", 1)]),
            # doms that are FALSY (class defines __bool__ / __len__) are values like any other (regression of C23-K3, fixed da684ac)
            ("dusq", q, [("extend", 0, [1, 10, 2]), ("remove", 0, 10), ("reopen",), ("pull", 0)]),
            ("dusq", q, [("push", 0, 11), ("push", 0, 0), ("remove", 0, 11), ("pull", 0), ("reopen",)]),
            ("wdusq", q, [("extend", 0, [0, 10]), ("remove", 0, 10), ("reopen",), ("pull", 0)]),
            ("durq", q, [("extend", 0, [10, 11, 10]), ("count", 0, 10), ("pull", 0), ("reopen",), ("pull", 0)]),
            # REJECTED operations (argument None / a foreign object at every position of a batch): no effect, history goes on
            ("durq", q, [("push", 0, 0), ("extend", 0, [1, -1]), ("extend", 0, [1, 2, -2, 0]), ("extend", 0, [-3, 1]), ("push", 0, -1), ("push", 0, -2),
                         ("count", 0, -1), ("pull", 0), ("reopen",), ("pull", 0), ("extend", 0, [1, -1, 2]), ("reopen",), ("pull", 0)]),
            ("dusq", q, [("push", 0, 0), ("extend", 0, [1, -1]), ("extend", 0, [2, 1, -2]), ("extend", 0, [-1, 2]), ("push", 0, -3), ("push", 0, -1),
                         ("remove", 0, -1), ("remove", 0, -2), ("pull", 0), ("reopen",), ("pull", 0), ("extend", 0, [1, 2, -3]), ("reopen",), ("pull", 0)]),
            ("durq", (b"a", b"a_b"), [("extend", 0, [0, 1]), ("extend", 1, [2, -1, 0]), ("extend", 0, [2, 2, 2, -2]), ("reopen",), ("pull", 1), ("pull", 0)]),
            # more than 16 values: ordinal carry, pulls from the front, reopen
            ("durq", q, [("extend", 0, [0, 1, 2, 3, 4])] * 4 + [("pull", 0), ("reopen",), ("pull", 0), ("push", 0, 0), ("reopen",), ("count", 0, 0)]),
        ]

    def exhaustive(self, tier):
        if tier != "thorough":
            return [], None
        out = []
        for kind in ("durq", "dusq"):
            alpha = [("push", 0, 0), ("push", 0, 1), ("pull", 0), ("extend", 0, [1, 0, 1]), ("extend", 0, [1, -1, 0]), ("clear", 0), ("reopen",)]
            if kind == "dusq":
                alpha += [("remove", 0, 0), ("remove", 0, 1)]
            for n in (1, 2, 3, 4):
                for h in itertools.product(alpha, repeat=n):
                    out.append((kind, (b"q",), list(h)))
        for kind in ("durq", "dusq"):
            alpha = [("push", 0, 0), ("push", 0, 1), ("pull", 0), ("reopen",), ("reopen", [[0, 1]]), ("reopen", [[1]]), ("reopen", ["keep"]), ("sync", 0, True)]
            for n in (1, 2, 3, 4):
                for h in itertools.product(alpha, repeat=n):
                    out.append((kind, (b"q",), list(h)))
        for kind in ("wdurq", "wdusq"):
            alpha = [("push", 0, 0), ("push", 0, 1), ("pull", 0), ("clear", 0), ("reopen",), ("reopen", [[1]])] + ([("remove", 0, 0)] if kind == "wdusq" else [])
            for n in (1, 2, 3, 4):
                for h in itertools.product(alpha, repeat=n):
                    out.append((kind, (b"q",), list(h)))
        return out, "WebDuror backend: every history of <= 4 ops from {push v0, push v1, pull, clear, reopen, reopen preloaded [v1] (+ remove v0)}; lmdb: every history of <= 4 ops from {push v0, push v1, pull, reopen fresh, reopen preloaded [v0,v1], reopen preloaded [v1], reopen with the same object, sync(force)} and every history of <= 4 ops from {push v0, push v1, pull, extend [v1,v0,v1], extend [v1,None,v0] (rejected), clear, reopen (+ remove v0, remove v1 for dusq)} on one queue"

    def generate(self, rng, n, tier):
        for case in self._generate(rng, n, tier):
            yield case
        for case in self.witnesses():
            yield case

    def _generate(self, rng, n, tier):
        for _ in range(n):
            kind = rng.choice(["durq", "dusq", "dusq"])
            if rng.random() < 0.3:
                kind = "w" + kind                 # the WebDuror backend
            keys = rng.choice(KEYSETS)
            r0 = rng.random()
            dom = st.CLEAN[:rng.choice([2, 3, 5])] if r0 < 0.78 else st.MARKERS[:rng.choice([3, 5])] if r0 < 0.92 else (1, 5, 6, 0) if r0 < 0.98 else (1, 10, 11, 7)
            nops = rng.choice([3, 6, 10, 15, 20, 30])
            preop = rng.choice([0.1, 0.3, 0.5])
            pbad = rng.choice([0.0, 0.1, 0.25])
            ppre = rng.choice([0.0, 0.5, 0.9])
            ops = []
            for _ in range(nops):
                if rng.random() < preop:
                    if rng.random() < ppre:
                        cur = [c for _, c, _ in reference(kind, len(keys), ops, list(range(st.NVALS)))][-1] if ops else [[] for _ in keys]
                        pres = []
                        for c in cur:          # c: current content as value indices (the reference runs on indices here)
                            m = rng.choice(["none", "keep", "keep", "same", "perm", "samelen", "shorter", "longer", "other"])
                            if m == "none":
                                pres.append(None)
                            elif m == "keep":
                                pres.append("keep")
                            elif m == "same":
                                pres.append(list(c))
                            elif m == "perm":
                                pres.append(list(reversed(c)))
                            elif m == "samelen":
                                pres.append([rng.choice(dom) for _ in c])
                            elif m == "shorter":
                                pres.append(list(c[:-1]))
                            elif m == "longer":
                                pres.append(list(c) + [rng.choice(dom)])
                            else:
                                pres.append([rng.choice(dom) for _ in range(rng.choice([1, 2, 3]))])
                        ops.append(("reopen", pres))
                    else:
                        ops.append(("reopen",))
                if rng.random() < 0.04:
                    ops.append(("sync", rng.randrange(len(keys)), rng.random() < 0.6))
                qi = rng.randrange(len(keys))
                v = rng.choice(dom)
                names = ["push"] * 5 + ["pull"] * 3 + ["pullx", "extend", "extend", "clear"]
                names += ["remove", "remove", "scribble"] if kind.endswith("dusq") else ["count"]
                name = rng.choice(names)
                bad = rng.random() < pbad
                if name in ("push", "remove", "count"):
                    ops.append((name, qi, rng.choice([-1, -2, -3]) if bad else v))
                elif name == "scribble":
                    ops.append((name, qi))
                elif name == "extend":
                    batch = [rng.choice(dom) for _ in range(rng.choice([0, 1, 2, 3, 4]))]
                    if bad:          # an invalid element at a random position of the batch (first, middle, last)
                        batch.insert(rng.randrange(len(batch) + 1), rng.choice([-1, -2, -3]))
                        if rng.random() < 0.3:
                            batch.insert(rng.randrange(len(batch) + 1), rng.choice([-1, -2]))
                    ops.append((name, qi, batch))
                else:
                    ops.append((name, qi))
            yield (kind, keys, ops[:30])

    @staticmethod
    def used(ops):
        out = set()
        for o in ops:
            if o[0] in ("push", "remove", "count"):
                out.add(o[2])
            elif o[0] == "extend":
                out.update(o[2])
            elif o[0] == "reopen" and len(o) > 1:
                for pre in o[1]:
                    if pre not in (None, "keep"):
                        out.update(pre)
        return out

    def oracle_only(self, case):
        """carried by the oracle alone (the Lean model has values = serialisations: no object identity, no truthiness):
        Durq histories in which the caller mutates handed-over objects (C23-K2), histories with falsy dom values (must behave like any other value; regression of C23-K3)"""
        kind = case[0].lstrip("w")
        return (kind == "durq" and any(o[0] == "scribble" for o in case[2])) or bool(self.used(case[2]) & set(st.FALSY))

    def compare_view(self, case, obs):
        return "oracle-only" if self.oracle_only(case) else sx.dumps(obs)

    def request(self, case):
        kind, keys, ops = case
        kind = kind.lstrip("w")          # "wdurq" / "wdusq": same history over the WebDuror backend
        if self.oracle_only(case):
            return ("oracleonly", kind, ("keys",) + tuple(keys), ("ops",) + tuple(tuple(tuple(x) if isinstance(x, list) else x for x in o) for o in ops))
        tab = st.c23_table()

        def val(i):
            if i < 0:
                return "none" if i == -1 else "junk"
            return (tab[i][0], tab[i][1])
        rops = []
        for o in ops:
            if o[0] in ("push", "remove", "count"):
                rops.append((o[0], o[1], val(o[2])))
            elif o[0] == "extend":
                rops.append((o[0], o[1], tuple(val(i) for i in o[2])))
            elif o[0] == "reopen" and len(o) > 1:
                rops.append(("reopen",) + tuple("keep" if pre == "keep" else tuple(val(i) for i in (pre or ())) for pre in o[1]))
            elif o[0] == "sync":
                rops.append((o[0], o[1], bool(o[2])))
            elif o[0] == "scribble":
                rops.append(("sync", o[1], False))     # for the model: an operation that answers None and changes nothing
            else:
                rops.append(tuple(o))
        return (kind, ("keys",) + tuple(keys), ("table",) + tuple(val(i) for i in range(st.NVALS)), ("ops",) + tuple(rops))

    def run_impl(self, case):
        return st.c23_run(case)

    def oracle(self, case, obs):
        kind, keys, ops = case
        kind = kind.lstrip("w")          # "wdurq" / "wdusq": same history over the WebDuror backend
        vs = st._vals()
        ANY = reference.ANY
        bad = []
        if len(obs) != len(ops):
            bad.append("sibling-subdb-changed")
        prev = tuple(((), ()) for _ in keys)
        for (exp, content, rejected), (res, seen), op in zip(reference(kind, len(keys), ops, vs), obs, ops):
            if isinstance(res, tuple) and res[:1] == ("raise",) and exp != res:
                bad.append(f"{op[0]}-raised-{res[1]}")
            elif exp is not ANY:
                e = st.c23_ser(exp) if not (exp is None or isinstance(exp, (bool, int, tuple))) else exp
                if e != res:
                    bad.append(f"{op[0]}-result")
            if rejected and seen != prev:
                bad.append("rejected-op-changed-memory-or-store")
            for want, (mem, dur) in zip(content, seen):
                w = tuple(st.c23_ser(v) for v in want)
                if mem != w:
                    bad.append("reopen-does-not-restore" if op[0] == "reopen" else "memory-content")
                if dur != mem:
                    bad.append("durable-copy-differs-from-memory")
            prev = seen
        return sorted(set(bad))

    def known(self, case, obs, clauses):
        kind, keys, ops = case
        kind = kind.lstrip("w")          # "wdurq" / "wdusq": same history over the WebDuror backend
        if self.oracle_only(case):
            # K2: Durq keeps references to the caller's mutable values (no copy on push / extend / preload / pull / iteration)
            ok = {"durable-copy-differs-from-memory", "memory-content", "pull-result", "pullx-result", "reopen-does-not-restore", "count-result"}
            return "C23-K2" if set(clauses) <= ok else None
        if kind != "dusq":
            return None
        # K1 (F38): two different values of the history are == but serialise differently, and both reach the same set
        tab = st.c23_table()
        per = {}
        for o in ops:
            if o[0] in ("push", "remove"):
                per.setdefault(o[1], set()).add(max(o[2], 0))
            elif o[0] == "extend":
                per.setdefault(o[1], set()).update(i for i in o[2] if i >= 0)
            elif o[0] == "reopen" and len(o) > 1:
                for qi, pre in enumerate(o[1]):
                    per.setdefault(qi, set()).update(() if pre == "keep" else (pre or ()))
        for used in per.values():
            if any(a != b and tab[a][0] == tab[b][0] and tab[a][1] != tab[b][1] for a in used for b in used):
                return "C23-K1"
        return None

    def nontrivial(self, case, obs):
        kind, keys, ops = case
        kind = kind.lstrip("w")          # "wdurq" / "wdusq": same history over the WebDuror backend
        mut = sum(1 for o in ops if o[0] in ("push", "pull", "pullx", "extend", "clear", "remove"))
        ro = any(o[0] == "reopen" and any(m for m, _ in s[1]) for o, s in zip(ops, obs))
        return mut >= 3 and ro

    def features(self, case, obs):
        kind, keys, ops = case
        backend = "backend:web" if kind.startswith("w") else "backend:lmdb"
        kind = kind.lstrip("w")
        f = [kind, backend, f"{kind}:ops~{(len(ops) + 4) // 5 * 5}", f"queues={len(keys)}", f"reopens={min(sum(1 for o in ops if o[0] == 'reopen'), 5)}"]
        f += sorted({f"{kind}:{o[0]}" for o in ops})
        f.append(f"maxlen~{min(max([len(m) for s in obs for m, _ in s[1]] + [0]), 8)}")
        if any(isinstance(s[0], tuple) and s[0][:1] == ("raise",) for s in obs):
            f += sorted({f"raised:{s[0][1]}" for s in obs if isinstance(s[0], tuple) and s[0][:1] == ("raise",)})
        if any(o[0] == "reopen" and any(m for m, _ in s[1]) for o, s in zip(ops, obs)):
            f.append("reopen-with-content")
        return f

    def shrink(self, case):
        kind, keys, ops = case
        kind = kind.lstrip("w")          # "wdurq" / "wdusq": same history over the WebDuror backend
        for i in range(len(ops)):
            yield (kind, keys, ops[:i] + ops[i + 1:])
        for i, o in enumerate(ops):
            if o[0] == "extend" and len(o[2]) > 1:
                for j in range(len(o[2])):
                    yield (kind, keys, ops[:i] + [(o[0], o[1], o[2][:j] + o[2][j + 1:])] + ops[i + 1:])

    def mutate(self, rng, case):
        kind, keys, ops = case
        kind = kind.lstrip("w")          # "wdurq" / "wdusq": same history over the WebDuror backend
        out = list(self.shrink(case))[:30]
        for _ in range(30):
            i = rng.randrange(len(ops) + 1)
            out.append((kind, keys, ops[:i] + [("reopen",)] + ops[i:] + [("pull", 0), ("reopen",)]))
        return out


C23.level_text = (
    "Lean theorems, all unbounded: hold_refines (ONE refinement theorem for a Hold with several queues of one kind in one store: every history of push/pull/extend|update/clear/remove/count addressed to any "
    "key WITH reopen - close, open, inject fresh objects at every key, sync - at arbitrary positions: after every step result, in-memory content and durable content of EVERY queue are those of independent "
    "FIFO queues / insertion-ordered sets, i.e. durable mirror, reopen restores and key independence in one statement), durq_refines_fifo / dusq_refines_oset_partial (single queue), durable_mirror, "
    "reopen_restores, no_mismatch_error, spec_other_queue_unchanged, dusq_content_nodup; rejected calls (None / foreign object as argument or at any position of a batch) are part of the history language of hold_refines (MOp.a + validate): rejected_op_is_identity (store, addressed queue and all other queues unchanged, result False / HierError / 0), rejected_iff_bad_argument; reopen injects objects built from ANY preload (Durq(vals)/Dusq(vals); fresh = empty preload) and sync(force) is an operation: syncBody models what the code does (non-empty durable copy wins, an empty one is overwritten by pinning the preload; the SAME object re-injected is left alone), reopen_restores and spec_reopen_any_preload hold for every preload at every position. Dusq theorems are _partial under '== coincides with equality of serialisations' (F38; witness "
    "dusq_mirror_fails_without_guard, known finding C23-K1); all under the exact key guard of C24 at the queue keys. F37 (Dusq.remove always raised) is fixed. "
    "Tied to the code by a differential run on real lmdb AND on the WebDuror backend (scripted pyscript.storage) with reopen at every gap and 1-2 queues per Hold; oracle-only: Durq + caller-side mutation (C23-K2), falsy dom values (regression of the repaired C23-K3).")
C23.level_note = ("Trusted: Lean kernel + propext/Classical.choice/Quot.sound; the sorted-list model of lmdb and of env close/open; the abstraction of values to (==-class, serialisation). "
                  "Crash inside a transaction is not modelled (the property quantifies over reopen between operations).")

CHECK = C23()
