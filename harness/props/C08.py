"""C08 — timers measure elapsed tyme exactly and restart losslessly (hio.base.tyming.Tymer, hio.help.timing.MonoTimer)."""
from .. import core, sx
from ..areas import timer as T
from ..extract import timer as xt


# ---- raw-float Tymer stream (oracle only) ------------------------------------------------------------------
# The property is about floats as the library computes them: elapsed = now - start, remaining = stop - now,
# expired exactly when now >= stop, restart begins at the previous stop.  The Int-time model cannot speak about
# rounding, so these cases go to the real code and the oracle only.

def gen_ftymer(rng):
    vals = [0.1, 0.3, 0.7, 1.1, 4.23, 50.0, 0.05, 2.5, 1e-3, 123.456, 1 / 3, 0.2]
    pick = lambda: rng.choice(vals) * rng.choice([1, 1, 3, 7, 0.1])
    tyme0, dur = rng.choice([0.0, pick()]), pick()
    ops, start, stop, tyme = [], tyme0, tyme0 + dur, tyme0
    for _ in range(rng.randrange(1, 10)):
        k = rng.random()
        if k < 0.45:   # aim at the deadline and its float neighbours
            import math
            t = rng.choice([stop, math.nextafter(stop, 0.0), math.nextafter(stop, 1e9), start + (stop - start), tyme + pick()])
            ops.append(("tyme", t)); tyme = t
        elif k < 0.6:
            ops.append(("tick",))
        elif k < 0.8:
            d = rng.choice([None, pick()])
            ops.append(("restart", d)); start, stop = stop, stop + (d if d is not None else stop - start)
        else:
            d, st = rng.choice([None, pick()]), rng.choice([None, None, pick()])
            ops.append(("start", d, st)); dd = d if d is not None else stop - start
            start = st if st is not None else tyme; stop = start + dd
    return ("ftymer", tyme0, dur, tuple(ops))


def run_ftymer(case):
    from hio.base import tyming
    _, tyme0, dur, ops = case
    tymist = tyming.Tymist(tyme=tyme0, tock=0.03125)
    tymer = tyming.Tymer(tymth=tymist.tymen(), duration=dur)
    obs = [(sx.F(tymer.elapsed), sx.F(tymer.remaining), tymer.expired, sx.F(tymist.tyme))]
    for op in ops:
        if op[0] == "tyme":
            tymist.tyme = op[1]
        elif op[0] == "tick":
            tymist.tick()
        elif op[0] == "restart":
            tymer.restart(duration=op[1])
        elif op[0] == "start":
            tymer.start(duration=op[1], start=op[2])
        obs.append((sx.F(tymer.elapsed), sx.F(tymer.remaining), tymer.expired, sx.F(tymist.tyme)))
    return tuple(obs)


def oracle_ftymer(case, obs):
    _, tyme0, dur, ops = case
    start, stop = float(tyme0), float(tyme0) + float(dur)
    bad = []

    def chk(o):
        now = o[3].x
        if o[0].x != now - start:
            bad.append("elapsed-not-now-minus-start")
        if o[1].x != stop - now:
            bad.append("remaining-not-stop-minus-now")
        if o[2] != (now >= stop):
            bad.append("expired-not-exactly-now>=stop")
    chk(obs[0])
    for op, o in zip(ops, obs[1:]):
        now = o[3].x
        if op[0] == "restart":
            d = float(op[1]) if op[1] is not None else stop - start
            start, stop = stop, stop + d          # next period begins at the previous stop
        elif op[0] == "start":
            d = float(op[1]) if op[1] is not None else stop - start
            start = float(op[2]) if op[2] is not None else now
            stop = start + d
        chk(o)
    return sorted(set(bad))


class C08(core.Check):
    pid = "C08"
    pkg = "Timer"
    props_mod = "HioModel.Props.C08"
    design_ref = "DESIGN.md §5 C08"
    technique = ("Lean 4 theorems over a model of Tymer and MonoTimer (any op sequence, any clock-reading sequence) + regenerated class defaults "
                 "+ differential run of the compiled model against the real classes under a scripted tymist / scripted time.time()")
    level_text = ("Lean theorems, unconditional, over every linearly ordered commutative ring of time values (Int and Rat instances stated): tymer_reports_exactly (for every pair of tymists, constructor call and EVERY sequence of tyme assignments incl. rewinds, ticks, start/restart with or without duration/start, re-winding, each reported start/duration/elapsed/remaining/expired equals the reference timer's now-start, start+duration-now, now>=start+duration; refinement proof), tymer_restart_at_previous_stop, tymer_restarts_lossless (k restarts amid arbitrary tyme changes keep the period grid start0+k*duration), mono_elapsed_never_decreases and mono_expired_never_reverts (every timer state, retro or not, every clock, every reading sequence), mono_measures_exactly (a retro MonoTimer started at the clock, after any readings and restarts, reports elapsed = sum of non-negative increments - k*duration, remaining, expired accordingly), mono_start_forgets_the_past. Model = repaired code (2 fix: commits). Tied to the classes by a differential run on op lists under a scripted tymist / scripted time.time(); class defaults re-extracted on every run. Extension: Timer/AsyncTimer (plain timers, the one Doist.ado paces with) modelled and tied the same way; ptimer_monotone_on_monotone_clock (elapsed/expired monotone exactly when the clock does not go backwards, which the event-loop clock guarantees), ptimer_restart_at_previous_stop, ptimer_restarts_lossless. Rounding: raw-float streams ftymer/fmono are judged by float reference oracles only; open known finding C08-K1 (in doubles MonoTimer.elapsed can drop a few ulp on a retrograde; expired never reverts). Not modelled: the half-assigned state after Tymer.start() raises TypeError on an unwound tymer (trace stops there on both sides). Phase 3: rejected calls raise and change nothing (two more repairs: efaf005, 9dcb362), the trace continues after them; retro toggles, tymist tock assignment, sibling timers, raw-float Timer/AsyncTimer.")
    level_note = ("Trusted: Lean kernel + propext/Classical.choice/Quot.sound; the sampled correspondence (float arithmetic as Int on integers x 2^-10 s); MonoTimer with an explicit start value is covered by the monotonicity theorems and the correspondence only (no exactness claim: the code aliases ._last to the given start, pinned by the tree's test). Theorems over exact ordered rings, not IEEE doubles.")
    quick_n = 3000
    thorough_n = 150000
    rule = ("cases: (tymer ...) two Tymists, a Tymer wound to one/none, op list of tyme assignments (incl. rewinds), ticks, start/restart with and "
            "without duration/start, wind; (mono ...) MonoTimer under a scripted time.time() (steady, stalled, stepped back at every position incl. "
            "inside the constructor and exactly at start()), ops elapsed/remaining/expired/latest/duration/start/restart; (ptimer kind ...) Timer / AsyncTimer (fake event loop) likewise.  All values integers x 2^-10 s; "
            "(ftymer ...), (fmono ...), (fptimer ...) raw non-dyadic floats, oracle only; every op list also carries rejected calls (arguments float() refuses), retro toggles, tymist tock assignments and calls on a sibling timer. "
            "non-trivial = at least 2 ops and (tymer: at least one start/restart/wind; mono: at least one backward clock step or one start/restart). distinct by request line")
    trusted_base = ["translator harness/extract/timer.py (Tymist.Tock, Tymer.Duration, MonoTimer retro default)",
                    "correspondence harness/props/C08.py + harness/areas/timer.py: compiled model driver vs hio.base.tyming.Tymer / hio.help.timing.MonoTimer on the same op lists",
                    "modelled: float arithmetic as Int arithmetic on values that are integers x 2^-10 s (exact in doubles); time.time() as a scripted reading list"]
    assumptions = ["IEEE double +,-,>= are exact on integers x 2^-10 below 2^53 (values used by the correspondence); theorems are over Int",
                   "time.time() is the only clock MonoTimer consults (monkeypatched in the harness process)"]

    def extract(self):
        return xt.extract()

    def corpus(self):
        return [
            # F09 witnesses (fixed by 2e63a16): backward step between the constructor's two readings / before start()
            ("mono", 0, (10, 8, -1), (8, None, True), (("elapsed",),)),
            ("mono", 1024000, (2, -56, 0), (4, None, True), (("expired",),)),
            ("mono", 102400, (0, 0, -51200, 0, 0), (10240, None, True), (("start", None, None), ("elapsed",), ("expired",))),
            ("mono", 40, (0, 0, 113, -47), (63, None, True), (("start", None, None), ("remaining",))),
            # remaining read across a backward step (fixed by 6fc7548)
            ("mono", 5120, (6, -36, -31), (1, None, True), (("remaining",),)),
            ("mono", 0, (0, 0, 7, -32, 0), (32, None, True), (("expired",), ("remaining",), ("remaining",))),
            # restart chain with lateness and a backward step
            ("mono", 0, (0, 0, 50, -20, 5, 30), (10, None, True), (("expired",), ("restart", None), ("elapsed",), ("restart", None), ("remaining",), ("expired",))),
            ("mono", 0, (5, 1, 3), (23, 10, False), (("expired",),)),
            ("mono", 100, (0, 0, -5, 3, 9), (4, None, False), (("elapsed",), ("elapsed",), ("elapsed",))),
            ("tymer", (0, 0, 32, 32), (0, None, None), ()),
            ("ptimer", "async", 0, (0, 0, 9, 1, 5, 20), (10, None), (("expired",), ("expired",), ("restart", None), ("elapsed",), ("expired",))),
            ("ptimer", "timer", 100, (0, 3, 4, -2, 8), (4, None), (("elapsed",), ("elapsed",), ("remaining",))),
            ("tymer", (0, 0, 32, 32), (None, None, None), (("restart", 5), ("wind", 1), ("tick", 1))),
            ("tymer", (10, 7, 1, 1), (0, 5, None), (("tyme", 0, 15), ("restart", None), ("tyme", 0, 3), ("restart", None), ("tyme", 0, 25))),
            ("tymer", (10, 7, 1, 1), (None, 5, None), (("start", None, None), ("tick", 0))),
            # negative durations through every entry point (constructor, start, restart): stop = start + d for every d (C08-r5m2 class)
            ("tymer", (0, 0, 32, 32), (0, -5, None), (("restart", -3), ("start", -7, None), ("restart", None), ("wind", 0), ("start", -1, 4))),
            ("mono", 100, (0, 0, 2, 3, 1), (-4, None, True), (("expired",), ("restart", -6), ("remaining",), ("start", -2, None), ("duration",))),
            ("ptimer", "async", 50, (0, 1, 2, 3, 4), (-3, None), (("expired",), ("restart", -1), ("duration",), ("start", -8, None), ("remaining",))),
            ("ptimer", "timer", 50, (0, 0, 1, 2, 3, 4), (-3, None), (("expired",), ("restart", -1), ("duration",), ("start", -8, None), ("remaining",))),
            # re-winding with the very closure the tymer already holds (kept / read back) begins a fresh period (C08-r3m1 class)
            ("tymer", (0, 0, 512, 32), (0, 2048, None), (("tick", 0), ("tick", 0), ("tick", 0), ("wind", 0), ("tick", 0), ("restart", None), ("windh",), ("windf", 0))),
            # C08-H1 (fixed efaf005): a rejected start() on an unwound tymer must leave it usable
            ("tymer", (5376, 2048, 1024, 1), (None, 0, None), (("start", 0, None),)),
            ("tymer", (15, -9, 1, 32), (None, 15, None), (("start", None, None), ("wind", 1), ("tick", 1), ("restart", None))),
            ("tymer", (0, 0, 32, 32), (0, 5, None), (("bad", "start-dur", 0), ("bad", "start-start", 1), ("bad", "restart-dur", 1), ("tock", 0, 96), ("tick", 0), ("other", "restart"), ("restart", None))),
            # C08-H2 (fixed 9dcb362): a rejected MonoTimer.start() must not read the clock / move _last
            ("mono", 0, (-3, 5, 6, -11, 4), (9, None, True), (("elapsed",), ("bad", "start-dur", 1), ("elapsed",))),
            ("mono", 0, (0, 0, 4, -2, 3, 1), (5, None, True), (("elapsed",), ("retro", False), ("elapsed",), ("retro", True), ("other", "elapsed"), ("elapsed",))),
            # raw-float stream: expired must be tyme >= stop exactly, not elapsed >= duration (rounds differently)
            ("ftymer", 4.23, 50.0, (("tyme", 54.23),)),
            ("ftymer", 0.1, 0.7, (("tyme", 0.8), ("restart", None), ("tyme", 1.5), ("restart", 0.3), ("tyme", 1.8))),
            # raw-float MonoTimer: reading exactly at the float deadline after a retrograde; C08-K1 witness (elapsed drops 1 ulp)
            ("fmono", 0.0, (0.0, 0.1, 0.7, -0.3, 0.3), 0.7, (("expired",), ("remaining",), ("expired",))),
            ("fmono", 0.0, (0.0009, -0.11000000000000001, 1.1, -0.123456, 0.0, 0.06999999999999999, -0.06999999999999995), 1.1,
             (("expired",), ("expired",), ("elapsed",), ("elapsed",), ("elapsed",))),
        ]

    def exhaustive(self, tier):
        if tier != "thorough":
            return [], None
        cs = []
        # every clock script of 5 increments over {-2,0,3} x every 3-op observation word, duration 2: MonoTimer
        import itertools
        words = [(("elapsed",), ("expired",), ("remaining",)), (("expired",), ("restart", None), ("elapsed",)),
                 (("start", None, None), ("elapsed",), ("expired",)), (("remaining",), ("start", None, None), ("remaining",))]
        for incs in itertools.product((-2, 0, 3), repeat=5):
            for w in words:
                cs.append(("mono", 10, tuple(incs), (2, None, True), w))
        return cs, "MonoTimer: all 3^5 clock scripts over increments {-2,0,3} x 4 three-op words, duration 2"

    def generate(self, rng, n, tier):
        for _ in range(n):
            r = rng.random()
            if r < 0.10:
                yield gen_ftymer(rng)
            elif r < 0.24:
                yield T.gen_fmono(rng)
            elif r < 0.34:
                yield T.gen_ptimer(rng)
            elif r < 0.42:
                yield T.gen_fptimer(rng)
            elif r < 0.62:
                yield T.gen_tymer(rng)
            elif r < 0.70:
                yield T.boundary_tymer(rng)
            else:
                yield T.gen_mono(rng)

    def request(self, case):
        if case[0] == "tymer":
            # the model knows one `wind i`; which closure object carries it (kept / fresh / read back) is the adapter's business
            cur, ops = case[2][0], []
            for op in case[3]:
                if op[0] in ("wind", "windf"):
                    cur = op[1]
                    ops.append(("wind", op[1]))
                elif op[0] == "windh":
                    ops.append(("wind", cur) if cur is not None else ("start", None, None))
                else:
                    ops.append(op)
            return case[:3] + (tuple(ops),)
        if case[0] in ("fmono", "fptimer"):
            return T.wrapF(case)
        if case[0] != "ftymer":
            return case
        w = lambda v: sx.F(v) if isinstance(v, float) else (tuple(w(x) for x in v) if isinstance(v, tuple) else v)
        return w(case)

    def model_applies(self, case):
        return case[0] not in ("ftymer", "fmono", "fptimer")      # raw (non-dyadic) floats: oracle only, the model's time is Int

    def run_impl(self, case):
        if case[0] == "ftymer":
            return run_ftymer(case)
        if case[0] == "fmono":
            return T.run_fmono(case)
        if case[0] == "ptimer":
            return T.run_ptimer(case)
        if case[0] == "fptimer":
            return T.run_fptimer(case)
        if case[0] == "tymer":
            return T.run_tymer(case)
        if case[0] == "mono":
            return T.run_mono(case)
        raise core.Infra(f"bad case {case!r}")

    def oracle(self, case, obs):
        if case[0] == "ftymer":
            return oracle_ftymer(case, obs)
        if case[0] == "fmono":
            return T.oracle_fmono(case, obs)
        if case[0] == "ptimer":
            return T.oracle_ptimer(case, obs)
        if case[0] == "fptimer":
            return T.oracle_fptimer(case, obs)
        return T.oracle_tymer(case, obs) if case[0] == "tymer" else T.oracle_mono(case, obs)

    def known(self, case, obs, clauses):
        # C08-K1: in doubles the retrograde shift (start += delta, last += delta) rounds, so `elapsed` can come out a few ulp
        # (of the clock readings' magnitude) smaller than before.  Trigger: raw-float MonoTimer case whose ONLY violated clause
        # is the decrease, i.e. every value the timer reported equals the float reference (nothing but the rounding of the
        # shift is involved), and every decrease is at most 2 ulp(M) per clock reading since the previous elapsed read,
        # M = largest magnitude among the clock readings and the elapsed value.
        if case[0] == "fmono" and clauses == ["fmono-elapsed-decreased"]:
            import math
            rs, c = [], float(case[1])
            for d in case[2]:
                c = c + d
                rs.append(abs(c))
            prev, pn = None, None
            for op, o in zip(case[4], T.unwrapF(obs)[1:]):
                if o == ("exhausted",):
                    break
                if op[0] in ("start", "restart"):
                    prev = None
                elif op[0] == "elapsed":
                    if prev is not None and o[0] < prev:
                        m = max([abs(prev)] + rs[:o[1]])
                        if prev - o[0] > 2 * (o[1] - pn) * math.ulp(m):
                            return None
                    prev, pn = o[0], o[1]
            return "C08-K1"
        return None

    def nontrivial(self, case, obs):
        ops = case[-1]
        if case[0] == "fmono":
            return len(ops) >= 2 and any(d < 0 for d in case[2])
        if case[0] in ("ptimer", "fptimer"):
            return len(ops) >= 2
        if case[0] == "ftymer":
            return len(ops) >= 2
        if len(ops) < 2:
            return False
        if case[0] == "tymer":
            return any(o[0] in ("start", "restart", "wind", "windf", "windh") for o in ops)
        return any(d < 0 for d in case[2]) or any(o[0] in ("start", "restart") for o in ops)

    def features(self, case, obs):
        if case[0] == "fptimer":
            return ["fptimer:" + case[1]]
        if case[0] == "ptimer":
            return ["ptimer:" + case[1]] + (["ptimer:backward-step"] if any(d < 0 for d in case[3]) else []) + \
                (["ptimer:expired-seen"] if any(len(o) == 2 and o[0] is True for o in obs) else [])
        if case[0] == "fmono":
            return ["fmono"] + (["fmono:expired-seen"] if any(len(o) == 2 and o[0] is True for o in obs) else []) + \
                (["fmono:backward-step"] if any(d < 0 for d in case[2]) else [])
        if case[0] == "ftymer":
            return ["ftymer"] + (["ftymer:expired-seen"] if any(o[2] for o in obs) else [])
        f = [case[0]]
        ops = case[-1]
        f.append(f"{case[0]}:ops~{min(len(ops) // 5 * 5, 40)}")
        for k in sorted({o[0] for o in ops}):
            f.append(f"{case[0]}:op:{k}")
        if case[0] == "mono":
            incs = case[2]
            if any(d < 0 for d in incs):
                f.append("mono:backward-step")
            if any(d == 0 for d in incs):
                f.append("mono:stall")
            if case[3][1] is not None:
                f.append("mono:explicit-start")
            if not case[3][2]:
                f.append("mono:retro=False")
            if any(o[0] == "RetroTimerError" for o in obs if len(o) == 2):
                f.append("mono:raised-RetroTimerError")
            if obs and obs[-1] == ("exhausted",):
                f.append("mono:script-exhausted")
        else:
            if case[2][0] is None:
                f.append("tymer:unwound")
            if obs and obs[-1] == ("stuck",):
                f.append("tymer:unwound-start-TypeError")
            if any(len(o) == 5 and o[4] is True for o in obs):
                f.append("tymer:expired-seen")
        return f

    def shrink(self, case):
        if case[0] == "fptimer":
            return []
        if case[0] == "ptimer":
            return T.shrink_ptimer(case)
        if case[0] == "fmono":
            return []      # readings are aimed at float neighbours of the deadline: dropping an op shifts the script
        if case[0] == "ftymer":
            ops = case[3]
            return [("ftymer", case[1], case[2], ops[:i] + ops[i + 1:]) for i in range(len(ops))]
        return T.shrink_tymer(case) if case[0] == "tymer" else T.shrink_mono(case)

    def mutate(self, rng, case):
        if case[0] == "ptimer":
            return list(T.shrink_ptimer(case))[:30]
        if case[0] in ("ftymer", "fmono", "fptimer"):
            return []
        out = list(self.shrink(case))[:30]
        if case[0] == "mono":
            for _ in range(10):
                out.append(("mono", case[1], T.perturb_incs(rng, case[2]), case[3], case[4]))
        return out


CHECK = C08()
