"""C05 — run termination and done flags are exact (hio.base.doing Doist.do, hio.base.tyming)."""
from .. import core, sx
from ..areas import sched as S

TERM = ("clean", "cease", "abort")


def kbint_stopped(d):
    """a KeyboardInterrupt broke the loop: some doer was exited without clean/cease/abort"""
    st = {}
    for e in d["trace"]:
        if e[1] in ("enter", "recur"):
            st[e[0]] = "live"
        elif e[1] in TERM:
            st[e[0]] = "closing"
        elif e[1] == "exit":
            if st.get(e[0]) == "live":
                return True
            st[e[0]] = "idle"
    return False


def expected_flags(case, d, prev=None):
    """done flag each doer must show, recomputed from its script and how its LAST incarnation ended"""
    spec, par, pools, kids = S.spec_index(case)
    nrec, how = {}, {}
    for e in d["trace"]:
        i, k = e[0], e[1]
        if k == "enter":
            nrec[i] = 0
            how[i] = None
        elif k == "recur":
            nrec[i] = nrec.get(i, 0) + 1
        elif k in TERM:
            how[i] = k
    want = {}
    for i, s in spec.items():
        if i not in how:
            want[i] = ((prev or {}).get(i, False), "never entered")
        elif how[i] != "clean":
            want[i] = (False, "not finished by itself")
        elif s[0] == "group":
            want[i] = (True, "group finished")
        else:
            act, steps = s[3], s[4]
            if isinstance(act, tuple):
                v = act[1]
            else:
                n = nrec[i]
                v = steps[n - 1][1][1] if 0 < n <= len(steps) and isinstance(steps[n - 1][1], tuple) and steps[n - 1][1][0] == "ret" else True
            want[i] = (bool(v), "returned %r" % (v,))
    return want


def clauses(case, d, prev=None):
    bad = []
    if "done_raw" in d and not isinstance(d["done_raw"], bool):
        bad.append("doist-done-is-not-a-bool-after-the-run")
    _, tock, start, limit, pool, specs = case[:6]
    tock = float(tock)
    start = float(start)
    tr = d["trace"]
    tyme = d["tyme"]
    raised = d["raised"]
    kb = kbint_stopped(d)
    # the stop episode
    sb = [n for n, e in enumerate(tr) if e[1] == "stopBeg"]
    if len(sb) != 1 or tr[-1][1] != "stopEnd":
        return ["do-did-not-end-with-one-exit-call"]
    forced = [e for e in tr[sb[0]:] if e[1] == "cease"]
    before = tr[:sb[0]]
    entered_only = all(e[1] not in ("recur",) for e in before) and raised != "-" and not any(e[1] == "recur" for e in before)
    # tyme = start + tock + ... + tock
    t, n, seq = start, 0, [start]
    while t < tyme and n < 100000:
        t += tock
        n += 1
        seq.append(t)
    if t != tyme:
        bad.append("final-tyme-not-a-whole-number-of-ticks")
        return bad
    if raised == "err" or kb:
        if d["done"]:
            bad.append("done-true-after-exception")
        # the cycle that raised is not ticked: tyme = tyme of the last event before the stop
        if before and before[-1][2] != tyme:
            bad.append("tyme-advanced-after-raising-cycle")
    else:
        if raised != "-":
            bad.append("unexpected-exception-from-do")
        if n < 1:
            bad.append("returned-without-running-a-cycle")
        last = before[-1][2] if before else start
        stop = None if limit is None else start + abs(float(limit))
        if d["done"]:
            if forced:
                bad.append("done-true-but-doers-were-force-closed")
            # right after the cycle in which the last doer completed
            if last + tock != tyme:
                bad.append("done-run-did-not-return-right-after-last-completion")
        else:
            if not forced:
                bad.append("done-false-but-nothing-was-alive")
            if stop is None:
                bad.append("stopped-without-limit-with-live-doers")
            else:
                if not (tyme >= stop):
                    bad.append("stopped-before-limit")
        if stop is not None and n >= 2 and seq[n - 1] >= stop:
            bad.append("ran-past-limit")      # an earlier cycle end already reached start+L
    if d["raised"].startswith("other:") or d["raised"] == "kbint":
        bad.append("unexpected-exception-from-do:" + d["raised"].split(":")[-1])
    # "done is True only if every doer had already completed": a run that ends done=True has force-closed nobody, except doers
    # (and what is below them) that some remove() call of the program names
    if d["done"] and raised == "-":
        named = set()
        allspecs = S.all_specs(S.expand_star(case))
        for sp, _, _ in allspecs:
            if sp[0] == "leaf":
                for ops, _ in sp[4]:
                    for op in ops:
                        if op[0] == "remove":
                            named |= set(op[1])
                        elif op[0] == "xremove":
                            named |= set(op[1][1:])
        desc = S.descendants(case)
        for j in list(named):
            named |= desc.get(j, set())
        if any(e[1] == "cease" and e[0] not in named for e in tr):
            bad.append("done-true-although-a-doer-nobody-removed-was-force-closed")
    # done flags
    want = expected_flags(case, d, prev)
    spec = S.spec_index(case)[0]
    for i, b in d["flags"]:
        w, why = want[i]
        if b != w:
            if b and spec[i][0] == "group" and spec[i][3]:
                bad.append("always-group-done-true-although-force-closed")
            elif b:
                bad.append("done-true-for-doer-that-" + why.replace(" ", "-"))
            else:
                bad.append("done-false-for-doer-that-" + why.split(" ")[0])
    return sorted(set(bad))


_ULP = []


def ulp_triples():
    """(start, tock, limit) where `tyme >= start + limit` and the algebraically equal `tyme - start >= (start + limit) - start`
    decide differently for some cycle end tyme in float arithmetic: start + limit lands within an ulp or two of a tick.
    Found by enumeration here (not hard coded): the stop cycle of a limited run depends on which formula the Tymer uses."""
    if _ULP:
        return _ULP
    starts = [round(0.1 * i, 1) for i in range(1, 41)] + [10.1, 33.3]
    tocks = [0.1, 0.2, 0.3, 0.7, 0.05, 0.15, 0.6, 1.1]
    for st in starts:
        for tk in tocks:
            lims = set()
            for k in range(1, 16):
                lims.add(k * tk)
                lims.add(round(k * tk, 10))
            for lm in sorted(lims):
                stop = st + lm
                dur = stop - st
                t = st
                for n in range(1, 40):
                    t += tk
                    a, b = t >= stop, (t - st) >= dur
                    if a != b:
                        _ULP.append((st, tk, lm))
                        break
                    if a:
                        break
    return _ULP


class C05(S.SchedCheck):
    pid = "C05"
    ways = True
    props_mod = "HioModel.Props.C05"
    design_ref = "DESIGN.md §5 C05"
    technique = ("Lean 4 theorems over the shared scheduler model (induction on the main loop of Doist.do with tyme = iterated tick), "
                 "differential run against hio.base.doing; stop cycle and flags recomputed independently with Python float arithmetic")
    level_text = ('Lean theorems for every program/tock/start/limit/fuel over an abstract time type (only + and a decidable <=; tyme = start + tock + ... + tock literally as the floats do): tyme_is_iterated_tick (unconditional), no_limit_done, done_right_after_emptying_cycle, mid_cycles_deque_nonempty, limit_stop_not_past, limit_stop_reached, done_iff_empty_at_stop (emptiness tested before the limit), enter_sets_done_false, forced_close_sets_no_flag (+ _all, final_exit, remove, abort variants), return_flag_true_only_if_truthy, flag_true_is_justified (every flag-true event directly follows the exit/exitEnd of that doer, or follows `recur` of that id plus exactly the events of one exception-free cycle of a scheduler with that id that left its deque empty = the own self.done = self.recur() assignment of a DoDoer), flag_true_is_justified_weak. Several runs on one Doist object (model HioModel/Sched/Runs.lean: a later do()/ado() inherits the tyme and the sticky limit and nothing else): later_run_as_fresh, run_depends_only_on_carried_tyme; a quarter of the cases are sequences of 2-4 do/ado calls on one Doist with fresh or reused doers, oracle applied per run. F07 (limit=0 treated as no limit) was repaired on fix/sched. Known finding C05-K1: an always-DoDoer keeps done=True from its own recur() when force-closed (the model predicts it; flag_true_is_justified has the matching second disjunct).')
    level_note = ('Trusted: as C01; float + and <= of CPython and Lean agree (exercised bit-for-bit by the correspondence, non-dyadic tocks and limits included); abs() of the limit is applied by the harness before the model sees it.')
    profiles = ("time", "plain", "mixed", "faults", "ops", "lastop", "xext")
    rule = ("3/4 single runs, 1/4 sequences of 2-4 do()/ado() calls on ONE Doist (tyme/limit given or kept, doers fresh or reused, runs that complete / hit the limit / raise / are interrupted); single runs: as C01 plus op/fault-free timing programs; limits {None, 0, tock/2, tock, 2.5 tock, 3 tock, 0.3, 1.0, -2 tock, 7 tock, 12 tock}, starts {0,1,2.5,0.3}, tocks {1/32,0.1,0.25,0.5,1}.  "
            "non-trivial = >=12 events and (limit given or a doer returned a value); distinct by request line")

    def exhaustive(self, tier):
        if tier != "thorough":
            return [], None
        # every (tock, start, limit) combination of the generator's tables on two fixed programs
        y = lambda t: ([], ("yield", t))
        progs = [[("leaf", 1, "plain", "ok", [y(0.0)] * 5), ("leaf", 2, "genrecur", "ok", [y(0.3), y(None), ([], ("ret", None))])],
                 [("group", 3, 0.0, False, [("leaf", 1, "doify", "ok", [y(0.1)] * 3)], []), ("leaf", 2, "bound", "ok", [y(0.25)] * 2 + [([], ("ret", False))])]]
        cs = []
        for p in progs:
            for t in S.TOCKS:
                for st in (0.0, 1.0, 2.5, 0.3):
                    for L in (None, 0.0, t / 2, t, 2.5 * t, 3 * t, 0.3, 1.0, -2 * t, 7 * t, 12 * t, 0.7):
                        cs.append(("run", t, st, L, [], p))
        return cs, "2 fixed programs x every tock in {1/32,0.1,0.25,0.5,1} x start in {0,1,2.5,0.3} x 12 limits (None, 0, fractions, multiples, negative)"

    # ---- several runs on one Doist object ("runs" cases): every hook dispatches on the case kind
    def generate(self, rng, n, tier):
        k = max(1, n // 4)
        yield from super().generate(rng, n - k, tier)
        for _ in range(k):
            yield S.gen_runs(rng)
        # remove() of doers that have ALREADY completed, called on a sibling DoDoer from outside its pass (nothing to close):
        # the doers still running there must go on; the run ends done=True only after they completed
        y = ([], ("yield", 0.0))
        for _ in range(max(10, n // 50)):
            t = rng.choice(S.TOCKS)
            short = [("leaf", 11 + q, rng.choice(S.SHAPES), "ok", [y] * rng.choice([0, 1])) for q in range(rng.choice([1, 2]))]
            longk = [("leaf", 15 + q, rng.choice(S.SHAPES), "ok", [y] * rng.choice([7, 9])) for q in range(rng.choice([1, 2]))]
            g = ("group", 10, rng.choice([0.0, 0.0, t]), False, short + longk if rng.random() < 0.5 else longk + short, [])
            x = ("leaf", 20, rng.choice([sh for sh in S.SHAPES if sh != "plain"]), "ok",
                 [y] * rng.choice([2, 3, 4]) + [([("xremove", [10] + [k[1] for k in short])], ("yield", 0.0))] + [y] * rng.choice([1, 6]))
            outer = [g, x]
            if rng.random() < 0.3:
                outer = [("group", 30, 0.0, False, outer, [])]
            yield ("run", t, rng.choice(S.STARTS), rng.choice([None, None, 40 * t]), [], outer)
        # real=True under a scripted wall clock: one pass overruns by more than a tock at every cycle position; the run must
        # still end at the cycle whose end TYME reaches start + limit (the model is the same: tyme is virtual)
        for _ in range(max(12, n // 40)):
            c = S.gen_case(rng, rng.choice(["time", "plain"]))
            t = c[1]
            lim = rng.choice([3 * t, 4 * t, 6 * t, 8 * t, 2.5 * t])
            yield ("run", t, c[2], lim, c[4], c[5] + [("leaf", 9000, "doify", "ok", [([], ("yield", 0.0))] * 40)],
                   (("real", [rng.choice([1, 2, 3, 4, 5, 6, 7, 8]), rng.choice([1.2 * t, 1.7 * t, 2.5 * t, 4 * t])]),))
        # limits that land within an ulp of a cycle end tyme (non-dyadic start / tock / limit), on long-lived programs
        tri = ulp_triples()
        y = ([], ("yield", 0.0))
        for st, tk, lm in rng.sample(tri, min(len(tri), max(12, n // 40))):
            prog = [("leaf", 1, rng.choice(S.SHAPES), "ok", [y] * 45)]
            if rng.random() < 0.5:
                prog.append(("group", 2, 0.0, False, [("leaf", 3, rng.choice(S.SHAPES), "ok", [([], ("yield", tk))] * 45)], []))
            yield ("run", tk, st, lm, [], prog)

    def corpus(self):
        y = lambda t=0.0: ([], ("yield", t))
        A = [("leaf", 101, "plain", "ok", [y(), y()])]
        B = [("leaf", 201, "genrecur", "ok", [y()] * 8), ("leaf", 202, "doify", "ok", [y(), ([], ("ret", None))])]
        K = [("leaf", 301, "bound", "ok", [y(), y(), ([], "kbint")]), ("leaf", 302, "doize", "ok", [y()] * 9)]
        seqs = []
        for m1 in ("do", "ado"):
            for m2 in ("do", "ado"):
                # completes (done True); then cut by its limit; then the same doers again to completion; then interrupted
                seqs.append(("runs", 1.0, 0.0, None, [(m1, None, None, [], A), (m2, None, 3.0, [], B), (m1, None, 20.0, [], B), (m2, 0.0, None, [], K)]))
        seqs.append(("runs", 0.25, 1.0, 0.5, [("ado", None, None, [], B), ("ado", 2.5, None, [], A), ("do", None, 0.0, [], B)]))
        # the same DoDoer objects again with another per-run `always` (through .opts): limited run with always=True, then a run without it
        G0 = [("group", 410, 0.0, False, [("leaf", 411, "plain", "ok", [y(), y()]), ("leaf", 412, "doify", "ok", [y()])], [])]
        G1 = [("group", 410, 0.0, True, G0[0][4], [])]
        seqs.append(("runs", 1.0, 0.0, None, [("do", None, None, [], G0), ("do", None, 3.0, [], G1), ("do", None, 9.0, [], G0), ("ado", None, 3.0, [], G1), ("ado", None, 9.0, [], G0)]))
        # extend() on the idle Doist between runs: the stray doer must take no part in the next run
        seqs.append(("runs", 0.25, 0.0, None, [("do", None, None, [], A), ("do+x", None, None, [], A), ("ado+x", None, 100.0, [], B), ("do+x", None, None, [], [])]))
        # an explicitly empty doers argument after runs that had doers: the run ends after one cycle with done True
        seqs.append(("runs", 1.0, 0.0, None, [("do", None, 4.0, [], B), ("do", None, None, [], []), ("ado", None, None, [], A), ("ado", None, None, [], []), ("do", None, None, [], [])]))
        return super().corpus() + seqs

    def request(self, case):
        return S.request_runs(case) if case[0] == "runs" else super().request(case)

    def run_impl(self, case):
        return S.ObsRuns(S.run_sequence(case)) if case[0] == "runs" else super().run_impl(case)

    def call_cases(self, case, ds):
        """each call as the single run it must be equivalent to: start = given or the tyme the previous run ended at, limit sticky"""
        _, tock, start0, limit0, calls = case
        out, now, lim = [], float(start0), limit0
        for (mode, st, lm, pool, specs), d in zip(calls, ds):
            lim = lm if lm is not None else lim
            out.append(("run", tock, float(st) if st is not None else now, lim, pool, specs))
            now = d["tyme"]
        return out

    def nontrivial(self, case, obs):
        if case[0] == "runs":
            return sum(len(d["trace"]) for d in obs.ds) >= 12
        return len(obs.d["trace"]) >= 12 and (case[3] is not None or any(b for _, b in obs.d["flags"]))

    def oracle(self, case, obs):
        if case[0] != "runs":
            return clauses(case, obs.d)
        bad, prev = [], {}
        if len(obs.ds) != len(case[4]):
            bad.append("run-sequence-cut-short")
        for k, (c, d) in enumerate(zip(self.call_cases(case, obs.ds), obs.ds)):
            bad += [f"{x}" for x in clauses(c, d, prev)]
            mine = set(S.all_ids(c))
            if any(e[1] in S.LIFE and e[0] not in mine for e in d["trace"]):
                bad.append("run-ran-doers-that-were-not-in-its-doers-argument")
            if list(d["doers"]) != [s[1] for s in c[5]] and not any(S.has_op(s, "extend") or S.has_op(s, "remove") for s in c[5]):
                bad.append("doist-doers-is-not-the-doers-argument")
            prev.update(dict(d["flags"]))
        return sorted(set(bad))

    def features(self, case, obs):
        if case[0] != "runs":
            return super().features(case, obs)
        f = ["runs:%d" % len(case[4])]
        seen = []
        for (mode, st, lm, pool, specs), d in zip(case[4], obs.ds):
            f += ["call:" + mode, "call:done=%s" % d["done"], "call:raised=" + d["raised"], "call:tyme=" + ("kept" if st is None else "given"),
                  "call:limit=" + ("kept" if lm is None else "given")]
            if (pool, specs) in seen:
                f.append("call:doers-reused")
            seen.append((pool, specs))
        for a, b in zip(obs.ds, obs.ds[1:]):
            if a["done"] and not b["done"]:
                f.append("call:done-true-then-false")
        return f

    def shrink(self, case):
        if case[0] != "runs":
            return super().shrink(case)
        _, tock, start0, limit0, calls = case
        out = []
        for n in range(len(calls)):
            if len(calls) > 1:
                out.append(("runs", tock, start0, limit0, calls[:n] + calls[n + 1:]))
        for n, (mode, st, lm, pool, specs) in enumerate(calls):
            if mode.startswith("ado"):
                out.append(("runs", tock, start0, limit0, calls[:n] + [("do" + mode[3:], st, lm, pool, specs)] + calls[n + 1:]))
            if mode.endswith("+x"):
                out.append(("runs", tock, start0, limit0, calls[:n] + [(mode[:-2], st, lm, pool, specs)] + calls[n + 1:]))
            if st is not None:
                out.append(("runs", tock, start0, limit0, calls[:n] + [(mode, None, lm, pool, specs)] + calls[n + 1:]))
            # shrinking a program renames nothing, so reuse by id stays consistent only if every copy is replaced
            for s2 in S._shrink_specs(list(specs)):
                new = [(m, a, b, p, (s2 if (p, sp) == (pool, specs) else sp)) for m, a, b, p, sp in calls]
                out.append(("runs", tock, start0, limit0, new))
        return [c for c in out if self.runs_valid(c)]

    def runs_valid(self, case):
        _, tock, start0, limit0, calls = case
        lim = limit0
        seen = {}

        def norm(sp):      # a doer object is re-used by id: its script / members must be the same in every call (only `always` may differ)
            return sp if sp[0] == "leaf" else ("group", sp[1], sp[2], [norm(k) for k in sp[4]], [norm(k) for k in sp[5]])
        for mode, st, lm, pool, specs in calls:
            for sp, _, _ in S.all_specs(("run", tock, 0.0, None, pool, specs)):
                if seen.setdefault(sp[1], norm(sp)) != norm(sp):
                    return False
            lim = lm if lm is not None else lim
            if not S.case_valid(("run", tock, 0.0, lim, pool, specs)):
                return False
        return bool(calls)

    def mutate(self, rng, case):
        if case[0] != "runs":
            return super().mutate(rng, case)
        return list(self.shrink(case))[:40] + [S.gen_runs(rng) for _ in range(20)]

    def known(self, case, obs, clauses):
        if case[0] == "runs":
            return "C05-K1" if clauses == ["always-group-done-true-although-force-closed"] else None
        # C05-K1: a DoDoer(always=True) whose deeds are all complete keeps done=True from its own recur();
        # when it is then force-closed the flag stays True although it never returned.
        if clauses == ["always-group-done-true-although-force-closed"]:
            return "C05-K1"
        return None


CHECK = C05()
