"""C14 — HTTP requests built by the client are recovered exactly by the server (clienting.Requester -> serving.Requestant / buildEnviron)."""
import json
from urllib.parse import parse_qsl, unquote

from .. import core, sx
from ..areas import httpflow as hf
from ..extract import httpflow as xhf

METHODS = [b"GET", b"HEAD", b"PUT", b"PATCH", b"POST", b"DELETE", b"OPTIONS", b"TRACE", b"CONNECT"]
HOST = b"example.com:8080"
TOKEN = "!#$%&'*+-.^_`|~0123456789ABCDEFGHIJKLMNOPQRSTUVWXYZabcdefghijklmnopqrstuvwxyz"
SPECIAL = ["content-length", "transfer-encoding"]
TEXT_ATOMS = ["a", "Z", "0", "xy", " ", "  ", "%", "%41", "%zz", "%2", "+", "&", "=", ";", ":", "@", ",", "!", "*", "(", ")", "[", "]", "\"", "<", ">", "\\", "^", "`",
              "{", "}", "|", "~", "'", "$", "-", "_", ".", "é", "中文", "\U0001F600", "é", " ", "\u0085", "\x7f", "\x00", "\x1f", "true", "/"]
QUERY_ONLY = ["?", "#", "//"]
UNSAFE = ["\t", "\n", "\r", "\r\n"]
HNAMES = [b"X-A", b"x-lower", b"Accept", b"User-Agent", b"Connection", b"Cookie", b"Cookie", b"X_Under", b"X-1", b"ETag", b"If-None-Match", b"Host", b"accept-encoding",
          b"Content-Type", b"X.Dot", b"x-a", b"AUTHORIZATION"]
HVALS = [b"1", b"", b" ", b" lead", b"trail ", b"a: b", b"text/html, application/json;q=0.9", b"caf\xe9", b"\xff\x00\x80", b"keep-alive", b"a\tb", b"x" * 200,
         b"Bearer abc.def", b"k=v; k2=v2", b"identity", b"other.example:81"]


def _dups(headers):
    seen = {}
    for n, v in headers:
        seen.setdefault(n.lower(), []).append(v)
    return {k: vs for k, vs in seen.items() if len(vs) > 1}


class C14(core.Check):
    pid = "C14"
    pkg = "HttpFlow"
    props_mod = "HioModel.Props.C14"
    design_ref = "DESIGN.md §5 C14, §7 F19 F50"
    technique = ("Lean 4 theorems over byte-level models of urllib.parse quote/quote_plus/unquote/unquote_plus/parse_qsl, httping.updateQargsQuery/packHeader, "
                 "Requester.build and Requestant.parseHead/parseBody; always-safe set, METHODS and default header values regenerated from the live modules; "
                 "differential run (built bytes and recovered fields) against the real Requester / Requestant / buildEnviron; independent oracle from the spec")
    level_text = ("Proved for ALL byte strings / lists (unbounded, structural induction): unquote_quote, unquote_plus_quote_plus (+ the form variant), "
                  "qargs_roundtrip (parse_qsl(QUERY_STRING) of the packed query gives back every key/value list, duplicates and empty strings included), "
                  "packed_field_chars, header_line_roundtrip (every name without ':' and EVERY value), and the composition request_roundtrip_partial: for every "
                  "spec satisfying the explicit decidable predicate WF (inhabited by an example) recover(build spec) = view spec — method, path, query list, all "
                  "header fields on the wire in order, body — with spec_headers_recovered and body_recovered tying the view back to the caller's own fields. "
                  "_partial because WF excludes the two recorded defects, which are proved to fail on witnesses: repeated_header_keeps_last (F50, C14-K1) and "
                  "path_tab_is_dropped (C14-K2).  The always-safe table, METHODS and the default header values the proofs use are re-extracted on every run; "
                  "the hand-written models (incl. the Lean urllib.parse) are tied to the code and to the stdlib by a seeded differential run of built bytes and recovered fields.")
    level_note = ("Trusted: Lean kernel + propext/Classical.choice/Quot.sound; translator harness/extract/httpflow.py; UTF-8/latin-1 codecs and json.dumps of CPython "
                  "(text crosses as bytes; the JSON text is a parameter); the sampled correspondence for the hand-written build/recover models; chunked request bodies, "
                  "multipart forms and paths that urlsplit would re-split ('?', '#', leading '//') are declined by the model (Exn.unmodelled) and never generated.")
    quick_n = 1200
    thorough_n = 30000
    rule = ("case = (method in any case, unicode path with reserved / percent-look-alike / non-ASCII characters, query dict with arbitrary string keys and values, "
            "header list (token names, latin-1 values without CR/LF, incl. repeated names), body raw | JSON data | form fields, explicit Content-Length or not); "
            "plus direct quote/unquote/parse_qsl cross-checks against urllib.parse.  non-trivial = a reserved or non-ASCII character somewhere in path or query, or >= 2 headers, or a body; "
            "distinct by request line")
    trusted_base = ["correspondence harness/props/C14.py: compiled model driver vs Requester.build + Requestant + Server.buildEnviron (harness/areas/httpflow.py c14_run)",
                    "translator harness/extract/httpflow.py (urllib.parse._ALWAYS_SAFE, httping.METHODS, default Accept-Encoding / Content-Type values, version string)",
                    "CPython str.encode/bytes.decode (utf-8, latin-1) and json.dumps are not modelled: text crosses as bytes, json.dumps output is a parameter",
                    "urllib.parse.parse_qsl(keep_blank_values=True) as the query decoder of the WSGI side (modelled in Lean, cross-checked on every run)"]
    assumptions = ["strings hold no lone surrogates (they cannot be UTF-8 encoded at all)",
                   "the path is a path: starts with exactly one '/', no '?' or '#' (Requester re-splits its path argument with urlsplit by design)"]

    def extract(self):
        return xhf.extract()

    # ------------------------------------------------------------------ cases
    def corpus(self):
        u = lambda s: s.encode("utf-8")
        return [
            ("req", b"get", u("/a b/ü"), [(u("k 1"), u("v&=1")), (u("a&b=c"), u("x"))], [(b"x-one", b"1")], 0, b"", False),     # F19 witness (reserved chars in keys)
            ("req", b"POST", u("/p"), [(u("ké"), u("v"))], [], 0, b"hello\r\n\r\nworld", True),                              # F19 witness (non-ASCII key -> idna)
            ("req", b"POST", u("/p"), [], [(b"x-one", b"1"), (b"X-ONE", b"2")], 0, b"", False),                                    # F50 witness
            ("req", b"PUT", u("/p\tq\n"), [], [(b"a-b", b" v "), (b"a_b", b"")], 1, b'{"a":[1,"x"]}', False),                      # C14-K2 witness
            ("req", b"POST", u("/p"), [], [], 2, [(u("a b"), u("c d")), (u("e"), u(""))], False),
            ("req", b"GET", u("/"), [(b"", b"")], [], 0, b"dropped", False),
            ("req", b"delete", u("/%41%zz%/+&=;"), [(u("="), u("&")), (u("+"), u(" ")), (u("%"), u("%25"))], [(b"Host", b"other:1")], 0, b"\x00\xff", True),
            ("req", b"Options", u("/\U0001F600/ x"), [(u("中"), u("文"))] * 1, [(b"accept-encoding", b"gzip")], 0, b"", True),
            ("quote", u("a b/é%+~")), ("unquote", b"%41%zz%%4a%4"), ("unquote_plus", b"a+b%2Bc%"), ("parse_qsl", b"a=1&&b&=c&d=%26+x&=&&"), ("parse_qsl", b""),
        ]

    def exhaustive(self, tier):
        if tier != "thorough":
            return [], None
        cs = []
        for cp in range(0, 0x300):
            ch = chr(cp)
            if ch in "\t\r\n":
                continue
            b = ch.encode("utf-8")
            cs.append(("req", b"GET", b"/a" + (b if ch not in "?#" else b"") + b"z", [(b, b"v" + b), (b"k" + b + b"k", b)], [], 0, b"", False))
        for x in range(32, 256):
            if x not in (10, 13):
                cs.append(("req", b"POST", b"/h", [], [(b"X-V", bytes([x])), (b"X-W", b"a" + bytes([x]) + b"b")], 0, bytes([x]), False))
        for x in range(256):
            cs.append(("quote", bytes([x, 65, x])))
            cs.append(("quote_plus", bytes([x, 32, x])))
        return cs, "every code point < U+0300 as path character, query key and query value; every byte 32..255 (except CR LF) as header value and body; quote/quote_plus of every byte"

    def _text(self, rng, n, atoms):
        return "".join(rng.choice(atoms) for _ in range(n))

    def _json(self, rng, depth=0):
        k = rng.random()
        if depth > 2 or k < 0.4:
            return rng.choice([0, 1, -5, 3.5, True, None, "", "x", "café 中", "a\"b\\c\n", 10 ** 20])
        if k < 0.7:
            return [self._json(rng, depth + 1) for _ in range(rng.randrange(0, 4))]
        return {self._text(rng, rng.randrange(0, 3), TEXT_ATOMS): self._json(rng, depth + 1) for _ in range(rng.randrange(0, 4))}

    def generate(self, rng, n, tier):
        u = lambda s: s.encode("utf-8")
        for _ in range(n):
            k = rng.random()
            if k < 0.12:
                kind = rng.choice(["quote", "quote_plus", "unquote", "unquote_plus", "parse_qsl"])
                if kind.startswith("quote"):
                    b = bytes(rng.choice([rng.randrange(256), rng.randrange(32, 127)]) for _ in range(rng.randrange(0, 20)))
                else:
                    b = u(self._text(rng, rng.randrange(0, 10), TEXT_ATOMS + ["%", "%4", "%C3%A9", "&", "=", "+", "&&", "=="]))
                yield (kind, b)
                continue
            m = rng.choice(METHODS)
            c = rng.random()
            method = m if c < 0.6 else (m.lower() if c < 0.85 else (m.title() if c < 0.97 else b"BREW"))
            segs = []
            for _ in range(rng.choice([0, 1, 1, 2, 3, 5])):
                atoms = TEXT_ATOMS + (UNSAFE if rng.random() < 0.04 else [])
                segs.append(self._text(rng, rng.choice([1, 1, 2, 3, 6]), [a for a in atoms if a != "/"]) or "s")
            path = "/" + "/".join(segs)
            if "".join(c for c in path if c not in "\t\r\n").startswith("//"):
                path = "/x" + path[1:]
            qargs = {}
            for _ in range(rng.choice([0, 0, 1, 2, 3, 5])):
                qargs[self._text(rng, rng.choice([0, 1, 1, 2, 4]), TEXT_ATOMS + QUERY_ONLY)] = self._text(rng, rng.choice([0, 1, 1, 2, 4]), TEXT_ATOMS + QUERY_ONLY)
            headers = []
            for _ in range(rng.choice([0, 0, 1, 2, 3, 5, 8])):
                if rng.random() < 0.5:
                    name = rng.choice(HNAMES)
                else:
                    name = "".join(rng.choice(TOKEN) for _ in range(rng.choice([1, 2, 5, 12]))).encode("ascii")
                if name.lower().decode() in SPECIAL:
                    continue
                v = rng.choice(HVALS) if rng.random() < 0.6 else bytes(rng.choice([rng.randrange(32, 256), rng.randrange(32, 127), 9]) for _ in range(rng.randrange(0, 12)))
                v = bytes(x for x in v if x not in (10, 13))
                headers.append((name, v))
            if rng.random() < 0.9:      # mostly no repeated names (C14-K1)
                seen = set()
                headers = [h for h in headers if not (h[0].lower() in seen or seen.add(h[0].lower()))]
            b = rng.random()
            explicit = False
            if b < 0.55:
                bkind = 0
                c = rng.random()
                bval = b"" if c < 0.3 else (rng.choice([b"\r\n\r\n", b"GET / HTTP/1.1\r\n\r\n", b"0\r\n\r\n", b"a=b&c=d"]) if c < 0.45
                                           else bytes(rng.randrange(256) for _ in range(rng.choice([1, 2, 10, 100, 300]))))
                explicit = rng.random() < 0.4 and method.upper() != b"GET"
            elif b < 0.8:
                bkind = 1
                data = self._json(rng)
                if data is None:           # data=None means "no JSON data" to Requester
                    data = {}
                bval = json.dumps(data, separators=(",", ":")).encode("utf-8")
                headers = [h for h in headers if h[0].lower() != b"content-type"]
            else:
                bkind = 2
                form = {}
                for _ in range(rng.choice([0, 1, 2, 4])):
                    form[self._text(rng, rng.choice([1, 2, 3]), TEXT_ATOMS)] = self._text(rng, rng.choice([0, 1, 3]), TEXT_ATOMS)
                bval = [(u(a), u(c)) for a, c in form.items()]
                headers = [h for h in headers if h[0].lower() != b"content-type"]
            yield ("req", method, u(path), [(u(a), u(c)) for a, c in qargs.items()], headers, bkind, bval, explicit)

    def request(self, case):
        if case[0] != "req":
            return (case[0], case[1])
        _, method, path, qargs, headers, bkind, bval, explicit = case
        hs = list(headers)
        if bkind == 0 and explicit:
            hs.append((b"Content-Length", str(len(bval)).encode()))
        raw = bval if bkind in (0, 1) else b""
        form = bval if bkind == 2 else []
        return ("c14", method, path, [(k, v) for k, v in qargs], [(n, v) for n, v in hs], bkind, raw, [(k, v) for k, v in form], HOST)

    # ------------------------------------------------------------------ real code
    def run_impl(self, case):
        import urllib.parse as up
        if case[0] != "req":
            kind, b = case
            if kind == "quote":
                return (up.quote_from_bytes(b).encode("ascii"),)
            if kind == "quote_plus":
                return (up.quote_plus(b).encode("ascii"),)
            if kind == "unquote":
                return (up.unquote_to_bytes(b),)
            if kind == "unquote_plus":
                return (up.unquote_to_bytes(b.replace(b"+", b" ")),)
            if kind == "parse_qsl":
                # byte level: latin-1 in, latin-1 out (the str-level utf-8 'replace' decoding is not part of the model)
                return ([(k.encode("latin-1"), v.encode("latin-1"))
                         for k, v in up.parse_qsl(b.decode("latin-1"), keep_blank_values=True, encoding="latin-1")],)
            raise core.Infra("bad case")
        o = hf.c14_run(case[1:])
        if isinstance(o["built"], tuple):
            return (("raise", o["built"][1]), None)
        if o["state"][0] != "ok":
            return (o["built"], ("error", o["state"][1]), None)
        view = ("ok", o["method"].encode("latin-1"), o["path"].encode("utf-8", "surrogatepass"),
                [(k.encode("utf-8", "surrogatepass"), v.encode("utf-8", "surrogatepass")) for k, v in o["query"]],
                [(k.encode("latin-1"), v.encode("latin-1")) for k, v in o["headers"]], o["body"])
        extra = ("x", [(k.encode("latin-1"), v.encode("latin-1")) for k, v in sorted(o["env"].items())], o["env_method"].encode("latin-1"),
                 o["env_path"].encode("utf-8", "surrogatepass"), o["env_body"], o["leftover"])
        return (o["built"], view, extra)

    def compare_view(self, case, obs):
        if case[0] != "req":
            v = obs[0]
            return sx.dumps(v if isinstance(v, bytes) else [(k, w) for k, w in v])
        if len(obs) == 2:
            return sx.dumps(("raise", "unmodelled"))         # the model declines what makes build() raise (never inside the quantifier)
        return sx.dumps(obs[:2])

    # ------------------------------------------------------------------ the property
    def wf(self, case):
        _, method, path, qargs, headers, bkind, bval, explicit = case
        if method.upper() not in METHODS:
            return False
        try:
            p = path.decode("utf-8")
        except UnicodeDecodeError:
            return False
        if not p.startswith("/") or p.startswith("//") or "?" in p or "#" in p:
            return False
        if len({k for k, _ in qargs}) != len(qargs):
            return False
        for n, v in headers:
            if not hf.token_ok(n.decode("latin-1")) or b"\r" in v or b"\n" in v or n.lower().decode() in SPECIAL:
                return False
            if bkind in (1, 2) and n.lower() == b"content-type":
                return False
        if method.upper() == b"GET" and explicit and bval:
            return False
        return True

    def oracle(self, case, obs):
        import urllib.parse as up
        if case[0] != "req":
            kind, b = case
            bad = []
            if kind == "quote" and up.unquote_to_bytes(obs[0]) != b:
                bad.append("stdlib-unquote-quote")
            return bad
        if not self.wf(case):
            return []
        _, method, path, qargs, headers, bkind, bval, explicit = case
        if isinstance(obs[0], tuple):
            return ["build-raised"]
        if obs[1][0] != "ok":
            return ["server-rejected-request"]
        _, rmethod, rpath, rquery, rheaders, rbody = obs[1]
        xe = obs[2]
        x = dict(env={k.decode("latin-1"): v.decode("latin-1") for k, v in xe[1]}, env_method=xe[2].decode("latin-1"),
                 env_path=xe[3].decode("utf-8", "surrogatepass"), env_body=xe[4], leftover=xe[5])
        bad = []
        if rmethod != method.upper() or x["env_method"].encode("latin-1") != method.upper():
            bad.append("method")
        if rpath != path or x["env_path"].encode("utf-8", "surrogatepass") != path:
            bad.append("path")
        if rquery != [(k, v) for k, v in qargs]:
            bad.append("query-args")
        hs = list(headers)
        if bkind == 0 and explicit:
            hs.append((b"Content-Length", str(len(bval)).encode()))
        envkeys = {}
        for n, v in hs:
            envkeys.setdefault("HTTP_" + n.decode("ascii").upper().replace("-", "_"), set()).add(n.lower())
        for n, v in hs:
            if (n.lower(), v) not in rheaders:
                bad.append("header-values")
                break
            key = "HTTP_" + n.decode("ascii").upper().replace("-", "_")
            if len(envkeys[key]) == 1 and not _dups(hs).get(n.lower()) and x["env"].get(key) != v.decode("latin-1"):
                bad.append("environ-header")
                break
        is_get = method.upper() == b"GET"
        if x["env_body"] != rbody or x["leftover"]:
            bad.append("body-framing")
        if is_get:
            if rbody != b"":
                bad.append("body")
        elif bkind == 0:
            if rbody != bval:
                bad.append("body")
        elif bkind == 1:
            try:
                if json.loads(rbody.decode("utf-8")) != json.loads(bval.decode("utf-8")) or not x["env"].get("CONTENT_TYPE", "").startswith("application/json"):
                    bad.append("body")
            except ValueError:
                bad.append("body")
        else:
            plain = all(b"&" not in k and b"=" not in k and b"&" not in v and b"=" not in v for k, v in bval)
            if plain:
                got = [(k.encode("utf-8"), v.encode("utf-8")) for k, v in parse_qsl(rbody.decode("ascii", "replace"), keep_blank_values=True)]
                if got != [(k, v) for k, v in bval] or not x["env"].get("CONTENT_TYPE", "").startswith("application/x-www-form-urlencoded"):
                    bad.append("body")
        if rbody and x["env"].get("CONTENT_LENGTH") != str(len(rbody)):
            bad.append("content-length")
        return bad

    def _k1(self, case, obs):
        """every spec header is recovered except the non-last values of repeated names, and each last value IS recovered"""
        headers = case[4]
        d = _dups(headers)
        if not d or obs[1][0] != "ok":
            return False
        rheaders = obs[1][4]
        for n, v in headers:
            if (n.lower(), v) not in rheaders and n.lower() not in d:
                return False
        return all((k, vs[-1]) in rheaders for k, vs in d.items())

    def _k2(self, case, obs):
        path = case[2]
        if not any(c in path for c in b"\t\r\n") or obs[1][0] != "ok":
            return False
        stripped = bytes(c for c in path if c not in b"\t\r\n")
        return obs[1][2] == stripped and obs[2][3] == stripped

    def known(self, case, obs, clauses):
        if case[0] != "req" or isinstance(obs[0], tuple):
            return None
        path = case[2]
        if clauses == ["server-rejected-request"]:
            # C14-K2, other face: what is left of the path starts with '//' and is re-read by urlsplit as an (empty) network location
            stripped = bytes(c for c in path if c not in b"\t\r\n")
            if any(c in path for c in b"\t\r\n") and stripped.startswith(b"//"):
                return "C14-K2"
            return None
        explained = {"header-values": ("C14-K1", self._k1), "path": ("C14-K2", self._k2)}
        ids = []
        for c in clauses:
            if c not in explained or not explained[c][1](case, obs):
                return None
            ids.append(explained[c][0])
        return ids[0] if ids else None

    def nontrivial(self, case, obs):
        if case[0] != "req":
            return len(case[1]) > 0
        _, method, path, qargs, headers, bkind, bval, explicit = case
        odd = lambda b: any(not (chr(c).isalnum() or c in b"/_.-~") for c in b)
        return odd(path) or any(odd(k) or odd(v) for k, v in qargs) or len(headers) >= 2 or bool(bval)

    def features(self, case, obs):
        if case[0] != "req":
            return ["stdlib:" + case[0]]
        _, method, path, qargs, headers, bkind, bval, explicit = case
        f = ["req", "wf" if self.wf(case) else "outside-quantifier", "method:" + method.upper().decode("latin-1"),
             "body:" + ["raw", "json", "form"][bkind] + (":explicit-cl" if explicit else ""), f"qargs={min(len(qargs), 4)}", f"headers={min(len(headers), 6)}"]
        if any(c > 127 for c in path):
            f.append("path:non-ascii")
        if any(c in path for c in b"%+&=; "):
            f.append("path:reserved")
        if any(any(c in k for c in b"&=+%#? ") for k, _ in qargs):
            f.append("qkey:reserved")
        if any(any(c > 127 for c in k) for k, _ in qargs):
            f.append("qkey:non-ascii")
        if _dups(headers):
            f.append("header:repeated")
        if len(obs) >= 2 and obs[1] and obs[1][0] != "ok":
            f.append("server:" + str(obs[1][1]))
        return f

    def shrink(self, case):
        if case[0] != "req":
            b = case[1]
            for i in range(len(b)):
                yield (case[0], b[:i] + b[i + 1:])
            return
        _, method, path, qargs, headers, bkind, bval, explicit = case
        mk = lambda **kw: ("req", kw.get("method", method), kw.get("path", path), kw.get("qargs", qargs), kw.get("headers", headers),
                           kw.get("bkind", bkind), kw.get("bval", bval), kw.get("explicit", explicit))
        for i in range(len(headers)):
            yield mk(headers=headers[:i] + headers[i + 1:])
        for i in range(len(qargs)):
            yield mk(qargs=qargs[:i] + qargs[i + 1:])
        if bkind != 0 or bval or explicit:
            yield mk(bkind=0, bval=b"", explicit=False)
        try:
            p = path.decode("utf-8")
            for i in range(1, len(p)):
                q = p[:i] + p[i + 1:]
                if q.startswith("/") and not q.startswith("//"):
                    yield mk(path=q.encode("utf-8"))
        except UnicodeDecodeError:
            pass
        for i, (k, v) in enumerate(qargs):
            for k2, v2 in ((k[:-1], v), (k, v[:-1])):
                try:
                    k2.decode("utf-8"), v2.decode("utf-8")
                except UnicodeDecodeError:
                    continue
                if (k2, v2) != (k, v) and k2 not in [a for j, (a, _) in enumerate(qargs) if j != i]:
                    yield mk(qargs=qargs[:i] + [(k2, v2)] + qargs[i + 1:])
        for i, (n, v) in enumerate(headers):
            if v:
                yield mk(headers=headers[:i] + [(n, v[:-1])] + headers[i + 1:])

    def mutate(self, rng, case):
        return list(self.shrink(case))[:40]


CHECK = C14()
