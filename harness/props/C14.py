"""C14 — HTTP requests built by the client are recovered exactly by the server (clienting.Requester -> serving.Requestant / buildEnviron)."""
import json
from urllib.parse import parse_qsl, unquote

from .. import core, sx
from ..areas import httpflow as hf
from ..extract import httpflow as xhf

METHODS = [b"GET", b"HEAD", b"PUT", b"PATCH", b"POST", b"DELETE", b"OPTIONS", b"TRACE", b"CONNECT"]
HOST = b"example.com:8080"
CLIENT_HOST = b"127.0.0.1:8080"      # requests that go through a clienting.Client (no name resolution in the harness)
TOKEN = "!#$%&'*+-.^_`|~0123456789ABCDEFGHIJKLMNOPQRSTUVWXYZabcdefghijklmnopqrstuvwxyz"
SPECIAL = ["content-length", "transfer-encoding"]
TEXT_ATOMS = ["a", "Z", "0", "xy", " ", "  ", "%", "%41", "%zz", "%2", "+", "&", "=", ";", ":", "@", ",", "!", "*", "(", ")", "[", "]", "\"", "<", ">", "\\", "^", "`",
              "{", "}", "|", "~", "'", "$", "-", "_", ".", "é", "中文", "\U0001F600", "é", " ", "\u0085", "\x7f", "\x00", "\x1f", "true", "/"]
QUERY_ONLY = ["?", "#", "//"]
UNSAFE = ["\t", "\n", "\r", "\r\n"]
FORM_ATOMS = ["a", "Z", "0", "xy", " ", "%", "+", ";", ":", ",", "!", "é", "中文", "\U0001F600", "naïve", "-", "_", ".", "&", "="]
HNAMES = [b"Hosts", b"X-Host", b"Content-Lengthy", b"Accept-Encodings", b"X-A-B", b"Content-Type-X", b"X-A", b"x-lower", b"Accept", b"User-Agent", b"Connection", b"Cookie", b"Cookie", b"X_Under", b"X-1", b"ETag", b"If-None-Match", b"Host", b"accept-encoding",
          b"Content-Type", b"X.Dot", b"x-a", b"AUTHORIZATION"]
HVALS = [b"\xc3\xa9tude", b"\xc3\xbc", b"\xe2\x82\xac 5", b"\xc2\xa0", b"1", b"", b" ", b" lead", b"trail ", b"a: b", b"text/html, application/json;q=0.9", b"caf\xe9", b"\xff\x00\x80", b"keep-alive", b"a\tb", b"x" * 200,
         b"Bearer abc.def", b"k=v; k2=v2", b"identity", b"other.example:81"]


def _dups(headers):
    seen = {}
    for n, v in headers:
        seen.setdefault(n.lower(), []).append(v)
    return {k: vs for k, vs in seen.items() if len(vs) > 1}


def _l1(t):
    """a str the code recovered, as latin-1 bytes when it fits (what the byte-level model predicts), else an escaped form that can equal
    no model output — an observation, never a crash"""
    try:
        return t.encode("latin-1")
    except UnicodeEncodeError:
        return b"\xff<not-latin-1>" + t.encode("utf-8", "surrogatepass")


def _u8(t):
    return t.encode("utf-8", "surrogatepass")


def _pathpart(path):
    """what Requester keeps as .path after build(): the path proper, without query and fragment"""
    p = path.split(b"#", 1)[0]
    return p.split(b"?", 1)[0]


def _merged_query(spec):
    """the query arguments a Requester holds after it has built `spec`: its dict updated from the query string written on the path"""
    exp = dict((k.decode("utf-8"), v.decode("utf-8")) for k, v in spec[2])
    p = spec[1].decode("utf-8").split("#", 1)[0]
    if "?" in p:
        for k, v in parse_qsl(p.split("?", 1)[1], keep_blank_values=True):
            exp[k] = v
    return [(k.encode("utf-8"), v.encode("utf-8")) for k, v in exp.items()]


def effective(specs):
    """specs with what every request is really built from: a `reuse` request (mode 2) takes the stored path of its predecessor; query arguments /
    headers given as None are NOT passed and so are those of the predecessor (for a request that starts afresh: none)"""
    out = []
    for i, sp in enumerate(specs):
        sp = tuple(sp)
        restart = i == 0 or sp[7] is True or sp[7] == 1 or sp[7] == 3
        if sp[7] == 2 and sp[7] is not True and i > 0:
            sp = (sp[0], _pathpart(out[-1][1])) + sp[2:]
        if sp[2] is None:
            sp = sp[:2] + ([] if restart else _merged_query(out[-1]),) + sp[3:]
        if sp[3] is None:
            sp = sp[:3] + ([] if restart else list(out[-1][3]),) + sp[4:]
        out.append(sp)
    return out


def route_of(case):
    return case[3] if len(case) > 3 else 0


class C14(core.Check):
    pid = "C14"
    pkg = "HttpFlow"
    props_mod = "HioModel.Props.C14"
    design_ref = "DESIGN.md §5 C14, §7 F19 F50"
    technique = ("Lean 4 theorems over byte-level models of urllib.parse quote/quote_plus/unquote/unquote_plus/parse_qsl, httping.updateQargsQuery/packHeader, "
                 "Requester.build and Requestant.parseHead/parseBody; always-safe set, METHODS and default header values regenerated from the live modules; "
                 "differential run (built bytes and recovered fields) against the real Requester / Requestant / buildEnviron; independent oracle from the spec")
    level_text = ("Proved for ALL byte strings / lists (unbounded, structural induction): unquote_quote, unquote_plus_quote_plus (+ the form variant), "
                  "qargs_roundtrip (parse_qsl(QUERY_STRING) of the packed query gives back every key/value list, duplicates and empty strings included), "
                  "packed_field_chars, header_line_roundtrip (every name without ':' and EVERY value), path_query_roundtrip / path_with_query_splits (a query written on the path), and the composition request_roundtrip_partial: for every "
                  "spec satisfying the explicit decidable predicate WF (inhabited by an example) recover(build spec) = view spec — method, path, query list, all "
                  "header fields on the wire in order, body (raw / JSON / urlencoded / multipart), nothing left unconsumed — with spec_headers_recovered, body_recovered, plain_path_view tying the view back to the caller's own fields, "
                  "and requests_recovered_in_sequence_partial: any number of WF requests on one connection are recovered one by one, each as if alone (no state carried over). "
                  "_partial because WF excludes the two recorded defects, which are proved to fail on witnesses: repeated_header_keeps_last (F50, C14-K1) and "
                  "path_tab_is_dropped (C14-K2).  The always-safe table, METHODS and the default header values the proofs use are re-extracted on every run; "
                  "the hand-written models (incl. the Lean urllib.parse) are tied to the code and to the stdlib by a seeded differential run of built bytes and recovered fields.")
    level_note = ("Trusted: Lean kernel + propext/Classical.choice/Quot.sound; translator harness/extract/httpflow.py; UTF-8/latin-1 codecs and json.dumps of CPython "
                  "(text crosses as bytes; the JSON text is a parameter); the sampled correspondence for the hand-written build/recover models; chunked request bodies, "
                  "multipart forms and paths that urlsplit would re-split ('?', '#', leading '//') are declined by the model (Exn.unmodelled) and never generated.")
    quick_n = 1200
    thorough_n = 30000
    rule = ("case = sequence of 1..6 requests sent over ONE server connection (one Requestant, reused; fresh Requester, Requester.rebuild with path=, or rebuild WITHOUT path= so that the stored path is used again; or the same through a clienting.Client: "
            "constructor arguments with path= as path or as full URL, Client.request with/without path=, Client.transmit(args); query arguments / headers not passed (inherited) | passed empty | passed non-empty), request stream cut at random points; "
            "each request = (method in any case, unicode path with reserved / percent-look-alike / non-ASCII characters, optionally a query string written on the path "
            "('+', escapes in names and values, names colliding with the dict) and a fragment, query dict with arbitrary string keys and values, header list (token names, "
            "values over the full latin-1 range without CR/LF incl. byte sequences that are valid UTF-8, repeated names), body raw | JSON data | urlencoded form | multipart form (non-ASCII field text), explicit Content-Length or not); "
            "later requests of a sequence drop headers / body of earlier ones; plus direct quote/unquote/parse_qsl cross-checks against urllib.parse.  "
            "non-trivial = more than one request, or a reserved / non-ASCII character in path or query, or >= 2 headers, or a body; distinct by request line")
    trusted_base = ["correspondence harness/props/C14.py: compiled model driver vs Requester.build + Requestant + Server.buildEnviron (harness/areas/httpflow.py c14_run)",
                    "translator harness/extract/httpflow.py (urllib.parse._ALWAYS_SAFE, httping.METHODS, default Accept-Encoding / Content-Type values, version string)",
                    "CPython str.encode/bytes.decode (utf-8, latin-1) and json.dumps are not modelled: text crosses as bytes, json.dumps output is a parameter",
                    "urllib.parse.parse_qsl(keep_blank_values=True) as the query decoder of the WSGI side (modelled in Lean, cross-checked on every run)"]
    assumptions = ["strings hold no lone surrogates (they cannot be UTF-8 encoded at all)",
                   "the path part starts with exactly one '/'; a query string on the path is name=value parts joined by '&' with valid UTF-8 escapes",
                   "the multipart boundary is fixed by patching random.randint in the harness process (it is a parameter of the model)"]

    def extract(self):
        return xhf.extract()

    # ------------------------------------------------------------------ cases
    # a case is ("seq", [spec, ...], (cuts, gap)) — requests sent one after the other over ONE server connection — or a
    # stdlib cross-check (kind, bytes).   spec = (method, path, qargs, headers, bkind, bval, explicit_cl, fresh)
    def corpus(self):
        u = lambda s: s.encode("utf-8")
        one = lambda *sp: ("seq", [sp + (True,)], ([], 1))
        return [
            one(b"get", u("/a b/ü"), [(u("k 1"), u("v&=1")), (u("a&b=c"), u("x"))], [(b"x-one", b"1")], 0, b"", False),     # F19 witness (reserved chars in keys)
            one(b"POST", u("/p"), [(u("ké"), u("v"))], [], 0, b"hello\r\n\r\nworld", True),                              # F19 witness (non-ASCII key -> idna)
            one(b"POST", u("/p"), [], [(b"x-one", b"1"), (b"X-ONE", b"2")], 0, b"", False),                                    # F50 witness
            one(b"PUT", u("/p\tq\n"), [], [(b"a-b", b" v "), (b"a_b", b"")], 1, b'{"a":[1,"x"]}', False),                      # C14-K2 witness
            one(b"POST", u("/p"), [], [], 2, [(u("a b"), u("c d")), (u("e"), u(""))], False),
            one(b"GET", u("/"), [(b"", b"")], [], 0, b"dropped", False),
            one(b"delete", u("/%41%zz%/+&=;"), [(u("="), u("&")), (u("+"), u(" ")), (u("%"), u("%25"))], [(b"Host", b"other:1")], 0, b"\x00\xff", True),
            one(b"Options", u("/\U0001F600/ x"), [(u("中"), u("文"))] * 1, [(b"accept-encoding", b"gzip")], 0, b"", True),
            # multipart form with non-ASCII names and values, no explicit Content-Length
            one(b"POST", u("/up"), [], [(b"Content-Type", b"multipart/form-data")], 2, [(u("naïve"), u("valeur é 中")), (u("b"), u(""))], False),
            # query given on the path: '+', escapes in names and values, merged with / overriding the dict, fragment dropped
            one(b"GET", u("/x?q=hello+world&a%26b=1"), [], [], 0, b"", False),
            one(b"GET", u("/x?q=new+v&n%C3%A9w=%E4%B8%AD#frag"), [(u("q"), u("old")), (u("z"), u("1"))], [], 0, b"", False),
            # several requests through one connection: header sets differ, POST with body then bodyless requests
            ("seq", [(b"POST", u("/1"), [], [(b"X-Token", b"s3cret"), (b"Content-Type", b"text/x")], 0, b"body-one", False, True),
                     (b"GET", u("/2"), [(u("a"), u("b"))], [], 0, b"", False, False),
                     (b"POST", u("/3"), [], [(b"X-Other", b"o")], 0, b"", False, True),
                     (b"PUT", u("/4"), [], [], 1, b'{"k":"v"}', False, False)], ([], 1)),
            ("seq", [(b"POST", u("/a"), [], [], 2, [(u("f"), u("é"))], False, True), (b"DELETE", u("/b"), [], [(b"X-A", b"1")], 0, b"", False, True),
                     (b"GET", u("/c?x=1"), [], [], 0, b"", False, False)], ([40, 90, 200], 2)),
            # latin-1 header values whose bytes are valid UTF-8 must come back as the same latin-1 text
            one(b"GET", u("/h"), [], [(b"X-Name", b"\xc3\xa9tude"), (b"X-Euro", b"\xe2\x82\xac"), (b"X-Mixed", b"caf\xe9 \xc3\xbc")], 0, b"", False),
            # a second and third build on the same Requester WITHOUT path=: the stored path (space, unicode, '%') is used again, not re-quoted
            ("seq", [(b"GET", u("/a b/é%41/50%"), [(u("q"), u("1"))], [], 0, b"", False, True),
                     (b"POST", u("/ignored"), [], [(b"X-A", b"1")], 0, b"body", False, 2),
                     (b"GET", u("/ignored-too"), [(u("z"), u("2"))], [], 0, b"", False, 2)], ([], 1)),
            ("seq", [(b"GET", u("/p q?x=1#f"), [], [], 0, b"", False, True), (b"GET", u("/zz"), [], [], 0, b"", False, 2)], ([60], 2)),
            # exactly at / one beyond the server's limits: 100 distinct header names on the wire (98 + Host + Accept-Encoding), and 101
            one(b"GET", u("/lim"), [], [(b"X-H%d" % i, b"v") for i in range(98)], 0, b"", False),
            one(b"GET", u("/lim"), [], [(b"X-H%d" % i, b"v") for i in range(99)], 0, b"", False),
            ("seq", [(b"POST", u("/lim"), [], [(b"X-H%d" % i, b"v") for i in range(97)], 0, b"b", False, True), (b"GET", u("/after"), [], [], 0, b"", False, True)], ([], 1)),
            # a header line of exactly MAX_LINE_SIZE bytes ("X-L: " is 5 bytes), and one byte more
            one(b"GET", u("/len"), [], [(b"X-L", b"v" * (65536 - 5))], 0, b"", False),
            one(b"GET", u("/len"), [], [(b"X-L", b"v" * (65536 - 4))], 0, b"", False),
            one(b"GET", u("/" + "p" * (65536 - len("GET / HTTP/1.1"))), [], [], 0, b"", False),
            # through a clienting.Client: constructor arguments (path / full URL) with path parameters on the last segment, then request() / transmit(args)
            ("seq", [(b"GET", u("/matrix/cars;color=red"), [], [], 0, b"", False, True), (b"GET", u("/next;v=2"), [(b"a", b"1")], [(b"X-A", b"1")], 0, b"", False, False)], ([], 1), 1),
            ("seq", [(b"POST", u("/dépôt/file.txt;v=2?k=%26#frag"), [(b"z", b"1")], [(b"X-T", b"t")], 0, b"body", False, 3),
                     (b"PUT", u("/p;x=1,2"), [], [], 1, b'{"a":1}', False, 4), (b"GET", u("/unused"), [(b"q", b"2")], [], 0, b"", False, 2)], ([], 1), 1),
            # explicit EMPTY query arguments / headers after non-empty ones are empty; arguments not passed are inherited — Client.request and Requester.rebuild
            ("seq", [(b"GET", u("/a?x=1"), [(b"token", b"abc")], [(b"X-Auth", b"s3cret")], 0, b"", False, True), (b"GET", u("/b"), [], [], 0, b"", False, False),
                     (b"GET", u("/c"), [(b"n", b"1")], [(b"X-B", b"2")], 0, b"", False, False), (b"GET", u("/d"), None, None, 0, b"", False, False),
                     (b"POST", u("/e"), [], None, 0, b"x", False, 2), (b"GET", u("/f"), None, [], 0, b"", False, 4)], ([], 1), 1),
            ("seq", [(b"GET", u("/a?x=1"), [(b"token", b"abc")], [(b"X-Auth", b"s3cret")], 0, b"", False, True), (b"GET", u("/b"), None, None, 0, b"", False, False),
                     (b"GET", u("/c"), [], [], 0, b"", False, 2)], ([], 1), 0),
            ("quote", u("a b/é%+~")), ("unquote", b"%41%zz%%4a%4"), ("unquote_plus", b"a+b%2Bc%"), ("parse_qsl", b"a=1&&b&=c&d=%26+x&=&&"), ("parse_qsl", b""),
        ]

    def exhaustive(self, tier):
        if tier != "thorough":
            return [], None
        from urllib.parse import quote_plus
        cs = []
        one = lambda *sp: ("seq", [sp + (True,)], ([], 1))
        for cp in range(0, 0x300):
            ch = chr(cp)
            if ch in "\t\r\n":
                continue
            b = ch.encode("utf-8")
            cs.append(one(b"GET", b"/a" + (b if ch not in "?#" else b"") + b"z", [(b, b"v" + b), (b"k" + b + b"k", b)], [], 0, b"", False))
            # the same character in a query string written on the path, and in a multipart form field
            cs.append(one(b"GET", b"/p?" + quote_plus("n" + ch).encode() + b"=" + quote_plus(ch + "v").encode(), [(b"z", b"1")], [], 0, b"", False))
            if ch not in '"' and cp >= 32:
                cs.append(one(b"POST", b"/f", [], [(b"Content-Type", b"multipart/form-data")], 2, [(b"n", b"v" + b), (b"m" + (b if cp > 127 else b""), b)], False))
        for x in range(32, 256):
            if x not in (10, 13):
                cs.append(one(b"POST", b"/h", [], [(b"X-V", bytes([x])), (b"X-W", b"a" + bytes([x]) + b"b")], 0, bytes([x]), False))
        for x in range(256):
            cs.append(("quote", bytes([x, 65, x])))
            cs.append(("quote_plus", bytes([x, 32, x])))
        # every ordered pair of request shapes on one connection
        shapes = [(b"GET", b"/g", [], [], 0, b"", False), (b"POST", b"/b", [], [(b"X-Token", b"t")], 0, b"body", False),
                  (b"POST", b"/e", [], [(b"X-Other", b"o")], 0, b"", False), (b"PUT", b"/j", [], [], 1, b'{"a":"\\u00e9"}', False),
                  (b"POST", b"/f", [], [], 2, [(b"k", "é".encode())], False), (b"POST", b"/m", [], [(b"Content-Type", b"multipart/form-data")], 2, [("é".encode(), b"v")], False),
                  (b"DELETE", b"/x", [], [(b"X-Token", b"u"), (b"Accept", b"*/*")], 0, b"zz", True)]
        for a in shapes:
            for b in shapes:
                for fresh in (True, False, 2):
                    cs.append(("seq", [a + (True,), b + (fresh,)], ([], 1)))
        for cp in list(range(32, 0x180)) + [0x20ac, 0x4e2d]:
            ch = chr(cp)
            if ch not in "?#":
                cs.append(("seq", [(b"GET", ("/s" + ch + "e").encode("utf-8"), [], [], 0, b"", False, True), (b"GET", b"/unused", [], [], 0, b"", False, 2)], ([], 1)))
            if cp > 127:
                cs.append(one(b"GET", b"/v", [], [(b"X-U", ch.encode("utf-8")), (b"X-W", b"a" + ch.encode("utf-8"))], 0, b"", False))
        return cs, ("every code point < U+0300 as path character, dict query key/value, path-borne query name/value and multipart field text; every byte 32..255 "
                    "(except CR LF) as header value and body; quote/quote_plus of every byte; every ordered pair of 7 request shapes on one connection (fresh / rebuilt Requester)")

    def _text(self, rng, n, atoms):
        return "".join(rng.choice(atoms) for _ in range(n))

    def _json(self, rng, depth=0):
        k = rng.random()
        if depth > 2 or k < 0.4:
            return rng.choice([0, 1, -5, 3.5, True, None, "", "x", "café 中", "a\"b\\c\n", 10 ** 20])
        if k < 0.7:
            return [self._json(rng, depth + 1) for _ in range(rng.randrange(0, 4))]
        return {self._text(rng, rng.randrange(0, 3), TEXT_ATOMS): self._json(rng, depth + 1) for _ in range(rng.randrange(0, 4))}

    def _pathquery(self, rng):
        """a query string as a caller would write it on the path: name=value parts, each side encoded one of the usual ways"""
        from urllib.parse import quote, quote_plus
        parts = []
        for _ in range(rng.choice([1, 1, 2, 3])):
            sides = []
            for _ in range(2):
                t = self._text(rng, rng.choice([0, 1, 1, 2, 3]), [a for a in TEXT_ATOMS if a not in ("\x00",)])
                enc = rng.choice([quote_plus, lambda x: quote(x, safe=""), lambda x: quote_plus(x).replace("%2C", ",").replace("%3A", ":")])
                sides.append(enc(t))
            parts.append(sides[0] + "=" + sides[1])
        if rng.random() < 0.1:
            parts.insert(rng.randrange(len(parts) + 1), "")      # 'a=1&&b=2'
        return "&".join(parts)

    def _spec(self, rng, allow_unsafe):
        u = lambda s: s.encode("utf-8")
        m = rng.choice(METHODS)
        c = rng.random()
        method = m if c < 0.6 else (m.lower() if c < 0.85 else (m.title() if c < 0.985 else b"BREW"))
        segs = []
        for _ in range(rng.choice([0, 1, 1, 2, 3, 5])):
            atoms = TEXT_ATOMS + (UNSAFE if allow_unsafe and rng.random() < 0.04 else [])
            segs.append(self._text(rng, rng.choice([1, 1, 2, 3, 6]), [a for a in atoms if a != "/"]) or "s")
        path = "/" + "/".join(segs)
        if rng.random() < 0.15:      # path parameters / matrix parameters on the LAST segment
            path += rng.choice([";v=2", ";color=red,blue", ";a;b=1", ";", ";jsessionid=AB12", ";k=é"])
        if "".join(c for c in path if c not in "\t\r\n").startswith("//"):
            path = "/x" + path[1:]
        if rng.random() < 0.25:
            path += "?" + self._pathquery(rng)
            if rng.random() < 0.15:
                path += "#" + rng.choice(["frag", "a=b", "x?y"])
        qargs = {}
        for _ in range(rng.choice([0, 0, 1, 2, 3, 5])):
            qargs[self._text(rng, rng.choice([0, 1, 1, 2, 4]), TEXT_ATOMS + QUERY_ONLY)] = self._text(rng, rng.choice([0, 1, 1, 2, 4]), TEXT_ATOMS + QUERY_ONLY)
        if "?" in path and rng.random() < 0.4:      # a name that is also on the path
            from urllib.parse import parse_qsl
            pq = parse_qsl(path.split("?", 1)[1].split("#", 1)[0], keep_blank_values=True)
            if pq:
                qargs[rng.choice(pq)[0]] = "from-dict"
        headers = []
        for _ in range(rng.choice([0, 0, 1, 2, 3, 5, 8])):
            if rng.random() < 0.5:
                name = rng.choice(HNAMES)
            else:
                name = "".join(rng.choice(TOKEN) for _ in range(rng.choice([1, 2, 5, 12]))).encode("ascii")
            if name.lower().decode() in SPECIAL:
                continue
            c = rng.random()
            if c < 0.45:
                v = rng.choice(HVALS)
            elif c < 0.7:     # latin-1 text whose bytes happen to be valid UTF-8 ('Ã©tude', 'â\x82¬' ...): still latin-1 for HTTP
                v = self._text(rng, rng.choice([1, 2, 3]), ["é", "ü", "€", "中", "\U0001F600", "a", " ", "tude", "ß", "ñ"]).encode("utf-8")
            else:
                v = bytes(rng.choice([rng.randrange(32, 256), rng.randrange(128, 256), rng.randrange(32, 127), 9]) for _ in range(rng.randrange(0, 12)))
            v = bytes(x for x in v if x not in (10, 13))
            if b"close" in v.lower():
                continue
            headers.append((name, v))
        if rng.random() < 0.9:      # mostly no repeated names (C14-K1)
            seen = set()
            headers = [h for h in headers if not (h[0].lower() in seen or seen.add(h[0].lower()))]
        b = rng.random()
        explicit = False
        if b < 0.5:
            bkind = 0
            c = rng.random()
            bval = b"" if c < 0.3 else (rng.choice([b"\r\n\r\n", b"GET / HTTP/1.1\r\n\r\n", b"0\r\n\r\n", b"a=b&c=d", u("caf\u00e9 \u4e2d")]) if c < 0.45
                                       else bytes(rng.randrange(256) for _ in range(rng.choice([1, 2, 10, 100, 300]))))
            explicit = rng.choice([True, True, 2]) if (rng.random() < 0.4 and method.upper() != b"GET") else False
        elif b < 0.72:
            bkind = 1
            data = self._json(rng)
            if data is None:           # data=None means "no JSON data" to Requester
                data = {}
            bval = json.dumps(data, separators=(",", ":")).encode("utf-8")
            headers = [h for h in headers if h[0].lower() != b"content-type"]
        else:
            bkind = 2
            form = {}
            for _ in range(rng.choice([0, 1, 2, 4])):
                form[self._text(rng, rng.choice([1, 2, 3]), FORM_ATOMS)] = self._text(rng, rng.choice([0, 1, 3]), FORM_ATOMS)
            bval = [(u(a), u(c)) for a, c in form.items()]
            headers = [h for h in headers if h[0].lower() != b"content-type"]
            if rng.random() < 0.45:
                headers.insert(rng.randrange(len(headers) + 1), (rng.choice([b"Content-Type", b"content-type"]), rng.choice([b"multipart/form-data", b"multipart/form-data; boundary=x"])))
        return (method, u(path), [(u(a), u(c)) for a, c in qargs.items()], headers, bkind, bval, explicit, rng.choice([True, True, False, False, 2, 2]))

    def generate(self, rng, n, tier):
        u = lambda s: s.encode("utf-8")
        for _ in range(n):
            k = rng.random()
            if k < 0.1:
                kind = rng.choice(["quote", "quote_plus", "unquote", "unquote_plus", "parse_qsl"])
                if kind.startswith("quote"):
                    b = bytes(rng.choice([rng.randrange(256), rng.randrange(32, 127)]) for _ in range(rng.randrange(0, 20)))
                else:
                    b = u(self._text(rng, rng.randrange(0, 10), TEXT_ATOMS + ["%", "%4", "%C3%A9", "&", "=", "+", "&&", "=="]))
                yield (kind, b)
                continue
            m = rng.choice([1, 1, 1, 2, 2, 3, 4, 6])
            specs = [self._spec(rng, allow_unsafe=(m == 1)) for _ in range(m)]
            if m > 1 and rng.random() < 0.5:
                # later requests carry FEWER / other header fields and no body after one with a body
                i = rng.randrange(1, m)
                sp = specs[i]
                specs[i] = (rng.choice([b"GET", b"POST", b"DELETE"]), sp[1], sp[2], sp[3][:rng.choice([0, 0, 1])], 0, b"", False, sp[7])
            if m > 1 and rng.random() < 0.3:
                # consecutive requests with EQUAL query dicts (the adapter then passes one and the same dict object), the earlier one with a query on its path
                i = rng.randrange(0, m - 1)
                a, b = specs[i], specs[i + 1]
                qa = a[2] or [(b"shared", b"1")]
                pa = a[1] if b"?" in a[1] else _pathpart(a[1]) + b"?" + self._pathquery(rng).encode("utf-8")
                specs[i] = (a[0], pa, qa) + tuple(a[3:])
                specs[i + 1] = (b[0], b[1], list(qa)) + tuple(b[3:])
            # every way in: Requester objects used directly, or a clienting.Client (constructor arguments as path or full URL, request(), transmit(args))
            route = 1 if rng.random() < 0.4 else 0
            for i, sp in enumerate(specs):
                fr = sp[7]
                if fr is True and rng.random() < 0.4:
                    fr = 3
                elif fr is False and rng.random() < 0.3:
                    fr = 4
                specs[i] = sp[:7] + (fr,)
            # arguments NOT passed (None: the previous request's are inherited) and arguments passed EMPTY after non-empty ones (nothing is inherited)
            for i in range(1, m):
                sp, pv = specs[i], specs[i - 1]
                if sp[7] in (True, 3) or pv[2] is None or pv[3] is None:
                    continue
                plain_prev = pv[4] == 0 and not pv[6] and pv[0].upper() in METHODS and not any(c in pv[1] for c in b"\t\r\n")
                q, h, ex = sp[2], sp[3], sp[6]
                k = rng.random()
                if plain_prev and k < 0.2:
                    q = None
                elif k < 0.4:
                    q = []
                k = rng.random()
                if plain_prev and k < 0.2 and sp[4] == 0:
                    h, ex = None, False
                elif k < 0.4 and not any(n.lower() == b"content-type" for n, _ in h):
                    h = []
                specs[i] = (sp[0], sp[1], q, h, sp[4], sp[5], ex, sp[7])
            cuts = sorted(rng.randrange(0, 400 * m) for _ in range(rng.choice([0, 0, 1, 3, 6])))
            yield ("seq", specs, (cuts, rng.choice([1, 1, 2, 3])), route)

    def request(self, case):
        if case[0] != "seq":
            return (case[0], case[1])
        out = []
        for method, path, qargs, headers, bkind, bval, explicit, fresh in effective(case[1]):
            hs = list(headers)
            if bkind == 0 and explicit:
                hs.append((b"Content-Length", (b"00" if explicit == 2 else b"") + str(len(bval)).encode()))
            raw = bval if bkind in (0, 1) else b""
            form = bval if bkind == 2 else []
            out.append((method, path, [(k, v) for k, v in qargs], [(n, v) for n, v in hs], bkind, raw, [(k, v) for k, v in form],
                        CLIENT_HOST if route_of(case) else HOST, hf.C14_BOUNDARY))
        return ("c14", out)

    # ------------------------------------------------------------------ real code
    def run_impl(self, case):
        import urllib.parse as up
        if case[0] != "seq":
            kind, b = case
            if kind == "quote":
                return (up.quote_from_bytes(b).encode("ascii"),)
            if kind == "quote_plus":
                return (up.quote_plus(b).encode("ascii"),)
            if kind == "unquote":
                return (up.unquote_to_bytes(b),)
            if kind == "unquote_plus":
                return (up.unquote_to_bytes(b.replace(b"+", b" ")),)
            if kind == "parse_qsl":
                # byte level: latin-1 in, latin-1 out (the str-level utf-8 'replace' decoding is not part of the model)
                return ([(k.encode("latin-1"), v.encode("latin-1"))
                         for k, v in up.parse_qsl(b.decode("latin-1"), keep_blank_values=True, encoding="latin-1")],)
            raise core.Infra("bad case")
        o = hf.c14_seq_run(case[1], case[2], route_of(case))
        sp = "surrogatepass"
        builts = [b if isinstance(b, bytes) else ("raise", "unmodelled") for b in o["builts"]]
        views, extras = [], []
        for v in o["views"]:
            views.append(("ok", _l1(v["method"]), _u8(v["path"]), [(_u8(k), _u8(w)) for k, w in v["query"]],
                          [(_l1(k), _l1(w)) for k, w in v["headers"]], v["body"]))
            # exact code-point strings (as UTF-8) for the oracle
            extras.append(([(_u8(k), _u8(w)) for k, w in sorted(v["env"].items())], _u8(v["env_method"]), _u8(v["env_path"]), v["env_body"],
                           [(_u8(k), _u8(w)) for k, w in v["headers"]]))
        if o["raised"]:
            views.append(("error", o["raised"]))
        elif len(o["views"]) < o["n_sent"]:
            views.append(("error", "HTTPException" if o["closed"] else "incomplete"))
        return (builts, views, ("x", extras, o["leftover"], o["closed"]))

    def compare_view(self, case, obs):
        if case[0] != "seq":
            v = obs[0]
            return sx.dumps(v if isinstance(v, bytes) else [(k, w) for k, w in v])
        return sx.dumps(obs[:2])

    # ------------------------------------------------------------------ the property
    def _split_path(self, path):
        """(path proper, query string on the path | None) of what the caller passed as path"""
        p = path.split("#", 1)[0]
        if "?" in p:
            a, b = p.split("?", 1)
            return a, b
        return p, None

    def wf(self, spec):
        method, path, qargs, headers, bkind, bval, explicit, fresh = spec
        if method.upper() not in METHODS:
            return False
        try:
            full = path.decode("utf-8")
        except UnicodeDecodeError:
            return False
        p, pq = self._split_path(full)
        if not p.startswith("/") or p.startswith("//"):
            return False
        if pq is not None:
            if ";" in pq or any(part and "=" not in part for part in pq.split("&")):
                return False
            try:
                for part in pq.split("&"):
                    unquote(part.replace("+", " "), errors="strict")
            except UnicodeDecodeError:
                return False
        if len({k for k, _ in qargs}) != len(qargs):
            return False
        for n, v in headers:
            if not hf.token_ok(n.decode("latin-1")) or b"\r" in v or b"\n" in v or n.lower().decode() in SPECIAL:
                return False
            if n.lower() == b"content-type" and (bkind == 1 or (bkind == 2 and not v.startswith(b"multipart/form-data"))):
                return False
        if method.upper() == b"GET" and explicit and bval:
            return False
        return True

    def within_limits(self, spec, built):
        """the server's own limits (httping.MAX_HEADERS distinct header names, MAX_LINE_SIZE per line) — a request beyond them is refused by design"""
        from hio.core.http import httping
        method, path, qargs, headers, bkind, bval, explicit, fresh = spec
        names = {n.lower() for n, _ in headers} | {b"host", b"accept-encoding"}
        if method.upper() != b"GET" and (bkind in (1, 2) or bval):
            names |= {b"content-length"} | ({b"content-type"} if bkind in (1, 2) else set())
        if bkind == 0 and explicit:
            names |= {b"content-length"}
        if len(names) > httping.MAX_HEADERS:
            return False
        head = built.split(b"\r\n\r\n", 1)[0] if isinstance(built, bytes) else b""
        return all(len(line) <= httping.MAX_LINE_SIZE for line in head.split(b"\r\n"))

    def _expect_query(self, spec):
        method, path, qargs, headers, bkind, bval, explicit, fresh = spec
        exp = dict((k.decode("utf-8"), v.decode("utf-8")) for k, v in qargs)
        p, pq = self._split_path(path.decode("utf-8"))
        if pq:
            for k, v in parse_qsl(pq, keep_blank_values=True):
                exp[k] = v
        return [(k.encode("utf-8"), v.encode("utf-8")) for k, v in exp.items()]

    def _multipart(self, spec):
        method, path, qargs, headers, bkind, bval, explicit, fresh = spec
        return bkind == 2 and method.upper() != b"GET" and any(n.lower() == b"content-type" and v.startswith(b"multipart/form-data") for n, v in headers)

    def _clauses_one(self, spec, built, view, extra):
        """violated clauses for ONE request of the sequence"""
        import email
        import email.policy
        method, path, qargs, headers, bkind, bval, explicit, fresh = spec
        _, rmethod, rpath, rquery, rheaders, rbody = view
        env_items, env_method, env_path, env_body, hdr_items = extra
        sp = "surrogatepass"
        env = {k.decode("utf-8", sp): v.decode("utf-8", sp) for k, v in env_items}
        # header fields as the exact code-point strings the server holds; the client's bytes mean latin-1 text
        rstr = [(k.decode("utf-8", sp), v.decode("utf-8", sp)) for k, v in hdr_items]
        bad = []
        if rmethod != method.upper() or env_method != method.upper():
            bad.append("method")
        want_path = self._split_path(path.decode("utf-8"))[0].encode("utf-8")
        if rpath != want_path or env_path != want_path:
            bad.append("path")
        if rquery != self._expect_query(spec):
            bad.append("query-args")
        hs = list(headers)
        multipart = self._multipart(spec)
        if bkind == 0 and explicit:
            hs.append((b"Content-Length", (b"00" if explicit == 2 else b"") + str(len(bval)).encode()))
        envkeys = {}
        for n, v in hs:
            envkeys.setdefault("HTTP_" + n.decode("ascii").upper().replace("-", "_"), set()).add(n.lower())
        is_get = method.upper() == b"GET"
        for n, v in hs:
            if n.lower() == b"content-type" and multipart:
                continue                      # replaced by the client (boundary added)
            if (n.decode("latin-1").lower(), v.decode("latin-1")) not in rstr:
                bad.append("header-values")
                break
            key = "HTTP_" + n.decode("ascii").upper().replace("-", "_")
            if len(envkeys[key]) == 1 and not _dups(hs).get(n.lower()) and env.get(key) != v.decode("latin-1"):
                bad.append("environ-header")
                break
        # nothing the client did not send: only the caller's fields plus the client's own defaults
        allowed = {n.lower() for n, _ in hs} | {b"host", b"accept-encoding"}
        if rbody or (not is_get and ((bkind in (1, 2)) or bval)):
            allowed |= {b"content-length"}
        if not is_get and bkind in (1, 2):
            allowed |= {b"content-type"}
        if any(k.encode("utf-8", sp) not in allowed for k, _ in rstr):
            bad.append("header-not-sent")
        allowed_env = {"HTTP_" + k.decode("ascii").upper().replace("-", "_") for k in allowed} | {"CONTENT_TYPE", "CONTENT_LENGTH"}
        if any(k not in allowed_env for k in env):
            bad.append("environ-header-not-sent")
        # body: the bytes the client put after its head, and what they mean
        sent_body = built.split(b"\r\n\r\n", 1)[1] if b"\r\n\r\n" in built else None
        if env_body != rbody:
            bad.append("body-framing")
        if sent_body is not None and rbody != sent_body:
            bad.append("body-bytes")
        if is_get:
            if rbody != b"":
                bad.append("body")
        elif bkind == 0:
            if rbody != bval:
                bad.append("body")
        elif bkind == 1:
            try:
                if json.loads(rbody.decode("utf-8")) != json.loads(bval.decode("utf-8")) or not env.get("CONTENT_TYPE", "").startswith("application/json"):
                    bad.append("body")
            except ValueError:
                bad.append("body")
        elif multipart:
            ct = env.get("CONTENT_TYPE", "")
            plain = all(b'"' not in k and b"\r" not in k and b"\n" not in k and hf.C14_BOUNDARY not in k + v and not v.endswith((b"\r", b"\n")) and not v.startswith((b"\r", b"\n"))
                        for k, v in bval)
            if not ct.startswith("multipart/form-data; boundary="):
                bad.append("body")
            elif plain and all(k.isascii() for k, _ in bval):
                msg = email.message_from_bytes(b"Content-Type: " + ct.encode("latin-1") + b"\r\n\r\n" + rbody, policy=email.policy.HTTP)
                got = []
                if msg.is_multipart():
                    for part in msg.iter_parts():
                        got.append((part.get_param("name", header="content-disposition"), part.get_payload(decode=True)))
                if got != [(k.decode("utf-8"), v) for k, v in bval]:
                    bad.append("body")
            elif not rbody.endswith(b"--" + hf.C14_BOUNDARY + b"--") or any(v not in rbody for _, v in bval):
                bad.append("body")
        else:
            plain = all(b"&" not in k and b"=" not in k and b"&" not in v and b"=" not in v for k, v in bval)
            if plain:
                got = [(k.encode("utf-8"), v.encode("utf-8")) for k, v in parse_qsl(rbody.decode("ascii", "replace"), keep_blank_values=True)]
                if got != [(k, v) for k, v in bval] or not env.get("CONTENT_TYPE", "").startswith("application/x-www-form-urlencoded"):
                    bad.append("body")
        if rbody and env.get("CONTENT_LENGTH") != str(len(rbody)):
            bad.append("content-length")
        return bad

    def _clauses(self, case, obs):
        """[(index of the request, clause)] — judged only while every request so far is inside the quantifier"""
        specs = effective(case[1])
        builts, views, (_, extras, leftover, closed) = obs
        out = []
        for i, spec in enumerate(specs):
            if not self.wf(spec) or not self.within_limits(spec, builts[i]):
                return out
            if not isinstance(builts[i], bytes):
                out.append((i, "build-raised"))
                return out
            if i >= len(views) or views[i][0] != "ok":
                out.append((i, "server-rejected-request" if closed or (i < len(views) and views[i][1] != "incomplete") else "request-not-dispatched"))
                return out
            out += [(i, c) for c in self._clauses_one(spec, builts[i], views[i], extras[i])]
        if leftover:
            out.append((len(specs) - 1, "unconsumed-bytes"))
        return out

    def oracle(self, case, obs):
        try:
            return self._oracle(case, obs)
        except (IndexError, KeyError, TypeError, ValueError, AttributeError, UnicodeError) as ex:
            return ["observation-not-accountable:" + type(ex).__name__]

    def _oracle(self, case, obs):
        import urllib.parse as up
        if case[0] != "seq":
            kind, b = case
            bad = []
            if kind == "quote" and up.unquote_to_bytes(obs[0]) != b:
                bad.append("stdlib-unquote-quote")
            return bad
        seen = []
        for _, c in self._clauses(case, obs):
            if c not in seen:
                seen.append(c)
        return seen

    def _k1(self, spec, view):
        """every spec header is recovered except the non-last values of repeated names, and each last value IS recovered"""
        headers = spec[3]
        d = _dups(headers)
        if not d:
            return False
        rheaders = view[4]
        mp = self._multipart(spec)
        for n, v in headers:
            if mp and n.lower() == b"content-type":
                continue
            if (n.lower(), v) not in rheaders and n.lower() not in d:
                return False
        return all((k, vs[-1]) in rheaders for k, vs in d.items() if not (mp and k == b"content-type"))

    def _k2(self, spec, view, extra):
        path = spec[1]
        if not any(c in path for c in b"\t\r\n"):
            return False
        stripped = bytes(c for c in path if c not in b"\t\r\n")
        stripped = self._split_path(stripped.decode("utf-8", "replace"))[0].encode("utf-8")
        return view[2] == stripped and extra[2] == stripped

    def known(self, case, obs, clauses):
        if case[0] != "seq":
            return None
        specs = effective(case[1])
        builts, views, (_, extras, leftover, closed) = obs
        ids = []
        for i, c in self._clauses(case, obs):
            spec = specs[i]
            if c == "header-values" and self._k1(spec, views[i]):
                ids.append("C14-K1")
            elif c == "path" and self._k2(spec, views[i], extras[i]):
                ids.append("C14-K2")
            elif c == "server-rejected-request" and any(ch in spec[1] for ch in b"\t\r\n") and \
                    bytes(ch for ch in spec[1] if ch not in b"\t\r\n").startswith(b"//"):
                ids.append("C14-K2")     # other face: what is left starts with '//' and is re-read by urlsplit as an (empty) network location
            else:
                return None
        return ids[0] if ids else None

    def nontrivial(self, case, obs):
        if case[0] != "seq":
            return len(case[1]) > 0
        odd = lambda b: any(not (chr(c).isalnum() or c in b"/_.-~") for c in b)
        return len(case[1]) > 1 or any(odd(sp[1]) or any(odd(k) or odd(v) for k, v in sp[2]) or len(sp[3]) >= 2 or bool(sp[5]) for sp in effective(case[1]))

    def features(self, case, obs):
        if case[0] != "seq":
            return ["stdlib:" + case[0]]
        f = [f"seq={min(len(case[1]), 6)}", "fragmented" if case[2][0] else "whole", "route:" + ("Client" if route_of(case) else "Requester")]
        eff = effective(case[1])
        for i, sp in enumerate(eff):
            method, path, qargs, headers, bkind, bval, explicit, fresh = sp
            raw = case[1][i]
            restart = i == 0 or fresh is True or fresh == 3
            if route_of(case):
                f.append("client:" + ("constructor:full-url" if restart and fresh == 3 else "constructor:path" if restart else "transmit(args)" if fresh == 4 else "request()"))
                if restart and b";" in _pathpart(path).rsplit(b"/", 1)[-1]:
                    f.append("client:constructor:params-in-last-segment")
            if not restart:
                if raw[2] is None:
                    f.append("qargs:not-passed-inherits" + (":non-empty" if qargs else ""))
                elif not raw[2] and _merged_query(eff[i - 1]):
                    f.append("qargs:explicitly-empty-after-non-empty" + (":Client.request" if route_of(case) and fresh != 4 else ""))
                if raw[3] is None:
                    f.append("headers:not-passed-inherits" + (":non-empty" if headers else ""))
                elif not raw[3] and eff[i - 1][3]:
                    f.append("headers:explicitly-empty-after-non-empty" + (":Client.request" if route_of(case) and fresh != 4 else ""))
            f += ["req", "wf" if self.wf(sp) else "outside-quantifier", "method:" + method.upper().decode("latin-1"),
                  "body:" + (["raw", "json", "form"][bkind] if not self._multipart(sp) else "multipart") + (":explicit-cl" if explicit else ""),
                  f"qargs={min(len(qargs), 4)}", f"headers={min(len(headers), 6)}", "requester:" + ("fresh" if fresh is True or fresh == 1 or fresh == 3 or i == 0 else ("reuses-stored-path" + (":quote-alters-it" if any(not (chr(c).isalnum() or c in b"/_.-~") for c in path) else "") if fresh == 2 else "rebuild"))]
            if b"?" in path:
                f.append("path:with-query")
                if any(k in dict(self._expect_query(sp)) for k, _ in qargs):
                    f.append("path-query:merged-with-dict")
            if any(c > 127 for c in path):
                f.append("path:non-ascii")
            if any(any(c in k for c in b"&=+%#? ") for k, _ in qargs):
                f.append("qkey:reserved")
            if bkind in (1, 2) and any(c > 127 for c in (bval if bkind == 1 else b"".join(k + v for k, v in bval))):
                f.append("body:non-ascii-text")
            if _dups(headers):
                f.append("header:repeated")
            if i > 0:
                prev = eff[i - 1]
                if {n.lower() for n, _ in prev[3]} - {n.lower() for n, _ in headers}:
                    f.append("seq:drops-a-header-of-previous")
                if prev[5] and prev[0].upper() != b"GET" and not (bval and method.upper() != b"GET"):
                    f.append("seq:bodyless-after-body")
        if obs[1] and obs[1][-1][0] != "ok":
            f.append("server:" + str(obs[1][-1][1]))
        return f

    def _shrink_spec(self, sp):
        method, path, qargs, headers, bkind, bval, explicit, fresh = sp
        if qargs is None or headers is None:
            yield (method, path, qargs or [], headers or [], bkind, bval, explicit, fresh)
            return
        mk = lambda **kw: (kw.get("method", method), kw.get("path", path), kw.get("qargs", qargs), kw.get("headers", headers),
                           kw.get("bkind", bkind), kw.get("bval", bval), kw.get("explicit", explicit), fresh)
        for i in range(len(headers)):
            yield mk(headers=headers[:i] + headers[i + 1:])
        for i in range(len(qargs)):
            yield mk(qargs=qargs[:i] + qargs[i + 1:])
        if bkind == 2 and len(bval) > 1:
            for i in range(len(bval)):
                yield mk(bval=bval[:i] + bval[i + 1:])
        if bkind != 0 or bval or explicit:
            yield mk(bkind=0, bval=b"", explicit=False)
        try:
            p = path.decode("utf-8")
            if "#" in p:
                yield mk(path=p.split("#", 1)[0].encode("utf-8"))
            if "?" in p:
                a, b = p.split("#", 1)[0].split("?", 1)
                yield mk(path=a.encode("utf-8"))
                parts = b.split("&")
                for i in range(len(parts)):
                    if len(parts) > 1:
                        yield mk(path=(a + "?" + "&".join(parts[:i] + parts[i + 1:])).encode("utf-8"))
            else:
                for i in range(1, len(p)):
                    q = p[:i] + p[i + 1:]
                    if q.startswith("/") and not q.startswith("//"):
                        yield mk(path=q.encode("utf-8"))
        except UnicodeDecodeError:
            pass
        for i, (k, v) in enumerate(qargs):
            for k2, v2 in ((k[:-1], v), (k, v[:-1])):
                try:
                    k2.decode("utf-8"), v2.decode("utf-8")
                except UnicodeDecodeError:
                    continue
                if (k2, v2) != (k, v) and k2 not in [a for j, (a, _) in enumerate(qargs) if j != i]:
                    yield mk(qargs=qargs[:i] + [(k2, v2)] + qargs[i + 1:])
        for i, (n, v) in enumerate(headers):
            if v and not (n.lower() == b"content-type" and bkind == 2):
                yield mk(headers=headers[:i] + [(n, v[:-1])] + headers[i + 1:])

    def shrink(self, case):
        if case[0] != "seq":
            b = case[1]
            for i in range(len(b)):
                yield (case[0], b[:i] + b[i + 1:])
            return
        specs, sched = case[1], case[2]
        rt = tuple(case[3:])
        if rt and rt[0]:
            yield ("seq", specs, sched)
        if sched != ([], 1):
            yield ("seq", specs, ([], 1)) + rt
        if len(specs) > 1:
            for i in range(len(specs)):
                yield ("seq", specs[:i] + specs[i + 1:], sched) + rt
        for i, sp in enumerate(specs):
            for sp2 in self._shrink_spec(sp):
                yield ("seq", specs[:i] + [sp2] + specs[i + 1:], sched) + rt

    def mutate(self, rng, case):
        return list(self.shrink(case))[:60]


CHECK = C14()
