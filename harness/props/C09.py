"""C09 — TCP/TLS byte streams are delivered exactly, in order, under partial I/O (hio.core.tcp, hio.core.wiring)."""
from .. import core, sx
from ..areas import tcp as T
from ..extract import tcp as xtcp
import errno


def _payload(ops):
    return b"".join(op[1] for op in ops if op[0] == "tx")


def _only_wb(kind, script):
    wb = set(T.wouldblock_codes(kind))
    return all(r[0] != "f" or r[1] in wb for r in script)


def _eff(case):
    """(kind, wl, ops, sends, recvs) with the bytes a caller-supplied txbs held at construction as a first tx"""
    kind, wl, ops, sends, recvs = case[:5]
    own = case[6] if len(case) > 6 else None
    if own and own != "norefresh" and kind.startswith("client"):
        ops = [("tx", bytes(own))] + list(ops)
    return kind, wl, ops, sends, recvs


def _wlflags(wl):
    """(attached, txed, rxed) of the wire-log element of a case"""
    if isinstance(wl, (list, tuple)) and wl and wl[0] == "cfg":
        return True, bool(wl[5]), bool(wl[4])
    return bool(wl), True, True


def _srv_parts(case):
    """("srvw", tls, log open at start, ops[, txed, rxed]) | ("srvs", tls, ops) -> (tls, wl attached, open, ops, txed, rxed)"""
    if case[0] == "srvs":
        return case[1], False, False, case[2], True, True
    return case[1], True, bool(case[2]), case[3], (bool(case[4]) if len(case) > 4 else True), (bool(case[5]) if len(case) > 5 else True)


def _server_stream_clauses(ops, steps):
    """the C09 stream property PER CONNECTION of a multi-connection server: what a connection's socket accepted ++ what is still
    queued for it == everything transmitIx queued for it, in order; and every service pass moves at least one byte on a healthy
    connection (in the table, not cut off, its socket taking >= 1 byte per send) that has output queued — whatever the
    sockets of the OTHER connections do"""
    bad = []
    conns = [op for op in ops if op[0] == "conn"]     # k-th accepted socket <-> k-th conn op (no close/reopen/dconn in these cases)
    queued = {}      # socket index -> bytes queued by transmitIx
    moved = {}       # socket index -> number of passes in which it moved bytes
    prev = {}
    for op, (st, snap) in zip(ops, steps):
        socks = [(i, e) for i, e in enumerate(snap) if e[0] != "listen"]
        by_ca = {}
        for k, (i, e) in enumerate(socks):
            if k < len(conns) and e[0] == "ix":
                by_ca[conns[k][1]] = i
        if op[0] == "tx" and st == "ok" and op[1] in by_ca:
            queued[by_ca[op[1]]] = queued.get(by_ca[op[1]], b"") + op[2]
        for k, (i, e) in enumerate(socks):
            q = queued.get(i, b"")
            kacc, ntx = e[6], e[5]
            if len(kacc) + ntx != len(q):
                bad.append("bytes-lost-or-duplicated")
            elif kacc != q[:len(kacc)]:
                bad.append("peer-not-prefix-in-order")
            if op[0] == "svc" and i in prev and k < len(conns):
                pw, pcut, pntx, pacc = prev[i]
                script = conns[k][2]
                healthy = bool(script) and all(x[0] == "acc" and x[1] >= 1 for x in script)
                if healthy and pw == "ix" and not pcut and pntx > 0 and moved.get(i, 0) < len(script) and len(kacc) <= pacc:
                    bad.append("healthy-not-drained")
                if len(kacc) > pacc:
                    moved[i] = moved.get(i, 0) + 1
            prev[i] = (e[0], e[1], ntx, len(kacc))
    return bad


class C09(core.Check):
    pid = "C09"
    pkg = "Tcp"
    props_mod = "HioModel.Props.C09"
    design_ref = "DESIGN.md §5 C09"
    technique = ("Lean 4 theorems over an executable model of the four connection classes driven by an arbitrary kernel-response script; "
                 "fault outcome tables regenerated from the source; differential run of the compiled model against the real classes on scripted fake sockets")
    level_text = ("Proved for every call history (tx / serviceSends / serviceReceives / service / peer-reset), every payload sequence and every kernel script, under the guard `no wire log, or a class whose wire-log call needs no peer address` (flags probed from the code; peer_safe_kinds discharges it for Client, ClientTls, Remoter; stream_fails_if_wirelog_needs_peer proves the excluded case loses/duplicates bytes = known finding C09-K2 for RemoterTls, fix proposed on fix/tcp): "
                  "stream_prefix (accepted ++ txbs = all payloads, so the peer holds a prefix, nothing lost/duplicated/reordered), peer_has_prefix, rx_exact (rxbs = delivered), "
                  "wire_log_exact, wire_log_absent, drains (|txbs| service calls empty the buffer when each send takes >= 1 byte) and drains_delivers_all, receives_all. "
                  "The model is tied to the code by the correspondence run (same scripts on fake sockets handed to the real classes); thorough adds real loopback sockets.")
    level_note = ("Trusted: Lean kernel + standard axioms; translator harness/extract/tcp.py; the scripted fake socket as a stand-in for the kernel "
                  "(send returns how many bytes it took, recv returns bytes or raises); the kernel/TLS record layer between send() and the peer's recv() is not modelled.")
    quick_n = 3000
    thorough_n = 30000
    rule = ("case = (class, wirelog?, call history of tx/serviceSends/serviceReceives/service, send script, recv script); payloads 0..4 KiB (thorough: up to 1 MiB), "
            "acceptance patterns all/1-byte dribble/zero runs/half/mixed, would-block and faults at random call indices, EOF, short reads. "
            "non-trivial = at least one partial send (0 < n < len) or would-block or fault consumed, and >= 2 tx or >= 2 recv chunks; distinct by request line")
    trusted_base = ["translator harness/extract/tcp.py (outcome tables by probing the real methods over every errno + ssl classes)",
                    "correspondence harness/props/C09.py: compiled model vs real Client/ClientTls/Remoter/RemoterTls on scripted fake sockets",
                    "fake socket harness/areas/tcp.py:FakeSock stands in for the kernel"]
    assumptions = ["socket.send returns the number of bytes it accepted (a prefix of the argument); recv returns bytes, b'' at EOF, or raises",
                   "WireLog(samed=False, fmt=b'%(data)b') appends exactly the bytes given to writeTx/writeRx (exercised, not proved)"]

    def extract(self):
        return xtcp.extract()

    def corpus(self):
        e = T.EAGAIN
        return [
            ("remoter", True, [("tx", b"hello"), ("ss",), ("ss",), ("sr",), ("tx", b"xy"), ("svc",)], [("acc", 2), ("f", e), ("acc", 10)], [("d", b"abc"), ("d", b"de"), ("f", e), ("d", b"")]),
            ("client", True, [("tx", b""), ("tx", b"abc"), ("svc",), ("svc",), ("svc",), ("svc",)], [("acc", 0), ("acc", 1), ("acc", 1), ("acc", 1)], [("d", b"x")]),
            ("clienttls", True, [("tx", b"hello"), ("svc",), ("svc",), ("svc",)], [("f", T.WANT_WRITE), ("acc", 2), ("f", T.WANT_READ)], [("f", T.WANT_READ), ("d", b"abc")]),
            ("remotertls", True, [("tx", b"hello"), ("svc",), ("svc",)], [("acc", 2), ("f", T.SSLEOF)], [("d", b"abc"), ("f", T.SSLEOF)]),
            ("remotertls", False, [("tx", b"hello world"), ("ss",)] + [("ss",)] * 12, [("acc", 1)] * 14, []),
            ("client", True, [("tx", b"a" * 100), ("ss",), ("tx", b"b" * 100), ("ss",), ("ss",)], [("acc", 150), ("acc", 10), ("acc", 1000)], []),
            # the echo server with partial sends and input arriving while the previous echo is still draining
            ("srvs", False, [("conn", 1, [("acc", 3), ("acc", 3), ("acc", 9), ("acc", 9)], [("d", b"ABCDEFGH"), ("f", T.EAGAIN), ("d", b"IJKL")], []), ("svc",), ("svc",), ("svc",), ("svc",)], "echo"),
            ("srvs", True, [("conn", 1, [("acc", 1), ("acc", 2), ("acc", 9)], [("d", b"abcd"), ("f", T.WANT_READ), ("d", b"ef"), ("f", T.WANT_READ), ("d", b"g")], [("ok",)]),
                            ("conn", 2, [("acc", 9)], [("d", b"xy")], [("ok",)]), ("svc",), ("svc",), ("svc",), ("svc",), ("svc",)], "echo"),
            # refreshable switched off (constructor / assigned later): the wire log must still record what is sent
            ("remoter", True, [("tx", b"hello"), ("svc",), ("svc",)], [("acc", 2), ("acc", 9)], [("d", b"in")], None, "norefresh"),
            ("remotertls", "std", [("tx", b"hello"), ("svc",), ("svc",)], [("acc", 2), ("acc", 9)], [("d", b"in")], None, "norefresh"),
            ("srvw", False, True, [("conn", 1, [("acc", 2), ("acc", 9)], [("d", b"ab")], []), ("svc",), ("norefresh", 1), ("tx", 1, b"xyz"), ("svc",), ("svc",)]),
            # two connections: the one accepted first has a peer that does not read; the later one must still get its bytes
            ("srvs", False, [("conn", 1, [], [], []), ("conn", 2, [("acc", 9), ("acc", 9)], [], []), ("svc",), ("tx", 1, b"stuck"), ("tx", 2, b"flows"), ("svc",), ("svc",)]),
            ("srvs", True, [("conn", 1, [("acc", 1)], [], [("ok",)]), ("conn", 2, [("acc", 2), ("acc", 2), ("acc", 2)], [], [("ok",)]), ("conn", 3, [("acc", 9)], [], [("ok",)]),
                            ("svc",), ("tx", 1, b"abc"), ("tx", 2, b"defgh"), ("tx", 3, b"xyz"), ("svc",), ("svc",), ("svc",), ("svc",)]),
            # a wire log recording only one direction (server side and connection side)
            ("srvw", False, True, [("conn", 1, [("acc", 2), ("acc", 9)], [("d", b"ab")], []), ("svc",), ("tx", 1, b"xyz"), ("svc",), ("svc",)], True, False),
            ("srvw", True, False, [("conn", 1, [("acc", 9)], [("d", b"ab")], [("ok",)]), ("svc",), ("wlopen",), ("tx", 1, b"xyz"), ("svc",)], False, True),
            # a wire log attached to the server that is still closed when a connection is accepted and opened afterwards
            ("srvw", False, False, [("conn", 1, [("acc", 9), ("acc", 9)], [("d", b"ab"), ("f", T.EAGAIN), ("d", b"cd")], []), ("svc",), ("tx", 1, b"xy"), ("svc",), ("wlopen",), ("tx", 1, b"z"), ("svc",), ("svc",)]),
            ("srvw", True, True, [("conn", 1, [("acc", 1), ("acc", 9)], [("d", b"ab")], [("ok",)]), ("svc",), ("tx", 1, b"xy"), ("svc",), ("wlopen",), ("conn", 2, [("acc", 9)], [("d", b"q")], [("ok",)]), ("svc",), ("tx", 2, b"k"), ("svc",), ("svc",)]),
            ("wlclosed", "client"), ("wlclosed", "clienttls"), ("wlclosed", "remoter"), ("wlclosed", "remotertls"),
            # bytes queued before the connection is up must survive refused connects, the retry timer and an aborted handshake
            ("life", False, False, 0, [("tx", b"abc"), ("connect", errno.ECONNREFUSED, None), ("connect", 0, None), ("feed", [("acc", 9)], []), ("service", 0, None)]),
            ("life", False, True, 2, [("tx", b"ab"), ("connect", errno.EINPROGRESS, None), ("tick", 2), ("connect", errno.EALREADY, None), ("tx", b"c"), ("service", 0, None), ("feed", [("acc", 1), ("acc", 9)], []), ("service", 0, None), ("service", 0, None)]),
            ("life", True, False, 0, [("tx", b"hello"), ("connect", 0, ("f", errno.ECONNRESET)), ("connect", 0, None), ("connect", 0, ("ok",)), ("feed", [("acc", 2), ("acc", 9)], []), ("service", 0, None), ("service", 0, None), ("reopen",), ("tx", b"x"), ("close",)]),
            # caller-owned buffers, EMPTY at construction (and one already holding bytes): the client must use those very objects
            ("client", True, [("tx", b"abc"), ("svc",), ("svc",)], [("acc", 2), ("acc", 9)], [("d", b"xyz")], None, b""),
            ("clienttls", False, [("svc",), ("tx", b"q"), ("svc",)], [("acc", 9), ("acc", 9)], [("d", b"in")], None, b"pre"),
            # the other entry points and every wire log configuration
            ("client", "std", [("tx", b"abc"), ("svc",), ("sro",), ("clr",), ("sro",)], [("acc", 2)], [("d", b"hello"), ("d", b"xy"), ("d", b"z")]),
            ("remotertls", "samed", [("send1", b"hello"), ("recv1",), ("recv1",), ("send1", b"")], [("acc", 3)], [("d", b"ab"), ("d", b"")]),
            ("remoter", "file", [("tx", b"abcdef"), ("ss",), ("sr",), ("ss",)], [("acc", 4), ("acc", 9)], [("d", b"qrs")]),
            ("clienttls", "ctx", [("tx", b"abcdef"), ("svc",), ("svc",)], [("acc", 4), ("acc", 9)], [("d", b"qrs")]),
            ("remoter", True, [("sr",), ("sro",), ("recv1",)], [], [("d", bytes(range(40))), ("f", e), ("d", bytes(range(9)))], 16),
            # a backlog larger than .bs, a short send, then room again at the very next send
            ("remoter", True, [("tx", bytes(range(100))), ("ss",), ("ss",), ("ss",), ("ss",)], [("acc", 5), ("acc", 1 << 30), ("acc", 1 << 30), ("acc", 1 << 30)], [], 16),
            ("remotertls", True, [("tx", bytes(i % 251 for i in range(20000))), ("svc",), ("svc",), ("svc",), ("svc",)],
             [("acc", 8096), ("acc", 1000), ("acc", 1 << 30), ("acc", 1 << 30), ("acc", 1 << 30)], []),
            ("client", True, [("tx", bytes(range(60))), ("tx", bytes(range(60, 100))), ("svc",), ("svc",), ("svc",)], [("acc", 16), ("acc", 3), ("acc", 1 << 30), ("acc", 1 << 30)], [], 16),
            ("clienttls", False, [("tx", bytes(range(40))), ("ss",), ("ss",), ("ss",)], [("acc", 4), ("acc", 1), ("acc", 1 << 30), ("acc", 1 << 30)], [], 4),
            # data, then the peer resets between passes: the bytes must still arrive and be logged
            ("client", True, [("sr",), ("rst",), ("svc",), ("svc",)], [], [("d", b"ab"), ("f", e), ("d", b"cd"), ("f", 104)]),
            ("remoter", True, [("tx", b"xyz"), ("rst",), ("svc",), ("svc",)], [("acc", 1), ("acc", 5)], [("d", b"q")]),
            ("clienttls", True, [("tx", b"xyz"), ("rst",), ("svc",), ("svc",)], [("acc", 1), ("acc", 5)], [("d", b"q")]),
            ("remotertls", True, [("tx", b"xyz"), ("rst",), ("svc",), ("svc",)], [("acc", 1), ("acc", 5)], [("d", b"q")]),
        ]

    def generate(self, rng, n, tier):
        yield from self._real_cases(rng, 6 if tier == "quick" else 150, tier == "thorough")
        for i in range(n):
            kind = rng.choice(T.KINDS)
            if i % 11 == 2:
                # a WireLog attached to the server, open from the start or opened later (also re-opened), distinct peer addresses,
                # text payloads (the shared log is parsed per connection)
                tls = rng.random() < 0.5
                alpha = lambda n_: bytes(rng.randrange(97, 123) for _ in range(n_))
                ncon = rng.randrange(1, 4)
                ops = []
                cas = list(range(1, ncon + 1))
                pend = list(cas)
                rng.shuffle(pend)
                def mk(ca):
                    recvs = []
                    for _ in range(rng.randrange(1, 5)):
                        recvs.append(("d", alpha(rng.choice([1, 2, 5]))))
                        if rng.random() < 0.6:
                            recvs.append(("f", T.wouldblock_codes("remotertls" if tls else "remoter")[0]))
                    return ("conn", ca, [("acc", rng.choice([1, 2, 1 << 30])) for _ in range(rng.randrange(1, 6))], recvs, [("ok",)] if tls else [])
                for _ in range(rng.randrange(4, 14)):
                    q = rng.random()
                    if q < 0.2 and pend:
                        ops.append(mk(pend.pop()))
                    elif q < 0.35:
                        ops.append(("wlopen",))
                    elif q < 0.6:
                        ops.append(("tx", rng.choice(cas), alpha(rng.choice([1, 3, 6]))))
                    else:
                        ops.append(("svc",))
                if rng.random() < 0.4:
                    ops.insert(rng.randrange(1, len(ops) + 1), ("norefresh", rng.choice(cas)))
                ops += [("svc",), ("wlopen",) if rng.random() < 0.5 else ("svc",), ("tx", rng.choice(cas), alpha(3)), ("svc",), ("svc",)]
                if rng.random() < 0.5:
                    yield ("srvw", tls, rng.random() < 0.35, ops)
                else:
                    yield ("srvw", tls, rng.random() < 0.35, ops, rng.random() < 0.6, rng.random() < 0.6)
                continue
            if i % 11 == 7:
                # several connections on one server, each with its own stream: some peers do not read (their sockets take nothing,
                # or little), others are healthy; output queued for all; many service passes
                tls = rng.random() < 0.4
                hs = [("ok",)] if tls else []
                ncon = rng.randrange(2, 5)
                ops = []
                for ca in range(1, ncon + 1):
                    m = rng.random()
                    if m < 0.35:
                        sends = []                                                    # peer alive but not reading: every send would block
                    elif m < 0.5:
                        sends = [("acc", rng.choice([1, 2]))] * rng.randrange(1, 3)     # takes a little, then blocks
                    else:
                        sends = [("acc", rng.choice([1, 2, 3, 1 << 30])) for _ in range(rng.randrange(6, 14))]   # healthy
                    ops.append(("conn", ca, sends, [("d", T.gen_bytes(rng, 3))] if rng.random() < 0.5 else [], hs))
                ops.append(("svc",))
                for ca in rng.sample(range(1, ncon + 1), ncon):
                    ops.append(("tx", ca, T.gen_bytes(rng, rng.choice([1, 4, 9]))))
                for _ in range(rng.randrange(3, 12)):
                    ops.append(("svc",) if rng.random() < 0.8 else ("tx", rng.randrange(1, ncon + 1), T.gen_bytes(rng, rng.choice([1, 3]))))
                yield ("srvs", tls, ops)
                continue
            if i % 11 == 9:
                # the echo server (EchoServerDoer): input arrives over several passes while earlier echoes are still draining in
                # partial sends
                tls = rng.random() < 0.4
                kindr = "remotertls" if tls else "remoter"
                ops = []
                for ca in range(1, rng.randrange(1, 4) + 1):
                    recvs = []
                    for _ in range(rng.randrange(2, 6)):
                        recvs.append(("d", T.gen_bytes(rng, rng.choice([2, 4, 8]))))
                        if rng.random() < 0.7:
                            recvs.append(("f", T.wouldblock_codes(kindr)[0]))
                    sends = [("acc", rng.choice([1, 2, 3, 3, 1 << 30])) for _ in range(rng.randrange(4, 14))]
                    ops.append(("conn", ca, sends, recvs, [("ok",)] if tls else []))
                ops += [("svc",)] * rng.randrange(4, 14)
                yield ("srvs", tls, ops, "echo")
                continue
            if i % 6 == 1:
                # the whole life of a client: bytes queued before / between connections, failed attempts, reopen, reconnect timer
                tls = rng.random() < 0.5
                tmo = rng.choice([0, 2, 8])
                yield ("life", tls, rng.random() < 0.7, tmo, T.gen_client_ops(rng, tls, tmo, early_tx=rng.random() < 0.7))
                continue
            if i % 5 == 0:
                # backlog larger than the object's .bs, a short send on an early slice, then the socket accepts again at once
                bs = rng.choice([4, 8, 16, 64, 64, None])
                unit = bs or 8096
                total = unit * rng.randrange(2, 6) + rng.randrange(0, unit)
                cuts = sorted(rng.sample(range(1, total), k=rng.choice([0, 0, 1, 2])))
                data = bytes((j * 7 + 3) % 251 for j in range(total))
                ops = [("tx", data[a:b]) for a, b in zip([0] + cuts, cuts + [total])]
                if rng.random() < 0.3:
                    ops.insert(rng.randrange(1, len(ops) + 1), (rng.choice(["ss", "svc"]),))
                sends = [("acc", unit)] * rng.choice([0, 0, 1, 2]) + [("acc", rng.randrange(1, unit))]
                if rng.random() < 0.3:
                    sends.append(("f", T.wouldblock_codes(kind)[0]))
                sends += [("acc", rng.choice([1 << 30, 1 << 30, unit, rng.randrange(1, unit)])) for _ in range(rng.randrange(2, 8))]
                ops += [(rng.choice(["ss", "svc"]),) for _ in range(rng.randrange(2, 8))]
                case = (kind, rng.random() < 0.8, ops, sends, [])
                yield case if bs is None else case + (bs,)
                continue
            if i % 7 == 3:
                # other public entry points: serviceReceiveOnce, clearRxbs, receive()/send(data) called by the application,
                # every WireLog configuration, reads longer than .bs (short reads leave the rest in the kernel)
                wlm = rng.choice([False, "raw", "std", "samed", "file", "ctx", "std", "samed", "cfg", "cfg", "cfg"])
                if wlm == "cfg":    # any point of the flag space: format, one shared log, files, each direction on / off
                    samed = rng.random() < 0.4
                    wlm = ("cfg", (not samed) and rng.random() < 0.4, samed, rng.random() < 0.3, rng.random() < 0.65, rng.random() < 0.65)
                israw = wlm == "raw" or (isinstance(wlm, tuple) and wlm[1])
                alpha = (lambda n_: bytes(rng.randrange(97, 123) for _ in range(n_))) if (wlm and not israw) else (lambda n_: T.gen_bytes(rng, n_))
                bs = rng.choice([None, None, 4, 16, 64])
                unit = bs or 8096
                style = rng.choice(["direct", "once", "mixed"])
                recvs = []
                for _ in range(rng.randrange(0, 6)):
                    q = rng.random()
                    if q < 0.15:
                        recvs.append(("f", T.gen_fault_code(rng, kind, rng.choice(["wb", "conn"]))))
                    elif q < 0.22:
                        recvs.append(("d", b""))
                    else:
                        recvs.append(("d", alpha(rng.choice([1, 3, unit, unit + 1, 2 * unit, rng.randrange(1, 3 * unit + 2)]) if bs else rng.choice([1, 3, 9, 30]))))
                sends = T.gen_sends(rng, kind, rng.randrange(0, 6), 12, fault_p=0.15, flavour=rng.choice(["wb", "conn"]))
                ops = []
                for _ in range(rng.randrange(2, 12)):
                    if style == "direct":
                        ops.append(rng.choice([("recv1",), ("recv1",), ("send1", alpha(rng.choice([0, 1, 5, 12])))]))
                    elif style == "once":
                        ops.append(rng.choice([("sro",), ("sro",), ("clr",), ("tx", alpha(rng.choice([1, 7]))), ("ss",), ("sr",)]))
                    else:
                        ops.append(rng.choice([("sro",), ("clr",), ("recv1",), ("send1", alpha(3)), ("tx", alpha(5)), ("svc",), ("ss",), ("sr",)]))
                case = (kind, wlm, ops, sends, recvs)
                yield case if bs is None else case + (bs,)
                continue
            mode = rng.random()
            healthy = mode < 0.3
            ops = []
            ntx = rng.choice([0, 1, 1, 2, 3, 4, 6])
            sizes = []
            for _ in range(ntx):
                s = rng.choice([0, 1, 2, 5, 17, 64, 300, rng.randrange(0, 4096)])
                if tier == "thorough" and rng.random() < 0.0004:
                    s = 1 << 20
                sizes.append(s)
            total = sum(sizes)
            if healthy:
                nsvc = total + rng.randrange(0, 3) if total <= 40 else 0
                if nsvc == 0:   # big payload: let the kernel take it in a few gulps, then enough calls
                    sends = [("acc", max(1, total // rng.choice([1, 2, 3, 5])))] * 8
                    tail = [(rng.choice(["ss", "svc"]),) for _ in range(8)]
                    if sum(1 for _ in tail) < total and sends[0][1] * 6 < total:
                        sends = [("acc", 1 << 30)] * 8
                else:
                    sends = [("acc", rng.choice([1, 1, 2, 3, 1 << 30])) for _ in range(nsvc + ntx * 2 + 4)]
                    tail = [(rng.choice(["ss", "svc"]),) for _ in range(nsvc)]
                recvs = [r for r in T.gen_recvs(rng, kind, rng.randrange(0, 6), fault_p=0.0) if r[1] != b""]
                for s in sizes:
                    ops.append(("tx", T.gen_bytes(rng, s)))
                    if rng.random() < 0.4:
                        ops.append((rng.choice(["ss", "svc", "sr"]),))
                ops += tail
                if recvs and not any(o[0] in ("sr", "svc") for o in ops):
                    ops.append(("sr",))
                # the drain clause needs the script not to run dry: one response per service call
                need = sum(1 for o in ops if o[0] in ("ss", "svc"))
                while len(sends) < need:
                    sends.append(("acc", 1))
            else:
                for s in sizes:
                    ops.append(("tx", T.gen_bytes(rng, s)))
                    for _ in range(rng.choice([0, 1, 1, 2, 3])):
                        ops.append((rng.choice(["ss", "sr", "svc", "svc"]),))
                for _ in range(rng.randrange(0, 5)):
                    ops.append((rng.choice(["ss", "sr", "svc"]),))
                rng.shuffle(ops) if rng.random() < 0.2 else None
                fp = rng.choice([0.0, 0.1, 0.25, 0.5])
                flav = rng.choice([None, None, "wb", "conn"])
                sends = T.gen_sends(rng, kind, rng.randrange(0, 10), total, fault_p=fp, flavour=flav)
                recvs = T.gen_recvs(rng, kind, rng.randrange(0, 8), fault_p=fp, flavour=flav, big=(tier == "thorough"))
            if rng.random() < 0.2 and ops:   # the peer resets somewhere in the history (queued bytes are still delivered)
                ops.insert(rng.randrange(0, len(ops) + 1), ("rst",))
            if kind.startswith("remoter") and rng.random() < 0.3:
                yield (kind, rng.random() < 0.9, ops, sends, recvs, None, "norefresh")
            elif kind.startswith("client") and rng.random() < 0.5:
                # the application supplies its own rxbs / txbs objects (empty, or txbs already holding bytes) and keeps using them
                yield (kind, rng.random() < 0.8, ops, sends, recvs, None, rng.choice([b"", b"", b"pre", T.gen_bytes(rng, 7)]))
            else:
                yield (kind, rng.random() < 0.8, ops, sends, recvs)

    def request(self, case):
        if case[0] == "real":
            return ("noop",)
        if case[0] == "life":
            return T.request_client(*case[1:5])
        if case[0] == "wlclosed":
            return ("noop",)
        if case[0] == "srvs":
            return ("server", bool(case[1]), T.request_server(case[2], case[3] if len(case) > 3 else "direct"))
        if case[0] == "srvw":
            tls, att, isopen, sops, txed, rxed = _srv_parts(case)
            return ("serverw", bool(tls), isopen, txed, rxed, T.request_server(sops))
        kind, wl, ops, sends, recvs = _eff(case)
        bs = (case[5] if len(case) > 5 else None) or 8096
        att, txed, rxed = _wlflags(wl)
        if isinstance(wl, (list, tuple)):
            return ("connf", kind, True, txed, rxed, [tuple(o) for o in ops], [tuple(s) for s in sends], T.chop(recvs, bs))
        return ("conn", kind, bool(wl), [tuple(o) for o in ops], [tuple(s) for s in sends], T.chop(recvs, bs))

    def run_impl(self, case):
        if case[0] == "real":
            return T.run_real_stream(case)
        if case[0] == "life":
            return T.run_client(tuple(case[1:5]))
        if case[0] == "wlclosed":
            return T.run_wl_closed(case)
        if case[0] == "srvs":
            return T.run_server((case[1], case[2]) + tuple(case[3:4]))
        if case[0] == "srvw":
            tls, att, isopen, sops, txed, rxed = _srv_parts(case)
            return T.run_server((tls, sops, "direct", isopen, (txed, rxed)))
        return T.run_conn(case)

    def compare_view(self, case, obs):
        if case[0] == "real":
            return "noop"
        if case[0] == "life":
            return sx.dumps(obs)
        if case[0] == "wlclosed":
            return "noop"
        if case[0] in ("srvw", "srvs"):
            return sx.dumps(T.strip_hard(obs))
        return sx.dumps(obs)

    def exhaustive(self, tier):
        cs = []
        for kind in T.KINDS:
            wb = T.wouldblock_codes(kind)[0]
            for raw in (False, True):
                for samed in (False, True):
                    if raw and samed:
                        continue       # one shared log without direction marks cannot be told apart per direction
                    for filed in (False, True):
                        for rxed in (False, True):
                            for txed in (False, True):
                                cs.append((kind, ("cfg", raw, samed, filed, rxed, txed),
                                           [("tx", b"hello"), ("svc",), ("svc",), ("tx", b"xy"), ("svc",), ("svc",)],
                                           [("acc", 2), ("f", wb), ("acc", 9), ("acc", 9)], [("d", b"ab"), ("d", b"c"), ("f", wb), ("d", b"def")]))
        return cs, "every WireLog configuration (format raw/default x samed x file-backed x rxed x txed, minus raw+samed) x the four connection classes, on a history with partial sends and short reads"

    def _real_cases(self, rng, n, big):
        for _ in range(n):
            sizes = [rng.choice([0, 1, 100, 5000, 70000, 250000]) for _ in range(rng.randrange(1, 5))]
            if big and rng.random() < 0.15:
                sizes.append(1 << 20)
            yield ("real", rng.random() < 0.5, rng.choice(["c2s", "s2c"]), sizes, rng.choice([1024, 2048, 8192]), rng.choice([1, 2, 5, 17]), rng.randrange(1 << 30))

    def oracle(self, case, obs):
        if case[0] in ('real',) and len(obs) == 2 and obs[0] == "EXC":
            return ["escaped:" + obs[1]]
        if case[0] == "real":
            connected, prefix_ok, delivered, wtx, wrx, total = obs
            bad = []
            if not connected:
                bad.append("real-never-connected")
            else:
                if not prefix_ok:
                    bad.append("peer-not-prefix-in-order")
                if not delivered:
                    bad.append("healthy-not-drained")
                if not wtx:
                    bad.append("wirelog-tx")
                if not wrx:
                    bad.append("wirelog-rx")
            return bad
        if case[0] == "wlclosed":
            raised, rx_ok, tx_ok = obs
            return (["wirelog-closed-breaks-traffic"] if raised or not (rx_ok and tx_ok) else [])
        if case[0] == "srvs" and len(case) > 3 and case[3] == "echo":
            # the echo server: what each peer gets back is exactly what it sent, in order — a prefix of it at any moment,
            # whatever partial sends happen and whenever new input arrives
            bad = []
            conns = [op for op in case[2] if op[0] == "conn"]
            for st, snap in obs[1]:
                socks = [e for e in snap if e[0] != "listen"]
                for k, e in enumerate(socks):
                    if k >= len(conns):
                        continue
                    sent = b"".join(r[1] for r in conns[k][3] if r[0] == "d")
                    kacc, ntx = e[6], e[5]
                    if kacc != sent[:len(kacc)]:
                        bad.append("peer-not-prefix-in-order")
                    elif len(kacc) + ntx > len(sent):
                        bad.append("bytes-lost-or-duplicated")
            return sorted(set(bad))
        if case[0] == "srvs":
            return sorted(set(_server_stream_clauses(case[2], obs[1])))
        if case[0] == "srvw":
            # a WireLog attached to the SERVER: from the moment it is (re)opened every byte any connection sends or receives is
            # in it (per enabled direction), whenever that connection was accepted; bytes moved while it was closed are not recorded
            tls_, att_, open_, sops_, txed_, rxed_ = _srv_parts(case)
            bad = _server_stream_clauses(sops_, obs[1])
            base = {}      # socket index -> (|kacc|, |rxbs|) when the log was last opened (or the connection appeared)
            isopen = bool(case[2])
            st0, steps = obs
            prev = ()
            for op, (st, snap) in zip(case[3], steps):
                if op[0] == "wlopen":
                    isopen = True
                    base = {i: (len(e[6]), len(e[4])) for i, e in enumerate(snap) if e[0] != "listen"}
                for i, e in enumerate(snap):
                    if e[0] == "listen":
                        continue
                    if i not in base:
                        # first sight of this connection: what it moved in this very pass was logged iff the log is open
                        base[i] = (0, 0) if isopen else (len(e[6]), len(e[4]))
                    elif not isopen:
                        base[i] = (len(e[6]), len(e[4]))
                    kacc, rx, wtx, wrx = e[6], e[4], e[8], e[9]
                    if wtx != (kacc[base[i][0]:] if txed_ else b""):
                        bad.append("wirelog-tx")
                    if wrx != (rx[base[i][1]:] if rxed_ else b""):
                        bad.append("wirelog-rx")
            return sorted(set(bad))
        if case[0] == "life":
            # over the whole life of the client object: what its sockets accepted so far ++ what is still queued == everything
            # handed to tx() since construction, after every call
            bad = []
            pay = b""
            for op, st in zip(case[4], obs):
                if op[0] == "tx":
                    pay += op[1]
                if st[7] + st[8] != pay:
                    bad.append("peer-not-prefix-in-order" if len(st[7]) + len(st[8]) == len(pay) else "bytes-lost-or-duplicated")
                    break
            return bad
        kind, wl, ops, sends, recvs = _eff(case)
        steps, (txbs, rxbs, kacc, kdel, wtx, wrx, cutoff) = obs
        bad = []
        sofar = 0
        direct_tx = b""
        direct_rx = b""
        cleared = 0
        prev_nrx = 0
        for op, (st, nacc, ntx, nrx, cut, ret) in zip(ops, steps):
            if op[0] == "tx":
                sofar += len(op[1])
            elif op[0] == "send1" and st == "ok":
                if not isinstance(ret, int) or not 0 <= ret <= len(op[1]):
                    bad.append("direct-send-count")
                else:
                    sofar += ret
                    direct_tx += op[1][:ret]
            elif op[0] == "recv1" and st == "ok" and ret:
                direct_rx += ret
            elif op[0] == "clr":
                cleared += prev_nrx
                if nrx != 0:
                    bad.append("clear-left-bytes")
            prev_nrx = nrx
            if nacc + ntx != sofar:
                bad.append("bytes-lost-or-duplicated")
                break
        pay = _payload(ops)
        has_send1 = any(o[0] == "send1" for o in ops)
        if not has_send1:
            if kacc + txbs != pay:
                bad.append("peer-not-prefix-in-order")
        elif not pay and kacc != direct_tx:
            bad.append("direct-send-bytes")
        alldata = b"".join(r[1] for r in recvs if r[0] == "d")
        if not alldata.startswith(kdel):
            bad.append("rx-not-exact")
        if len(kdel) != len(direct_rx) + cleared + len(rxbs):
            bad.append("rx-bytes-lost-or-duplicated")
        if not any(o[0] in ("recv1", "clr") for o in ops) and rxbs != kdel:
            bad.append("rx-not-exact")
        if not any(o[0] in ("sr", "sro", "svc") for o in ops) and direct_rx != kdel:
            bad.append("direct-receive-bytes")
        att, txed, rxed = _wlflags(wl)
        if att and wtx != (kacc if txed else b""):      # per enabled direction: exactly the bytes that crossed the wire
            bad.append("wirelog-tx")
        if att and wrx != (kdel if rxed else b""):
            bad.append("wirelog-rx")
        healthy_tx = _only_wb(kind, sends)
        healthy_rx = _only_wb(kind, recvs) and all(r[0] != "d" or r[1] for r in recvs)
        if healthy_tx and healthy_rx and any(s[0] != "ok" for s in steps):
            bad.append("raised-on-healthy-connection")
        if healthy_tx and healthy_rx and cutoff:
            bad.append("cutoff-on-healthy-connection")
        # continued servicing of a healthy connection delivers all of it
        if healthy_rx and healthy_tx:
            last_tx = max([i for i, o in enumerate(ops) if o[0] == "tx"], default=-1)
            nsvc_all = sum(1 for o in ops if o[0] in ("ss", "svc"))
            nsvc_after = sum(1 for o in ops[last_tx + 1:] if o[0] in ("ss", "svc"))
            if all(s[0] == "acc" and s[1] >= 1 for s in sends) and len(sends) >= nsvc_all and not has_send1:   # direct sends use up kernel responses too
                # every service call on a non-empty buffer moved at least one byte
                if nsvc_after >= len(pay) and txbs:
                    bad.append("healthy-not-drained")
                big = [s[1] for s in sends]
                if big and min(big) >= len(pay) and nsvc_after >= 1 and txbs:
                    bad.append("healthy-not-drained")
            if all(r[0] == "d" for r in recvs) and any(o[0] in ("sr", "svc") for o in ops) and rxbs != alldata \
                    and not any(o[0] in ("recv1", "clr") for o in ops):
                bad.append("healthy-not-all-received")
        return sorted(set(bad))

    def known(self, case, obs, clauses):
        # C09-K2: RemoterTls with a wire log on a connection the peer has reset (who=self.cs.getpeername() raises)
        if case[0] == "wlclosed":
            return "C09-K5"
        if case[0] in ("life", "srvw", "srvs", "real"):
            return None
        if case[0] == "remotertls" and case[1] and any(o[0] == "rst" for o in case[2]):
            return "C09-K2"
        return None

    def nontrivial(self, case, obs):
        if case[0] in ('real',) and len(obs) == 2 and obs[0] == "EXC":
            return True
        if case[0] == "real":
            return obs[5] > 20000
        if case[0] == "life":
            return len({o[2] for o in obs}) >= 2 and any(o[7] for o in obs)
        if case[0] == "wlclosed":
            return True
        if case[0] == "srvw":
            return any(op[0] == "wlopen" for op in case[3]) and any(e[0] != "listen" and (e[8] or e[9]) for st, snap in obs[1] for e in snap)
        if case[0] == "srvs":
            last = obs[1][-1][1] if obs[1] else ()
            return sum(1 for e in last if e[0] != "listen") >= 2 and any(e[0] != "listen" and e[6] for e in last)
        kind, wl, ops, sends, recvs = _eff(case)
        steps = obs[0]
        ntx = sum(1 for o in ops if o[0] == "tx" and o[1])
        nrx = sum(1 for r in recvs if r[0] == "d" and r[1])
        moved = {s[1] for s in steps}
        partial = len(moved) > 2 or any(s[0] == "f" for s in sends + recvs)
        return partial and (ntx >= 2 or nrx >= 2)

    def features(self, case, obs):
        if case[0] in ('real',) and len(obs) == 2 and obs[0] == "EXC":
            return ["escaped"]
        if case[0] == "wlclosed":
            return ["wirelog-closed-then-traffic"]
        if case[0] == "srvw":
            return ["server-wirelog", "server-wirelog:" + ("starts-open" if case[2] else "starts-closed")] + \
                (["server-wirelog:opened-later"] if any(op[0] == "wlopen" for op in case[3]) else []) + \
                (["server-wirelog:txed=%d,rxed=%d" % (int(bool(case[4])), int(bool(case[5])))] if len(case) > 5 else [])
        if case[0] == "srvs":
            last = obs[1][-1][1] if obs[1] else ()
            f = ["server-streams", "server-streams:conns=%d" % min(4, sum(1 for e in last if e[0] != "listen"))]
            if any(e[0] != "listen" and e[5] > 0 for e in last):
                f.append("server-streams:some-output-stuck")
            return f
        if case[0] == "life":
            f = ["client-life", "client-life:" + ("tls" if case[1] else "plain"), "sockets:%d" % min(6, len({o[2] for o in obs if o[2] is not None}))]
            first = next((i for i, o in enumerate(obs) if o[3]), None)
            if first is not None and any(op[0] == "tx" for op in case[4][:first]):
                f.append("tx-before-connected")
            return f
        if case[0] == "real":
            return ["real-loopback", "real:" + ("tls" if case[1] else "plain"), "real:" + case[2], "real-bytes:" + ("<100k" if obs[5] < 100000 else ">=100k")]
        kind, wl, ops, sends, recvs = _eff(case)
        f = [kind, ("wl:" + ("raw" if wl is True else wl if isinstance(wl, str) else "cfg:txed=%d,rxed=%d,samed=%d,filed=%d" % (int(bool(wl[5])), int(bool(wl[4])), int(bool(wl[2])), int(bool(wl[3]))))) if wl else "nowl", f"ntx={min(4, sum(1 for o in ops if o[0] == 'tx'))}"]
        for kk in ("sro", "clr", "recv1", "send1"):
            if any(o[0] == kk for o in ops):
                f.append("op:" + kk)
        bsz = (case[5] if len(case) > 5 else None) or 8096
        if len(case) > 6 and case[6] is not None:
            f.append("refreshable=False" if case[6] == "norefresh" else "caller-owned-buffers:" + ("empty" if not case[6] else "prefilled"))
        if len(_payload(ops)) > bsz:
            f.append("backlog>bs")
            if any(s_[0] == "acc" and 0 < s_[1] < bsz for s_ in sends):
                f.append("backlog>bs:short-send")
        pay = len(_payload(ops))
        f.append("payload:" + ("0" if pay == 0 else "<64" if pay < 64 else "<4096" if pay < 4096 else ">=4096"))
        for s in sends:
            if s[0] == "f":
                f.append("sendfault:" + ("wb" if s[1] in T.wouldblock_codes(kind) else "conn" if s[1] in T.conn_fault_codes(kind) else "other"))
            elif s[1] == 0:
                f.append("send:acc0")
        for r in recvs:
            if r[0] == "f":
                f.append("recvfault:" + ("wb" if r[1] in T.wouldblock_codes(kind) else "conn" if r[1] in T.conn_fault_codes(kind) else "other"))
            elif not r[1]:
                f.append("recv:eof")
        if any(o[0] == "rst" for o in ops):
            f.append("peer-reset")
        if any(s[0] != "ok" for s in obs[0]):
            f.append("raised")
        if obs[1][6]:
            f.append("cutoff")
        return f

    def shrink(self, case):
        if case[0] == "life":
            head, ops = case[:4], case[4]
            for i in range(len(ops)):
                yield head + (ops[:i] + ops[i + 1:],)
            return
        if case[0] == "wlclosed":
            return
        if case[0] == "srvw":
            ops = case[3]
            for i in range(len(ops)):
                yield case[:3] + (ops[:i] + ops[i + 1:],) + tuple(case[4:])
            return
        if case[0] == "srvs":
            ops = case[2]
            for i in range(len(ops)):
                yield ("srvs", case[1], ops[:i] + ops[i + 1:]) + tuple(case[3:])
            return
        if case[0] != "real" and len(case) > 5:
            for c in self.shrink(case[:5]):
                yield c + tuple(case[5:])
            return
        if case[0] == "real":
            _, tls, d, sizes, sb, re_, seed = case
            for i in range(len(sizes)):
                yield ("real", tls, d, sizes[:i] + sizes[i + 1:], sb, re_, seed)
            return
        kind, wl, ops, sends, recvs = case[:5]
        for i in range(len(ops)):
            yield (kind, wl, ops[:i] + ops[i + 1:], sends, recvs)
        for i in range(len(sends)):
            yield (kind, wl, ops, sends[:i] + sends[i + 1:], recvs)
        for i in range(len(recvs)):
            yield (kind, wl, ops, sends, recvs[:i] + recvs[i + 1:])
        for i, o in enumerate(ops):
            if o[0] == "tx" and len(o[1]) > 1:
                yield (kind, wl, ops[:i] + [("tx", o[1][:len(o[1]) // 2])] + ops[i + 1:], sends, recvs)

    def mutate(self, rng, case):
        if case[0] in ("srvw", "srvs"):      # neighbours of a differing server case: the failing-input search starts here
            return list(self.shrink(case))[:40]
        if case[0] in ("real", "life", "wlclosed"):
            return []
        if len(case) > 5:
            return [c + tuple(case[5:]) for c in self.mutate(rng, case[:5])] + [case[:5]]
        kind, wl, ops, sends, recvs = case[:5]
        out = list(self.shrink(case))[:30]
        for k in T.KINDS:
            if k != kind:
                out.append((k, wl, ops, sends, recvs))
        out.append((kind, not wl, ops, sends, recvs))
        return out


CHECK = C09()
