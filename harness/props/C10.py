"""C10 — connection-level socket faults never escape servicing (hio.core.tcp clienting/serving)."""
import errno

from .. import core, sx
from ..areas import tcp as T
from ..extract import tcp as xtcp

HS_EXTRA = [errno.ECONNABORTED]


def _srv_conns(ops):
    return [op for op in ops if op[0] == "conn"]


HS_OK = None


def _hs_allowed():
    global HS_OK
    if HS_OK is None:
        HS_OK = set(T.conn_fault_codes("clienttls")) | set(HS_EXTRA) | {T.WANT_READ, T.WANT_WRITE}
    return HS_OK


def _cli(case):
    """("cli", kind, ops, sends, recvs) | ("cliw", kind, wl, ops, sends, recvs) -> (kind, wl, ops, sends, recvs)"""
    if case[0] == "cli":
        return (case[1], False, case[2], case[3], case[4])
    return tuple(case[1:])


def _hard_codes(case):
    k = case[0]
    if k in ("realsrv", "realrst", "clic"):
        return []
    if k == "cliw":
        _, kind, wl, ops, sends, recvs = case
        return T.hard_codes_of_script(kind, sends) + T.hard_codes_of_script(kind, recvs)
    if k == "site":
        return [case[2]] if case[2] not in T.wouldblock_codes(case[1].split("_")[0]) else []
    if k == "cli":
        _, kind, ops, sends, recvs = case
        return T.hard_codes_of_script(kind, sends) + T.hard_codes_of_script(kind, recvs)
    tls, ops = case[1], case[2]
    kind = "remotertls" if tls else "remoter"
    out = []
    for op in _srv_conns(ops):
        out += T.hard_codes_of_script(kind, op[2]) + T.hard_codes_of_script(kind, op[3]) + T.hard_codes_of_script(kind, op[4])
    return out


def _soften(tls, ops, keep):
    """the same history with every hard fault of the connections NOT in `keep` (by conn-op index) replaced by would-block"""
    kind = "remotertls" if tls else "remoter"
    wb = T.wouldblock_codes(kind)[0]
    hardset = lambda scr: [("f", wb) if (r[0] == "f" and r[1] in T.hard_codes_of_script(kind, [r])) else r for r in scr]
    out = []
    i = 0
    for op in ops:
        if op[0] == "conn":
            if i in keep:
                out.append(op)
            else:
                out.append(("conn", op[1], hardset(op[2]), hardset(op[3]), hardset(op[4])))
            i += 1
        else:
            out.append(op)
    return out


class C10(core.Check):
    pid = "C10"
    pkg = "Tcp"
    props_mod = "HioModel.Props.C10"
    design_ref = "DESIGN.md §5 C10"
    technique = ("translator: per-site fault outcome tables extracted from the real send/receive/handshake methods over every errno and ssl error class "
                 "(finite-domain probing, cross-checked with the errno tuples read from the AST) + which exceptions the two Server.service loops catch (AST); "
                 "Lean theorems by `decide` over the regenerated tables and by induction over a model of Server/ServerTls.service; differential run on fake sockets")
    level_text = ("Proved: conn_fault_is_cutoff_partial (all eight send/receive sites x the property's errno list by this platform's values, EPIPE excluded — "
                  "conn_fault_fails_at_epipe proves it raises there: known finding C10-K1, pinned by the tree's own test), tls_eof_is_cutoff, handshake_fault_is_aborted (both TLS handshakes, "
                  "no exclusion), wouldblock_is_not_a_fault, ast_matches_probe (errno tuples in the source text = probed behaviour), loops_catch_oserror — all by `decide` over tables regenerated from the source on every run; "
                  "service_total (for EVERY serviceable server state and EVERY script — any fault code at any send/recv/handshake call — Server.service returns without raising), "
                  "service_total_history (every history of accept / reset-before-accept / service / transmit / remove), siblings_unaffected + sibling_serviced (each connection's fate after service "
                  "is a function of its own state and script only), client_service_total_partial + listed_faults_benign (Client/ClientTls never raise on classified faults). "
                  "The Server/ServerTls model is tied to the code by the correspondence run on fake sockets; real peer FIN/RST at every point (also before accept) is run on loopback sockets.")
    level_note = ("Trusted: Lean kernel + standard axioms; translator harness/extract/tcp.py (probing is exhaustive over errno.errorcode + ssl classes; an errno outside it is "
                  "assumed to take the same `else: raise` / `except OSError` path); fake sockets stand in for the kernel.")
    quick_n = 1500
    thorough_n = 20000
    rule = ("cases: (site s code) one real call with the socket raising that fault — ALL 10 sites x all codes exhaustively every run; (cli ...) a client history with faults; "
            "(cliw ...) the same with a wire log and peer resets between passes; (clic ...) connect/handshake histories that go on after a failed handshake; (realrst n) real client, peer sends n bytes then RST; (srv ...) a server with 1-4 connections, faults (listed and unlisted errnos) on a random subset at random call indices, receive scripts spread over several passes so that faults meet queued output, ANY exception out of service() counts, plus every fault position of a fixed two-connection exchange x every connection-level code (exhaustive). "
            "non-trivial = a hard fault was actually raised by a socket during the run, with >= 2 connections for srv; distinct by request line")
    trusted_base = ["translator harness/extract/tcp.py", "correspondence harness/props/C10.py (compiled model vs real Server/ServerTls/Client on scripted fake sockets)",
                    "fake socket harness/areas/tcp.py:FakeSock (after a hard fault getpeername()/shutdown() raise ENOTCONN like a reset socket)"]
    assumptions = ["ssl and OS errors reach the code as OSError subclasses with args[0] == errno (CPython behaviour)",
                   "an errno value outside errno.errorcode is handled like the unlisted ones (falls to the final else/except)"]

    def extract(self):
        return xtcp.extract()

    # ---- cases
    def _exchange(self, tls, pos, code):
        """fixed two-connection exchange; pos = (conn index 0/1, 'r'|'s'|'h', call index)"""
        kind = "remotertls" if tls else "remoter"
        conns = []
        wbc = T.wouldblock_codes(kind)[0]
        for i in range(2):
            # one chunk per service pass (a would-block after each), so a fault at recv index k is met in pass k/2 with output queued
            recvs = [("d", bytes([65 + i, 1])), ("f", wbc), ("d", bytes([65 + i, 2])), ("f", wbc), ("d", bytes([65 + i, 3]))]
            sends = [("acc", 2), ("acc", 2), ("acc", 2)]
            hs = [("f", T.WANT_READ), ("ok",)] if tls else []
            if pos[0] == i:
                if pos[1] == "r":
                    recvs = recvs[:pos[2]] + [("f", T.wouldblock_codes(kind)[0])] * 0 + [("f", code)] + recvs[pos[2]:]
                elif pos[1] == "s":
                    sends = sends[:pos[2]] + [("f", code)] + sends[pos[2]:]
                else:
                    hs = hs[:pos[2]] + [("f", code)] + hs[pos[2]:]
            conns.append(("conn", i + 1, sends, recvs, hs))
        ops = conns + [("svc",), ("tx", 1, b"abcdefgh"), ("tx", 2, b"uvwxyz"), ("svc",), ("svc",), ("svc",), ("svc",), ("svc",)]
        return ("srv", tls, ops)

    def corpus(self):
        return [
            ("site", "remoter_send", errno.EPIPE), ("site", "clienttls_recv", T.SSLEOF), ("site", "clienttls_hs", T.SSLEOF),
            ("site", "clienttls_hs", errno.ECONNRESET), ("site", "remotertls_hs", errno.ECONNABORTED),
            ("realsrv", False, "rst", -1, 2), ("realsrv", True, "rst", -1, 1), ("realsrv", False, "fin", 1, 3), ("realsrv", True, "fin", 0, 1),
            ("cli", "clienttls", [("tx", b"hello"), ("svc",), ("svc",)], [("acc", 2), ("f", T.SSLEOF)], [("d", b"abc")]),
            # data then a reset between passes, wire log attached (address calls on the socket fail from then on)
            ("cliw", "client", True, [("svc",), ("rst",), ("svc",), ("svc",)], [], [("d", b"ab"), ("f", T.EAGAIN), ("d", b"cd"), ("f", errno.ECONNRESET)]),
            ("cliw", "clienttls", True, [("tx", b"xy"), ("rst",), ("svc",), ("svc",)], [("acc", 1), ("acc", 1)], [("d", b"q"), ("f", T.SSLEOF)]),
            ("realrst", 5), ("realrst", 70000),
            # the connect call itself reports a connection-level fault: not connected, no exception, try again
            ("site", "client_connect", errno.ENETUNREACH), ("site", "client_connect", errno.ETIMEDOUT), ("site", "client_connect", errno.ECONNREFUSED),
            ("clic", False, False, 0, [("connect", errno.EHOSTUNREACH, None), ("connect", errno.ECONNRESET, None), ("connect", 0, None)]),
            ("clic", True, True, 2, [("connect", errno.ENETDOWN, None), ("tick", 2), ("connect", errno.ETIMEDOUT, None), ("connect", 0, ("ok",))]),
            # a reset-before-accept arrival from an address that still has a live connection
            ("srv", False, [("conn", 1, [("acc", 9)], [("d", b"hi")], []), ("svc",), ("dconn", 1), ("svc",), ("tx", 1, b"x"), ("svc",)]),
            ("srv", True, [("conn", 1, [], [("d", b"hi")], [("ok",)]), ("svc",), ("dconn", 1), ("svc",), ("svc",)]),
            ("realsrv", False, "rst", -2, 2), ("realsrv", True, "rst", -2, 1),
            # a handshake that fails, then MORE passes: the client must start over, not trip over its own state
            ("clic", True, False, 0, [("connect", 0, ("f", errno.ECONNRESET)), ("connect", 0, None), ("connect", 0, ("ok",))]),
            ("clic", True, True, 2, [("connect", 0, ("f", T.WANT_READ)), ("connect", 0, ("f", T.SSLEOF)), ("tick", 2), ("connect", errno.EINPROGRESS, None), ("connect", 0, ("ok",))]),
            # an unclassified errno on recv of a connection that still has output queued, through the combined service()
            ("srv", False, [("conn", 1, [("acc", 2)], [("d", b"hi"), ("f", T.EAGAIN), ("f", errno.ENOTCONN)], []), ("conn", 2, [("acc", 2), ("acc", 9)], [("d", b"yo")], []),
                            ("svc",), ("tx", 1, b"abcdef"), ("tx", 2, b"uvwxyz"), ("svc",), ("svc",), ("svc",)]),
            ("cli", "client", [("tx", b"hello"), ("svc",), ("svc",)], [("acc", 2), ("f", errno.EPIPE)], [("d", b"abc")]),
            ("srv", False, [("conn", 1, [("acc", 3)], [("d", b"hi")], []), ("conn", 2, [("f", errno.EPIPE)], [("d", b"yo")], []), ("svc",),
                            ("tx", 1, b"abcdef"), ("tx", 2, b"zz"), ("svc",), ("svc",)]),
            ("srv", False, [("conn", 1, [], [("f", errno.EBADF)], []), ("conn", 2, [("acc", 9)], [("d", b"yo")], []), ("svc",), ("tx", 2, b"q"), ("svc",)]),
            # the echo doer: a peer sends its last message and closes at once (data and EOF seen in the same pass), another resets
            ("srv", False, [("conn", 1, [("acc", 9)], [("d", b"bye"), ("d", b"")], []), ("conn", 2, [("acc", 9)], [("d", b"hi"), ("f", errno.ECONNRESET)], []),
                            ("conn", 3, [("acc", 2), ("acc", 9)], [("d", b"abc")], []), ("svc",), ("svc",), ("svc",)], "echo"),
            ("srv", True, [("conn", 1, [("acc", 9)], [("d", b"bye"), ("d", b"")], [("ok",)]), ("conn", 2, [], [("d", b"x")], [("ok",)]), ("svc",), ("svc",), ("svc",)], "echo"),
            # re-use: connections open at close(), then reopen() and service() again (ServerDoer run twice)
            ("srv", False, [("conn", 1, [], [("d", b"hi")], []), ("svc",), ("close",), ("reopen",), ("svc",), ("conn", 2, [("acc", 9)], [("d", b"yo")], []), ("svc",)]),
            ("srv", True, [("conn", 1, [], [], [("ok",)]), ("conn", 2, [], [], []), ("svc",), ("close",), ("reopen",), ("svc",), ("svc",)], "doer"),
            # a peer that resets before it is accepted (found with real sockets): must not make service() raise
            ("srv", False, [("dconn", 1), ("conn", 2, [("acc", 9)], [("d", b"yo")], []), ("svc",), ("tx", 2, b"q"), ("svc",)]),
            ("srv", True, [("conn", 1, [], [], [("ok",)]), ("dconn", 2), ("dconn", 1), ("svc",), ("svc",)]),
            ("srv", True, [("conn", 1, [("acc", 3)], [("d", b"hi")], [("f", T.WANT_READ), ("ok",)]), ("conn", 2, [], [], [("f", errno.ECONNRESET)]),
                           ("conn", 3, [], [("f", T.SSLEOF)], [("ok",)]), ("svc",), ("svc",), ("tx", 1, b"abcdef"), ("svc",)]),
        ]

    def exhaustive(self, tier):
        cs = [("site", s, c) for s in T.SITES for c in T.ALL_CODES]
        cs += [("site", "client_connect", c) for c in [0] + T.ERRNOS]
        # a reset-before-accept arrival from an address that is already connected (plain and TLS), at every point of an exchange
        for tls in (False, True):
            hs = [("ok",)] if tls else []
            for k in range(4):
                ops = [("conn", 1, [("acc", 9)], [("d", b"a1"), ("f", T.wouldblock_codes("remotertls" if tls else "remoter")[0]), ("d", b"a2")], hs),
                       ("conn", 2, [("acc", 9)], [("d", b"b1")], hs), ("svc",), ("tx", 1, b"xy"), ("svc",), ("svc",), ("svc",)]
                ops.insert(2 + k, ("dconn", 1))
                cs.append(("srv", tls, ops))
        for tls in (False, True):
            kind = "remotertls" if tls else "remoter"
            codes = T.conn_fault_codes(kind) + [errno.ENOTCONN, errno.ECONNABORTED, errno.EBADF]   # listed ones and a few the code re-raises
            poss = [(i, "r", k) for i in range(2) for k in range(6)] + [(i, "s", k) for i in range(2) for k in range(4)] + \
                ([(i, "h", k) for i in range(2) for k in range(2)] if tls else [])
            for pos in poss:
                for code in codes:
                    cs.append(self._exchange(tls, pos, code))
                    if code in (errno.ECONNRESET, T.EPIPE) or pos[1] == "h":
                        cs.append(self._exchange(tls, pos, code) + ("echo",))    # the same through EchoServerDoer.recur
            # data and then EOF in one pass, on either connection, under the echo doer
            for i in (1, 2):
                ops = [("conn", 1, [("acc", 9)], [("d", b"m1")] + ([("d", b"")] if i == 1 else []), [("ok",)] if tls else []),
                       ("conn", 2, [("acc", 9)], [("d", b"m2")] + ([("d", b"")] if i == 2 else []), [("ok",)] if tls else []), ("svc",), ("svc",), ("svc",)]
                cs.append(("srv", tls, ops, "echo"))
        return cs, "all 10 sites x every errno in errno.errorcode and 7 ssl error classes; every fault position (recv/send/handshake call index, either connection, one receive chunk per service pass so that later positions meet queued output) of a fixed two-connection exchange x every connection-level code + ENOTCONN/ECONNABORTED/EBADF, plain and TLS"

    def generate(self, rng, n, tier):
        for _ in range(4 if tier == "quick" else 100):
            yield ("realrst", rng.choice([1, 5, 1000, 70000]))
        for _ in range(8 if tier == "quick" else 200):
            yield ("realsrv", rng.random() < 0.35, rng.choice(["rst", "fin"]), rng.randrange(-2, 5), rng.randrange(1, 6))
        for _ in range(n):
            r = rng.random()
            if r < 0.55:
                tls = rng.random() < 0.5
                v = rng.random()
                if rng.random() < 0.12:   # the same server object closed, re-opened and serviced again
                    yield ("srv", tls, T.gen_server_ops(rng, tls, "life", tier) + [("reopen",), ("conn", 9, [("acc", 3)], [("d", b"again")], [("ok",)] if tls else []), ("svc",), ("svc",)])
                elif v < 0.8:
                    yield ("srv", tls, T.gen_server_ops(rng, tls, "fault", tier))
                else:
                    yield ("srv", tls, T.gen_server_ops(rng, tls, "fault", tier), "doer" if v < 0.87 else "echo" if v < 0.95 else "ctx")
            elif r < 0.85:
                kind = rng.choice(["client", "clienttls", "client", "clienttls", "remoter", "remotertls"])
                ops = []
                for _ in range(rng.randrange(1, 4)):
                    ops.append(("tx", T.gen_bytes(rng, rng.choice([1, 3, 10]))))
                    ops += [("svc",)] * rng.randrange(1, 4)
                flav = rng.choice(["conn", "conn", None, "epipe", "ssl", "wb"])
                sends = T.gen_sends(rng, kind, rng.randrange(1, 6), 6, fault_p=0.3, flavour=flav)
                recvs = T.gen_recvs(rng, kind, rng.randrange(1, 6), fault_p=0.3, flavour=flav)
                if rng.random() < 0.5:
                    yield ("cli", kind, ops, sends, recvs)
                else:   # wire log attached, the peer may reset between passes, would-blocks spread the script over several passes
                    recvs2 = []
                    for r_ in recvs:
                        recvs2.append(r_)
                        if rng.random() < 0.4:
                            recvs2.append(("f", T.wouldblock_codes(kind)[0]))
                    if rng.random() < 0.6:
                        ops.insert(rng.randrange(0, len(ops) + 1), ("rst",))
                    yield ("cliw", kind, rng.random() < 0.8, ops, sends, recvs2)
            elif r < 0.97:
                tls = rng.random() < 0.8
                tmo = rng.choice([0, 2, 8])
                ops = []
                for _ in range(rng.randrange(2, 12)):
                    q = rng.random()
                    if q < 0.1:
                        ops.append(("reopen",))
                    elif q < 0.15:
                        ops.append(("close",))
                    elif q < 0.3:
                        ops.append(("tick", rng.choice([0, 1, tmo, tmo + 1])))
                    else:
                        hs = None
                        if tls and rng.random() < 0.85:
                            hs = rng.choice([("ok",), ("f", T.WANT_READ), ("f", T.WANT_WRITE), ("f", rng.choice(T.conn_fault_codes("clienttls") + HS_EXTRA)),
                                             ("f", rng.choice(T.conn_fault_codes("clienttls") + HS_EXTRA)), ("f", rng.choice(T.ALL_CODES))])
                        ops.append(("connect", rng.choice([0, 0, 0, errno.EINPROGRESS, errno.ECONNREFUSED, errno.EISCONN] + T.CONN_FAULTS), hs))
                yield ("clic", tls, rng.random() < 0.5, tmo, ops)
            else:
                yield ("site", rng.choice(T.SITES), rng.choice(T.ALL_CODES))

    def request(self, case):
        k = case[0]
        if k in ("realsrv", "realrst"):
            return ("noop",)
        if k == "site":
            return ("site", case[1], case[2])
        if k in ("cli", "cliw"):
            kind, wl, ops, sends, recvs = _cli(case)
            return ("conn", kind, bool(wl), [tuple(o) for o in ops], [tuple(s) for s in sends], [tuple(r) for r in recvs])
        if k == "clic":
            _, tls, recon, tmo, cops = case
            return ("cli", bool(tls), bool(recon), tmo, [("connect", o[1], tuple(o[2]) if o[2] is not None else None) if o[0] == "connect" else tuple(o) for o in cops])
        tls, ops = case[1], case[2]
        via = case[3] if len(case) > 3 else "direct"
        return ("server", bool(tls), T.request_server(list(ops) + ([("close",)] if via == "ctx" else []), via))

    def run_impl(self, case):
        k = case[0]
        if k == "realsrv":
            return T.run_real_faults(case)
        if k == "realrst":
            return T.run_real_client_rst(case)
        if k == "site" and case[1] == "client_connect":
            return ("outcome", T.CONNECT_NAMES[T.probe_connect(case[2])])
        if k == "site":
            return ("outcome", T.OUT_NAMES[T.probe(case[1], case[2])])
        if k in ("cli", "cliw"):
            return T.run_conn(_cli(case), with_hards=True)
        if k == "clic":
            return T.run_client(tuple(case[1:]))
        tls, ops = case[1], case[2]
        via = case[3] if len(case) > 3 else "direct"
        main = T.run_server((tls, ops, via))
        # reference for the sibling clause: same history with the faulty connections' hard faults turned into would-block
        kind = "remotertls" if tls else "remoter"
        conns = _srv_conns(ops)
        clean = {i for i, op in enumerate(conns) if not (T.hard_codes_of_script(kind, op[2]) + T.hard_codes_of_script(kind, op[3]) + T.hard_codes_of_script(kind, op[4]))}
        ref = None
        if 0 < len(clean) < len(conns):
            ref = T.strip_hard(T.run_server((tls, _soften(tls, ops, clean), via)))
        return (main, ref)

    def compare_view(self, case, obs):
        if case[0] in ("realsrv", "realrst"):
            return "noop"
        if case[0] in ("site", "clic"):
            return sx.dumps(obs)
        if case[0] in ("cli", "cliw"):
            return sx.dumps(obs[:2])
        return sx.dumps(T.strip_hard(obs[0]))

    # ---- oracle
    def oracle(self, case, obs):
        if case[0] in ('realsrv', 'realrst') and len(obs) == 2 and obs[0] == "EXC":
            return ["escaped:" + obs[1]]
        k = case[0]
        if k == "realsrv":
            raised, marked, sibling_ok = obs
            return (["service-raised"] if raised else []) + ([] if marked else ["fault-not-marked"]) + ([] if sibling_ok else ["sibling-affected"])
        if k == "realrst":
            raised, got_all, cutoff = obs
            return (["service-raised"] if raised else []) + ([] if got_all else ["bytes-lost-at-reset"]) + ([] if cutoff else ["fault-not-marked"])
        if k == "clic":
            # connect / handshake passes of a client never raise when every handshake fault is a connection-level one
            codes = {o[2][1] for o in case[4] if o[0] == "connect" and o[2] is not None and o[2][0] == "f"}
            rcs = {o[1] for o in case[4] if o[0] == "connect"}
            rc_ok = set(T.CONN_FAULTS) | {0, errno.EISCONN, errno.EINPROGRESS, errno.EALREADY, errno.EAGAIN, errno.EINVAL}
            if codes <= _hs_allowed() and rcs <= rc_ok and any(st[0] != "ok" for st in obs):
                return ["service-raised"]
            return []
        hard = set(_hard_codes(case))
        tag = ":epipe-only" if hard == {T.EPIPE} else ""
        bad = []
        if k == "site" and case[1] == "client_connect":
            code, out = case[2], obs[1]
            if code in (0, errno.EISCONN):
                return [] if out == "connected" else ["connect-result-misclassified"]
            if code in T.CONN_FAULTS or code in (errno.EINPROGRESS, errno.EALREADY, errno.EAGAIN):
                # a failing or pending connect is neither an exception nor a connection
                return [] if out in ("retry", "reopen") else ["connect-fault-" + ("raised" if out.startswith("raised") else "taken-for-connected")]
            return []
        if k == "site":
            kind, what = case[1].split("_")
            code = case[2]
            out = obs[1]
            if what == "hs":
                if (code in T.conn_fault_codes(kind) or code in HS_EXTRA) and out != "aborted":
                    bad.append("handshake-fault-not-aborted")
                if code in (T.WANT_READ, T.WANT_WRITE) and out != "wouldblock":
                    bad.append("handshake-wouldblock-misclassified")
            else:
                if code in T.conn_fault_codes(kind) and out != "cutoff":
                    bad.append("conn-fault-not-cutoff" + tag)
                if code in T.wouldblock_codes(kind) and out != "wouldblock":
                    bad.append("wouldblock-misclassified")
            return bad
        if k in ("cli", "cliw"):
            kind, wl, ops, sends, recvs = _cli(case)
            steps, final, hards_at = obs
            okc = set(T.conn_fault_codes(kind))
            for st, hs in zip(steps, hards_at):
                if not set(hs) <= okc:
                    break   # something other than a connection-level fault has happened: not this property's business
                if st[0] != "ok":
                    bad.append("service-raised" + (":epipe-only" if set(hs) == {T.EPIPE} else ""))
                if hs and set(hs) != {T.EPIPE} and not st[4]:
                    bad.append("fault-not-marked")
            return sorted(set(bad))
        tls, ops = case[1], case[2]
        kind = "remotertls" if tls else "remoter"
        (st0, steps), ref = obs
        if any(o[0] == "afault" for o in ops):
            return []    # accept() failing (EMFILE ...) is a resource error of the listener that serviceAccepts re-raises by design
        if any(o[0] in ("close", "reopen", "reopenf", "closeix", "closeall") for o in ops):
            # re-use: a server that was closed and re-opened is serviceable again (explicit closeIx/closeAllIx leave closed
            # remoters in the table on purpose and are not judged here)
            listening, reopened, dirty = True, False, False
            for op, (st, snap) in zip(ops, steps):
                if op[0] in ("close", "reopenf"):   # closed, or a reopen whose bind/listen failed: the server is not open
                    listening = False
                elif op[0] == "reopen":
                    listening, reopened = (st == "ok"), True
                elif op[0] in ("closeix", "closeall"):
                    dirty = True
                elif op[0] == "svc" and listening and reopened and not dirty and st != "ok":
                    return ["service-raised-after-reopen"]
            return []
        allowed = set(T.conn_fault_codes(kind)) | {c + T.HS_OFFSET for c in T.conn_fault_codes(kind) + HS_EXTRA}
        raised_codes = set()
        for op, (st, snap) in zip(ops, steps):
            raised_codes = {c for e in snap if e[0] != "listen" for c in e[-1]}
            if op[0] == "svc" and st != "ok":   # whatever the sockets did and whatever class escaped
                bad.append("service-raised")
                break
            if op[0] == "rxix" and st == "OSError":   # serviceReceivesIx(ca): a socket error must not escape it either
                bad.append("service-raised")
                break
        # every connection whose socket raised a connection-level fault is marked cut off / aborted
        for st, snap in steps:
            for e in snap:
                if e[0] == "listen":
                    continue
                where, cutoff, connected, aborted, rx, ntx, kacc, closed, hardc = e
                if hardc and set(hardc) <= allowed and not (cutoff or aborted):
                    bad.append("fault-not-marked" + (":epipe-only" if set(hardc) == {T.EPIPE} else ""))
        # siblings: connections without faults behave exactly as in the run where nobody faulted
        if ref is not None:
            main = T.strip_hard((st0, steps))
            # socket creation order is identical in both runs; compare the entries of sockets that never faulted
            for (st, snap), (_, fsnap), (rst, rsnap) in zip(main[1], steps, ref[1]):
                if len(snap) != len(rsnap):
                    bad.append("sibling-affected")
                    break
                for e, fe, r in zip(snap, fsnap, rsnap):
                    if e[0] == "listen":
                        continue
                    if fe[-1] == () and e != r:   # this socket never raised a hard fault
                        bad.append("sibling-affected")
                        break
        return sorted(set(bad))

    def known(self, case, obs, clauses):
        # C10-K1: EPIPE is the only hard fault in the case, and the only complaints are the EPIPE-specific ones
        if not clauses:
            return None
        if case[0] == "srv" and clauses == ["service-raised-after-reopen"]:
            return "C10-K4"
        if not all(c.endswith(":epipe-only") for c in clauses):
            # C10-K3 (fixed by 42ebe80; kept so that an old tree is still recognised): RemoterTls + wire log + peer reset
            if case[0] == "cliw" and case[1] == "remotertls" and case[2] and any(o[0] == "rst" for o in case[3]) \
                    and all(c.split(":")[0] in ("service-raised", "fault-not-marked") for c in clauses):
                return "C10-K3"
            return None
        if case[0] == "site" and obs == ("outcome", "raisedOS") and case[1].split("_")[1] in ("send", "recv"):
            return "C10-K1"
        if case[0] in ("cli", "cliw") and all(c.startswith("service-raised") for c in clauses):
            return "C10-K1"
        if case[0] == "srv" and all(c.startswith("fault-not-marked") for c in clauses):
            return "C10-K1"
        return None

    def nontrivial(self, case, obs):
        if case[0] in ('realsrv', 'realrst') and len(obs) == 2 and obs[0] == "EXC":
            return True
        if case[0] in ("site", "realsrv", "realrst"):
            return True
        if case[0] == "clic":
            return len({o[2] for o in obs}) >= 2
        if case[0] in ("cli", "cliw"):
            return bool(obs[2] and obs[2][-1]) or any(o[0] == "rst" for o in _cli(case)[2])
        (st0, steps), ref = obs
        socks = steps[-1][1] if steps else ()
        return sum(1 for e in socks if e[0] != "listen") >= 2 and any(e[0] != "listen" and e[-1] for e in socks)

    def features(self, case, obs):
        if case[0] in ('realsrv', 'realrst') and len(obs) == 2 and obs[0] == "EXC":
            return ["escaped"]
        f = [case[0]]
        if case[0] == "realsrv":
            return f + ["real:" + ("tls" if case[1] else "plain"), "real:" + case[2]]
        if case[0] == "realrst":
            return f
        if case[0] == "clic":
            return f + ["clic:" + ("tls" if case[1] else "plain")] + (["clic:raised"] if any(o[0] != "ok" for o in obs) else [])
        if case[0] == "cliw":
            f += ["wl" if case[2] else "nowl"] + (["peer-reset"] if any(o[0] == "rst" for o in case[3]) else [])
        if case[0] == "site":
            f.append(("connect-site:" if case[1] == "client_connect" else "site:") + obs[1])
            return f
        hard = _hard_codes(case)
        f.append("hard:%d" % min(3, len(hard)))
        for c in set(hard):
            f.append("code:" + (errno.errorcode.get(c, T.SSL_CODES.get(c, ("?",))[0])))
        if case[0] == "srv":
            f.append("tls" if case[1] else "plain")
            (st0, steps), ref = obs
            f.append("nconn:%d" % min(5, len(_srv_conns(case[2]))))
            if ref is not None:
                f.append("sibling-checked")
            if any(st != "ok" and st != "skip" for st, _ in steps):
                f.append("raised")
            for e in (steps[-1][1] if steps else ()):
                if e[0] != "listen":
                    f.append("end:" + e[0] + (":cutoff" if e[1] else "") + (":aborted" if e[3] else ""))
        return f

    def shrink(self, case):
        if case[0] == "srv" and len(case) > 3:
            for c in self.shrink(case[:3]):
                yield c + (case[3],)
            return
        if case[0] == "srv":
            tls, ops = case[1], case[2]
            for i in range(len(ops)):
                yield ("srv", tls, ops[:i] + ops[i + 1:])
            for i, op in enumerate(ops):
                if op[0] == "conn":
                    for j in (2, 3, 4):
                        for q in range(len(op[j])):
                            new = list(op)
                            new[j] = op[j][:q] + op[j][q + 1:]
                            yield ("srv", tls, ops[:i] + [tuple(new)] + ops[i + 1:])
        elif case[0] in ("cli", "cliw"):
            kind, wl, ops, sends, recvs = _cli(case)
            mk = (lambda o, s_, r_: ("cli", kind, o, s_, r_)) if case[0] == "cli" else (lambda o, s_, r_: ("cliw", kind, wl, o, s_, r_))
            for i in range(len(ops)):
                yield mk(ops[:i] + ops[i + 1:], sends, recvs)
            for i in range(len(sends)):
                yield mk(ops, sends[:i] + sends[i + 1:], recvs)
            for i in range(len(recvs)):
                yield mk(ops, sends, recvs[:i] + recvs[i + 1:])
        elif case[0] == "clic":
            head, ops = case[:4], case[4]
            for i in range(len(ops)):
                yield head + (ops[:i] + ops[i + 1:],)

    def mutate(self, rng, case):
        out = list(self.shrink(case))[:40]
        if case[0] == "site":
            out += [("site", s, case[2]) for s in T.SITES]
        return out


CHECK = C10()
