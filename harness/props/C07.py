"""C07 — real-time pacing never runs early and does not drift (Doist.do real branch + MonoTimer)."""
from .. import core
from ..areas import timer as T
from ..extract import timer as xt


class C07(core.Check):
    pid = "C07"
    pkg = "Timer"
    props_mod = "HioModel.Props.C07"
    design_ref = "DESIGN.md §5 C07"
    technique = ("Lean 4 invariant proof over a model of the real-time branch of Doist.do and MonoTimer for an arbitrary clock state machine "
                 "+ differential run of the compiled model against Doist.do under a scripted time.time()/time.sleep()")
    level_text = ("Lean theorems, unconditional, over EVERY linearly ordered commutative ring of time values (instances stated for Int = what the driver runs, and Rat), for EVERY clock behaviour (an arbitrary state machine answering time.time() and reacting to time.sleep: steady, stalled, stepped back anywhere incl. inside the constructor and between Doist() and do(), overshooting or waking early, running out), every fuel, every number of cycles, every pattern of extra clock readings by doers, every tock (set at construction, defaulted, or reassigned before the run) and, for the *_any_history forms, every prior state of the timer: never_early (cycle k>=1 begins only when the sum of the non-negative clock increments since the run's first reading is >= k*tock), lossless (every sleep request equals max(0, (k+1)*tock - elapsed real time seen by the timer): deadlines stay on the k*tock grid whatever the lateness), run_tock_is_tock_at_start, plus the scanning forms the oracle evaluates; proved by an invariant over the pacing loop (stop - last = deadline - elapsed). Model = repaired code (3 fix: commits on fix/timer). The model is tied to Doist.do/MonoTimer by a differential run of the full event log under a scripted time.time/time.sleep; the retro default and Tymist.Tock are re-extracted on every run. Rounding is outside the exact model: a raw-float stream (fpace: non-dyadic readings/tocks, wake-ups aimed at the float deadline and its neighbours) is judged by a float reference oracle only (tolerance-free: a cycle starts only when the timer shown the run's readings has latest >= its float-accumulated stop; no sleep exceeds stop - latest). Phase 3: the same Doist run twice (finished / Ctrl-C / doer exception, clock replaced, tock reassigned, doist() entry; theorem doRun_forgets_timer_history), sibling Doist, no doers, Doist.ado real mode (oracle only), doer ops on the scheduler in mid-cycle, real/limit/tock configured after construction.")
    level_note = ("Trusted: Lean kernel + propext/Quot.sound; the sampled correspondence (float arithmetic modelled as Int on integers x 2^-10 s, where doubles are exact); the adapter's monkeypatch of time.time/time.sleep is the only clock. Forward clock jumps are outside the property. Doist.ado (AsyncTimer pacing) is outside C07's text; AsyncTimer itself is modelled under C08.")
    quick_n = 1500
    thorough_n = 120000
    rule = ("cases: (pace base incs ovs tock0 pre n xs): Doist(real=True, tock=tock0|default) built, optional pre-run ops (peek at timer.elapsed, assign doist.tock), "
            "then do() with one doer living n cycles that makes xs[k] extra clock readings in cycle k; the m-th time.time() returns base+incs[0..m] "
            "(steady / stalled / stepped back at every position, incl. inside the constructor and between construction and do()); the j-th time.sleep(d) advances the clock by d+ovs[j] "
            "(overshoot, exact, early wake / step back while asleep); the run is cut when incs run out; 20% (fpace ...) raw-float cases, oracle only.  non-trivial = at least 2 cycles begun and "
            "(a backward step, a non-zero overshoot or a tock assignment).  distinct by request line")
    trusted_base = ["translator harness/extract/timer.py (Tymist.Tock, MonoTimer retro default)",
                    "correspondence harness/props/C07.py + harness/areas/timer.py: compiled model driver vs Doist.do(real=True) with time.time/time.sleep scripted in the harness process; "
                    "full event log (every clock reading, every sleep request, every recur begin) compared",
                    "modelled: the OS clock and sleep as an arbitrary state machine (theorems quantify over all of them); float arithmetic as Int on integers x 2^-10 s"]
    assumptions = ["IEEE double +,-,>=,max are exact on integers x 2^-10 below 2^53 (values used by the correspondence); theorems are over Int",
                   "forward clock jumps are indistinguishable from elapsed time (excluded by the property)",
                   "time.time() is the only clock the pacing consults; the doers' own work takes whatever the clock script says"]

    def extract(self):
        return xt.extract()

    def corpus(self):
        return [
            # F09 (fixed 2e63a16): clock stepped back between Doist() and do(): every cycle ran at once
            ("pace", 1024000, (0, 224, -4480, 0, 0, 0, 0, 0, 0, 0), (), 32, (), 3, (0, 0, 0)),
            ("pace", 40, (0, 0, 113, -47, 0, 0, 0, 0), (), 63, (), 1, (0,)),
            ("pace", 1740800000000, (-51, -17, 9, 0, 0), (), None, (), 1, (0,)),
            # remaining across a backward step (fixed 6fc7548): slept past the deadline by the size of the step
            ("pace", 1740800000000, (-38, -41, 2, 7, -32, 0, 0, 0), (), 32, (), 1, (0,)),
            # F08 (fixed cee251d): tock assigned after construction
            ("pace", -29, (5, 0, 6, 4, 6, 7, 0), (4, 0, 0), 12, (("tock", 20),), 1, (0,)),
            ("pace", 0, (7, -47, -182, 0, 0, 2, 0, 10, 0, 0, 0, 0, 0, 0, 0, 0, 0, 0), (5,), 2, (("tock", 64),), 4, (0, 0, 0, 0)),
            # lateness then catch-up: overshoot of 3 tocks in cycle 0
            ("pace", 0, (0,) * 40, (96, 0, 0, 0), 32, (), 5, (0, 0, 0, 0, 0)),
            # early wake and step back while asleep
            ("pace", 0, (0,) * 40, (-10, -40, 5), 32, (("peek",),), 3, (1, 0, 2)),
            # no doers at all: still one paced cycle; late by exactly two tocks
            ("pace", 0, (0,) * 20, (), 32, (), 0, ()),
            # built with the default real=False, doist.real = True assigned afterwards, clock stepped back during the run (C07-r6m1 class)
            ("pace", 0, (0, 0, 0, 0, 0, 0, -700, 0, 0, 0) + (0,) * 30, (), 32, (("real",),), 5, (0, 0, 0, 0, 0)),
            ("pace", 100, (0, 0, 0, 0, -40, 0, 0) + (0,) * 30, (3,), 16, (("tock", 8), ("real",), ("limit", 24, "attr")), 6, (0, 1, 0, 0, 0, 0)),
            ("pace", 0, (0,) * 40, (), 32, (("limit", 64, "call"),), 5, (0, 0, 0, 0, 0)),
            ("pace", 0, (0,) * 40, (), 32, (("limit", 0, "ctor"),), 5, (0, 0, 0, 0, 0)),
            # the doer extends / removes doers in mid-cycle after the clock moved 12 inside that cycle (C07-r3m1 class)
            ("pace", 0, (0, 0, 0, 12, 0, 0, 0, 5) + (0,) * 30, (), 32, (), 5, ((1, 1), (2, 3), 0, (1, 2), 0)),
            ("pace", 0, (0,) * 40, (64, 0), 32, (), 4, (0, 0, 0, 0)),
            # raw floats: sleeps land exactly on the float deadline; tock reassigned
            # the same Doist run twice: Ctrl-C in the middle of run 1, clock stepped back, tock changed, second run through doist()
            ("pace2", (0, (0,) * 9, (5,), 32, (), 3, (0, 0, 0)), ("kbd", 64), (-5000, (0,) * 20, (7,), 3, (0, 0, 0), "call")),
            ("pace2", (100, (0,) * 40, (), 8, (("sib", 1024), ("tock", 16), ("sibtock", 1), ("tock", 4)), 2, (1, 0)), ("plain", None), (100, (0, 3, -9, 0, 0, 0, 0, 0, 0, 0), (), 2, (0, 0), "do")),
            ("pace2", (0, (0,) * 40, (), 8, (), 2, (0, 0)), ("exc", 0), (50, (0,) * 12, (), 2, (0, 0), "do")),
            # Doist.ado in real mode (AsyncTimer): lateness then catch-up; tock reassigned
            ("apace", 0, (0,) * 40, (96, 0, 0), 32, None, 4, (0, 0, 0, 0)),
            ("apace", 5, (0, 0, 3, 1) + (0,) * 30, (), 8, 20, 3, (1, 0, 0)),
            ("fpace", 1700000000.123, (0.0,) * 30, (), 0.1, None, 4),
            ("fpace", 0.1, (0.0, 0.0, 0.0, 0.0, -0.3) + (0.0,) * 30, (0.0, 0.7, -0.01), 0.03, 0.1, 5),
        ]

    def exhaustive(self, tier):
        if tier != "thorough":
            return [], None
        import itertools
        cs = []
        for incs in itertools.product((-5, 0, 4), repeat=6):
            for ov in (0, 7, -3):
                cs.append(("pace", 0, (0, 1) + tuple(incs) + (0,) * 8, (ov,), 8, (), 2, (0, 0)))
        return cs, "pacing: all 3^6 scripts over increments {-5,0,4} for the six readings from do() on x first-sleep overshoot {0,7,-3}, tock 8, 2 cycles"

    def generate(self, rng, n, tier):
        for _ in range(n):
            r = rng.random()
            yield T.gen_fpace(rng) if r < 0.2 else (T.gen_pace2(rng) if r < 0.4 else (T.gen_apace(rng) if r < 0.5 else T.gen_pace(rng)))

    def request(self, case):
        if case[0] == "apace":
            return case
        if case[0] == "fpace":
            return T.wrapF(case)
        if case[0] == "pace":
            # the model's cycle count: max(n, 1) (a run with no doers still makes one paced cycle), cut by `limit`
            _, base, incs, ovs, tock0, pre, n, xs = case
            return ("pace", base, incs, ovs, tock0, T.pre_for_model(pre), T.cycles_for_model(pre, tock0, n), xs)
        (base, incs, ovs, tock0, pre, n, xs), (mode, tock2), (b2, i2, o2, n2, x2, e) = case[1:]
        t1 = tock0
        for p in pre:
            if p[0] == "tock":
                t1 = p[1]
        n2m = T.cycles_for_model(pre, tock0, n2, tock_override=(tock2 if tock2 is not None else t1))   # .limit stays set
        return ("pace2", (base, incs, ovs, tock0, T.pre_for_model(pre), T.cycles_for_model(pre, tock0, n), xs), case[2],
                (b2, i2, o2, n2m, x2, e))

    def model_applies(self, case):
        if case[0] == "apace":
            return False      # Doist.ado / AsyncTimer pacing: oracle only
        if case[0] == "fpace":
            return False      # raw (non-dyadic) floats: oracle only, the model's time is exact
        return not (case[0] == "pace2" and case[2][0] == "exc")      # a doer that raises is the scheduler area's model

    def run_impl(self, case):
        if case[0] == "fpace":
            return T.run_fpace(case)
        if case[0] == "pace2":
            return T.run_pace2(case)
        if case[0] == "apace":
            return T.run_apace(case)
        if case[0] != "pace":
            raise core.Infra(f"bad case {case!r}")
        return T.run_pace(case)

    def oracle(self, case, obs):
        if case[0] == "pace2":
            return T.oracle_pace2(case, obs)
        if case[0] == "apace":
            return T.oracle_apace(case, obs)
        return T.oracle_fpace(case, obs) if case[0] == "fpace" else T.oracle_pace(case, obs)

    def nontrivial(self, case, obs):
        if case[0] == "apace":
            return sum(1 for e in obs[0] if e[0] == "c") >= 2
        if case[0] == "pace2":
            return obs[5] is not None and sum(1 for e in obs[4] if e[0] == "c") >= 2
        if case[0] == "fpace":
            return sum(1 for e in obs[0] if e[0] == "c") >= 2
        _, base, incs, ovs, tock0, pre, n, xs = case
        begun = sum(1 for e in obs[1] if e[0] == "c")
        return begun >= 2 and (any(d < 0 for d in incs) or any(o != 0 for o in ovs) or any(p[0] == "tock" for p in pre))

    def features(self, case, obs):
        if case[0] == "apace":
            return ["apace", "apace:end:" + obs[1], f"apace:cycles~{min(sum(1 for e in obs[0] if e[0] == 'c'), 10)}"]
        if case[0] == "pace2":
            return ["pace2", "pace2:mode:" + case[2][0], "pace2:end1:" + obs[2], "pace2:end2:" + str(obs[5]), "pace2:entry:" + case[3][5]] + \
                (["pace2:tock-reassigned-between-runs"] if case[2][1] is not None else [])
        if case[0] == "fpace":
            return ["fpace", "fpace:end:" + obs[1], f"fpace:cycles~{min(sum(1 for e in obs[0] if e[0] == 'c'), 10)}"] + \
                (["fpace:tock-assigned"] if case[5] is not None else []) + (["fpace:backward-step"] if any(d < 0 for d in case[2]) else [])
        _, base, incs, ovs, tock0, pre, n, xs = case
        f = ["end:" + obs[2], f"cycles-begun~{min(sum(1 for e in obs[1] if e[0] == 'c'), 10)}"]
        if any(p[0] == "tock" for p in pre):
            f.append("tock-assigned-after-construction")
        if any(p[0] == "peek" for p in pre):
            f.append("peek-before-run")
        if any(p[0] == "sib" for p in pre):
            f.append("sibling-doist-built")
        if any(p[0] == "real" for p in pre):
            f.append("real-assigned-after-construction")
        for p in pre:
            if p[0] == "limit":
                f.append("limit-via-" + p[2])
        if sum(1 for p in pre if p[0] == "tock") > 1:
            f.append("tock-assigned-repeatedly")
        if tock0 is None:
            f.append("default-tock")
        npre = len(obs[0])
        if npre < len(incs) and incs[npre] < 0:
            f.append("backward-step-before-do")
        if len(incs) > 1 and incs[1] < 0:
            f.append("backward-step-in-constructor")
        if any(d < 0 for d in incs[npre + 1:]):
            f.append("backward-step-during-run")
        if any(d == 0 for d in incs[npre + 1:]):
            f.append("stall-during-run")
        if any(o > 0 for o in ovs):
            f.append("sleep-overshoot")
        if any(o < 0 for o in ovs):
            f.append("sleep-early-or-step-back-asleep")
        if any(xs):
            f.append("extra-readings-by-doer")
        if any(isinstance(x, tuple) for x in xs):
            f.append("doer-extends-or-removes-mid-cycle")
        sl = [e[1] for e in obs[1] if e[0] == "s"]
        f.append(f"sleeps~{min(len(sl), 10)}")
        if any(d == 0 for d in sl):
            f.append("zero-sleep")
        return f

    def shrink(self, case):
        if case[0] == "apace":
            return []
        if case[0] == "pace2":
            out = []
            for f in T.shrink_pace(("pace",) + tuple(case[1])):
                out.append(("pace2", f[1:], case[2], case[3]))
            b2, i2, o2, n2, x2, e = case[3]
            if n2 > 1:
                out.append(("pace2", case[1], case[2], (b2, i2, o2, n2 - 1, x2[:n2 - 1], e)))
            if o2:
                out.append(("pace2", case[1], case[2], (b2, i2, o2[:-1], n2, x2, e)))
            return out[:60]
        if case[0] == "fpace":
            _, base, incs, ovs, tock0, tock1, n = case
            return [("fpace", base, incs, ovs, tock0, tock1, n - 1)] if n > 1 else []
        return T.shrink_pace(case)

    def mutate(self, rng, case):
        if case[0] in ("fpace", "pace2", "apace"):
            return []
        out = list(T.shrink_pace(case))[:30]
        _, base, incs, ovs, tock0, pre, n, xs = case
        for _ in range(10):
            out.append(("pace", base, T.perturb_incs(rng, incs), ovs, tock0, pre, n, xs))
        return out


CHECK = C07()
