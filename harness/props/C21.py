"""C21 — memo transmission loses no gram under transport backpressure (Memoer._serviceOnceTxGrams, serviceTxGrams[Once])."""
from .. import core, sx
from ..areas import memo as A
from ..extract import memo as xmemo

OTHER_ERRNOS = ("EMSGSIZE", "EPERM", "EACCES", "EPIPE", "ENOBUFS", "EAGAIN")
WOULDBLOCK = ("EAGAIN", "EWOULDBLOCK", "ENOBUFS", "ENOMEM")     # what a datagram socket reports when it cannot take the data now


def parts(case):
    """(peer, grams, script, calls): peer None = Memoer-level scripted send(), 'udp' / 'uxd' = socket-level script under the real Peer.send"""
    if case[0] == "txp":
        return case[1], case[2], case[3], case[4]
    return None, case[1], case[2], case[3]


def many(n, blocked=2):
    """n tiny grams pending at once behind a blocked transport, then it drains: nothing may be dropped from a long queue"""
    grams = [(bytes([65 + i % 26, 48 + i % 10]), 1 + i % 3) for i in range(n)]
    return ("tx", grams, [("w",)] * blocked + [("a", 1)], ["g"] + ["o"] * blocked + ["g", "g"])


def stall(peer, k, errs=("EAGAIN", "ENOBUFS")):
    """k CONSECUTIVE would-blocks from the socket under the real Peer.send (a receiver that is only slow), then it takes the data: nothing may be dropped"""
    sock = [("e", errs[i % len(errs)]) for i in range(k)] + [("a", 3)]
    return ("txp", peer, [(b"slow-peer-gram", 1), (b"next", 2)], sock, ["g"] * (k + 4))


def held0(case):
    """the remainder (bytes, dst) the application restored into .txbs at construction, or None"""
    n = 5 if case[0] == "txp" else 4
    return case[n] if len(case) > n and case[n] else None



class C21(core.Check):
    pid = "C21"
    pkg = "Memo"
    props_mod = "HioModel.Props.C21"
    design_ref = "DESIGN.md §5 C21, §7 F34 F35"
    technique = ("Lean 4 theorems over a model of the Memoer transmit tier driven by an arbitrary transport script; unreachable-errno and "
                 "would-block tables regenerated from the source by probing every platform errno; differential run of the compiled model "
                 "against the real Memoer with a scripted send()")
    level_text = ("Proved for ALL queues, ALL transport scripts (per send call: accept n | would-block | OSError e) and ALL histories of "
                  "serviceTxGrams / serviceTxGramsOnce / gramit calls (unbounded): tx_fifo_exact (the log of send calls is a legal transmission of the held "
                  "grams followed by the enqueued ones: every call offers exactly the whole unsent rest of the head gram to its own destination, a gram is "
                  "finished before the next starts, nothing lost / duplicated / reordered, and what remains is exactly .txbs then .txgs), tx_conservation "
                  "and tx_conservation_per_dst (byte level), tx_drop_only_unreachable, tx_escape_only_unexpected_errno / tx_no_escape, tx_progress (F35: "
                  "a pending remainder is retried even with an empty queue), tx_liveness (after |script|+1 greedy calls nothing is pending and every gram "
                  "was sent completely or given up on unreachable), loopTx_fuel (the model's loop bound never stops the loop), wouldblock_never_drops "
                  "(regenerated errno tables of udp/uxd Peer.send vs the unreachable tuple). END TO END FROM THE SOCKET (udping/uxding Peer.send modelled by "
                  "peerSend from the regenerated tables: sendto count | would-block errno -> 0 | other OSError re-raised): tx_fifo_exact_socket, "
                  "tx_no_escape_socket (counts, would-block and unreachable errnos at the socket: nothing escapes), tx_wouldblock_keeps_gram, "
                  "tx_liveness_socket. Nothing is _partial.")
    level_note = ("Trusted: Lean kernel + propext/Classical.choice/Quot.sound; the translator harness/extract/memo.py (probes the real "
                  "_serviceOnceTxGrams and udp/uxd Peer.send with every errno); the sampled correspondence for the hand-written step function. "
                  "Pre-findings F34 and F35 were reproduced on the real code and repaired (fix/memo dc1c50d, e90d8ac); the model is of the fixed code.")
    quick_n = 1500
    thorough_n = 40000
    rule = ("calls also include serviceAllTx, close / reopen; socket scripts also raise OSError subclasses; a neighbour instance holds a gram of its own. 40% of the cases run one level down: the REAL udp / uxd PeerMemoer (real Peer.send) over a scripted socket whose sendto returns a count or "
            "raises EAGAIN / EWOULDBLOCK / ENOBUFS / ENOMEM / an unreachable errno / another errno; the rest script Memoer.send directly. "
            "cases: queue of 0..6 grams (0..40 bytes, incl. empty and equal grams, 1..3 destinations), script of 0..14 send outcomes "
            "(accept 0..len+2 | would-block | unreachable errno | rarely another errno), calls drawn from serviceTxGrams / serviceTxGramsOnce / "
            "gramit in the middle, followed by |script|+2 greedy calls.  non-trivial = at least one partial accept or would-block or unreachable "
            "outcome was consumed; distinct by request line")
    trusted_base = ["translator harness/extract/memo.py (errno probe over errno.errorcode + AST cross-check)",
                    "correspondence harness/props/C21.py: compiled model vs real Memoer with scripted send(), and vs real udp/uxd PeerMemoer over a scripted socket",
                    "modelled: .txgs as list, .txbs as (bytes, optional dst); transport as a script of per-call outcomes"]
    assumptions = ["the transport's send() either returns 0 <= n <= len(data), or raises OSError(errno) (udp/uxd Peer.send map EAGAIN/ENOBUFS/ENOMEM to 0: regenerated table)",
                   "the Memoer is opened and destinations are truthy values"]

    def extract(self):
        return xmemo.extract()

    # ---- cases: ("tx", grams, script, calls)
    def corpus(self):
        g2 = [(b"AAAAAAAAAA", 1), (b"BBBBBBBBBB", 1)]
        return [
            ("tx", g2, [("w",), ("a", 5), ("a", 1000)], ["g", "g", "g", "g"]),                  # F34: would-block on a fresh gram
            ("tx", g2, [("a", 10), ("a", 4)], ["g", "g", "g"]),                                 # F35: remainder with empty queue
            ("tx", g2, [("a", 10), ("a", 4)], ["o", "o", "o", "o"]),                            # F35 via the non-greedy entry
            ("tx", g2, [("e", "ECONNREFUSED")], ["g", "g"]),
            ("tx", g2, [("a", 3), ("e", "EHOSTUNREACH")], ["g", "g", "g"]),                     # drop of a partially sent gram
            ("tx", g2, [("e", "EMSGSIZE")], ["g", "g"]),
            ("tx", [(b"", 1), (b"x", 2)], [], ["g", "g"]),
            ("tx", [], [("w",)], ["g", "o", ("q", b"late", 1), "o", "g"]),
            ("tx", [(b"abc", 1), (b"abc", 1), (b"abc", 2)], [("a", 1), ("w",), ("a", 1), ("a", 0), ("a", 1)], ["o", "g", "o", "g", "g", "g", "g", "g"]),
            # socket level, the real udp / uxd Peer.send between the Memoer and a scripted socket
            ("txp", "udp", g2, [("e", "ENOBUFS"), ("a", 4), ("e", "ENOMEM"), ("e", "EAGAIN"), ("a", 100)], ["g", "g", "g", "g", "g", "g"]),
            ("txp", "uxd", g2, [("e", "ENOBUFS"), ("a", 4), ("e", "ENOMEM"), ("e", "EAGAIN"), ("a", 100)], ["g", "g", "g", "g", "g", "g"]),
            ("txp", "uxd", g2, [("a", 3), ("e", "EWOULDBLOCK"), ("e", "ENOENT"), ("a", 2)], ["o", "o", "g", "g", "g"]),
            ("txp", "udp", g2, [("e", "EMSGSIZE")], ["g", "g"]),
            ("txp", "udp", g2, [("x", "BlockingIOError"), ("a", 4), ("x", "ConnectionRefusedError"), ("x", "TimeoutError")], ["g", "g", "g", "g"]),
            ("txp", "uxd", g2, [("a", 2), ("x", "timeout")], ["g", "g", "g"]),
            ("txp", "uxd", g2, [("x", "gaierror")], ["g", "g"]),
            ("tx", g2, [("a", 4)], ["g", "c", "g", "o", ("q", b"while-closed", 2), "r", "g", "g", "g"]),       # closed in between: nothing sent, nothing lost
            many(2 ** 16 + 2),
            stall("uxd", 127), stall("uxd", 129), stall("udp", 129), stall("uxd", 257, ("EAGAIN",)), stall("udp", 513, ("ENOBUFS", "ENOMEM")),
            stall("uxd", 1025), stall("udp", 1023, ("EWOULDBLOCK",)),             # would-block RUN LENGTH as a size dimension                                                     # more than 65535 grams pending at once: every one is sent, in order
            ("tx", g2, [("a", 2)], ["g", "g", "g"], (b"restored-rest", 2)),       # the application restores a remainder into .txbs and owns .txgs / .txms
            ("tx", [], [], ["g"], (b"r", 1)),
            ("tx", g2, [("w",)], ["g", "c", "r", "g", "g"]),                     # a gram held with 0 bytes accepted survives close() / reopen()
            ("tx", g2, [("w",)], ["o", "c", "r", "c", "r", "g", "g"]),           # … also through MemoerDoer.exit() / .enter()
            ("tx", g2, [("a", 3)], ["g", "c", "r", "g", "g"]),                   # a partly sent gram is continued after the reopening (what the code does today)
            ("tx", [(b"same-buffer", 1), (b"same-buffer", 2), (b"same-buffer", 3)], [("a", 4), ("w",)], ["g", "g", "g", "g", "g"]),   # one bytearray to three destinations
            ("tx", [(b"same-buffer", 1)], [], ["g", ("q", b"same-buffer", 2), "g", ("q", b"same-buffer", 1), "o", "g"]),               # … queued again after it was sent
            ("txp", "udp", g2, [("a", 4), ("e", "ENOBUFS")], ["o", "c", "a", "r", "a", "a", "a"]),
        ]

    def exhaustive(self, tier):
        if tier != "thorough":
            return [], None
        outs = [("a", 0), ("a", 1), ("a", 2), ("a", 9), ("w",), ("e", "ECONNREFUSED")]
        cs = []
        for a in outs:
            for b in outs:
                for c in outs:
                    for calls in (["g", "g", "g", "g", "g"], ["o", "o", "o", "g", "g", "g"], ["o", "g", "o", "g", "g", "g"]):
                        cs.append(("tx", [(b"ab", 1), (b"cde", 2)], [a, b, c], calls))
        for k in range(6, 17):
            for n in (2 ** k - 1, 2 ** k, 2 ** k + 1):
                cs.append(many(n, blocked=1 + k % 3))
        for j in range(1, 14):
            for k in (2 ** j - 1, 2 ** j, 2 ** j + 1):
                cs.append(stall(("uxd", "udp")[j % 2], k))
                cs.append(stall(("udp", "uxd")[j % 2], k, ("ENOMEM", "EAGAIN", "ENOBUFS")))
        return cs, "long queues of 2**k-1, 2**k, 2**k+1 tiny grams (k = 6..16) behind a blocked transport that then drains; 2 grams (2 and 3 bytes) x all scripts of length 3 over {accept 0,1,2,all | would-block | ECONNREFUSED} x 3 call patterns"

    def generate(self, rng, n, tier):
        for _ in range(n):
            ng = rng.choice([0, 1, 1, 2, 2, 3, 3, 4, 6])
            nd = rng.choice([1, 1, 2, 3])
            grams = []
            for _ in range(ng):
                ln = rng.choice([0, 1, 2, 3, 5, 8, rng.randrange(0, 41)])
                b = bytes([rng.choice([65, 66, rng.randrange(256)])]) * ln if rng.random() < 0.5 else bytes(rng.randrange(256) for _ in range(ln))
                grams.append((b, rng.randrange(1, nd + 1)))
            if grams and rng.random() < 0.2:
                grams.append(grams[rng.randrange(len(grams))])      # equal grams: duplication must be told from re-sending
            if grams and rng.random() < 0.25:      # ONE buffer fanned out to several destinations (the adapter queues the same bytearray object)
                g0 = grams[rng.randrange(len(grams))][0] or b"fanout"
                for d_ in rng.sample([1, 2, 3, 4], rng.randrange(2, 4)):
                    grams.insert(rng.randrange(len(grams) + 1), (g0, d_))
            ns = rng.choice([0, 1, 2, 3, 4, 6, 9, 14])
            script = []
            for _ in range(ns):
                k = rng.random()
                if k < 0.45:
                    script.append(("a", rng.choice([0, 1, 1, 2, 3, 5, 8, 13, 40, 42])))
                elif k < 0.75:
                    script.append(("w",))
                elif k < 0.96:
                    script.append(("e", rng.choice(A.UNREACH)))
                else:
                    script.append(("e", rng.choice(OTHER_ERRNOS)))
            calls = []
            for _ in range(rng.randrange(0, 7)):
                k = rng.random()
                if k < 0.45:
                    calls.append("g")
                elif k < 0.85:
                    calls.append("o")
                else:
                    calls.append(("q", bytes(rng.randrange(97, 123) for _ in range(rng.randrange(0, 9))), rng.randrange(1, nd + 1)))
            if script and rng.random() < 0.2:      # a gram HELD by backpressure (nothing or only a part accepted), then the transport is closed and reopened
                script[0] = rng.choice([("w",), ("a", 0), ("a", 1), ("a", 2)])
                calls = [rng.choice(["g", "o"]), "c"] + [rng.choice(["g", "o"]) for _ in range(rng.randrange(0, 2))] + ["r"] + calls
            if calls and rng.random() < 0.25:      # the transport is closed for a while and reopened: queue and remainder must survive
                i = rng.randrange(len(calls))
                calls[i:i] = ["c"] + [rng.choice(["g", "o"]) for _ in range(rng.randrange(0, 3))] + ["r"]
            calls = [("a" if c == "g" and rng.random() < 0.15 else c) for c in calls]       # serviceAllTx is another way in
            calls += ["g"] * (len(script) + 2)
            h0 = (bytes(rng.randrange(97, 123) for _ in range(rng.randrange(1, 9))), rng.randrange(1, nd + 1)) if rng.random() < 0.15 else None
            if rng.random() < 0.4:      # the same history one level down: the socket reports errnos, the real Peer.send sits in between
                sock = [(("e", rng.choice(WOULDBLOCK)) if x[0] == "w" else x) for x in script]
                sock = [(("x", rng.choice(sorted(A.EXOTIC))) if x[0] == "e" and rng.random() < 0.2 else x) for x in sock]   # as the OSError subclass a socket raises
                yield ("txp", rng.choice(["udp", "uxd"]), grams, sock, calls) + ((h0,) if h0 else ())
            else:
                yield ("tx", grams, script, calls) + ((h0,) if h0 else ())

    def request(self, case):
        peer, grams, script, calls = parts(case)
        cl = tuple((("g" if c == "a" else c) if isinstance(c, str) else ("q", bytes(c[1]), c[2])) for c in calls)
        h0 = held0(case)
        tb = (("txbs", bytes(h0[0]), h0[1]),) if h0 else ()
        gr = ("grams",) + tuple((bytes(g), d) for g, d in grams)
        if peer:
            sc = ("script",) + tuple(("e", A.sock_errno(x)) if x[0] in ("e", "x") else tuple(x) for x in script)
            return ("txp", ("peer", peer)) + tb + (gr, sc, ("calls",) + cl)
        sc = ("script",) + tuple(("e", A.errno_of(x[1])) if x[0] == "e" else tuple(x) for x in script)
        return ("tx",) + tb + (gr, sc, ("calls",) + cl)

    def run_impl(self, case):
        peer, grams, script, calls = parts(case)
        return A.run_tx(grams, script, calls, peer, held0(case))

    # ---- the property as a predicate on what the transport saw
    def oracle(self, case, obs):
        try:
            return self._oracle(case, obs)
        except Exception as ex:       # an observation this predicate cannot account for is a violation, never a crash
            return ["observation-not-accountable:" + type(ex).__name__]

    def _oracle(self, case, obs):
        peer, grams, script, calls = parts(case)
        bad = []
        if any(o[0] not in ("call", "final", "escape") for o in obs):
            return sorted({o[0] for o in obs if o[0] not in ("call", "final", "escape")})
        drop = {A.errno_of(n) for n in A.UNREACH}
        if peer:       # at the socket a would-block is an errno; the transport must turn it into "nothing sent, try again"
            wb = {A.errno_of(n) for n in WOULDBLOCK}
            obs = [o if o[0] != "call" else ("call",) + tuple((d, off, ("w",) if r[0] == "e" and r[1] in wb else r) for d, off, r in o[1:])
                   for o in obs]
        from collections import deque as _dq
        q = _dq((bytes(g), d) for g, d in grams)
        cur = None          # [gram, dst, offset]
        h0 = held0(case)
        if h0:
            cur = [bytes(h0[0]), h0[1], 0]      # a remainder restored at construction is sent first
        consumed = 0
        it = iter(obs)
        escaped = False
        last_kind = None
        opened = True
        for c in calls:
            if not isinstance(c, str):
                q.append((bytes(c[1]), c[2]))
                last_kind = "q"
                continue
            if c in ("c", "r"):
                opened = (c == "r")
                last_kind = c
                continue
            if c == "a":
                c = "g"
            o = next(it, None)
            if o is None or o[0] != "call":
                bad.append("observation-shape")
                return bad
            pending_before = opened and (bool(q) or cur is not None)
            evs = o[1:]
            if not opened and evs:
                bad.append("send-while-closed")
            if pending_before and not evs:
                bad.append("no-send-attempt-while-pending")       # F35: remainder never retried
            if c == "o" and len(evs) > 1:
                bad.append("once-sent-more-than-once")
            for dst, offered, res in evs:
                consumed += 1
                if cur is None:
                    if not q:
                        bad.append("send-with-nothing-queued")
                        return bad
                    g, d = q.popleft()
                    cur = [g, d, 0]
                if dst != cur[1] or offered != cur[0][cur[2]:]:
                    bad.append("gram-lost-duplicated-or-reordered")   # F34 shows up here: the next gram starts while one is unsent
                    return bad
                if res[0] == "a":
                    if res[1] > len(offered):
                        bad.append("observation-shape")
                    cur[2] += res[1]
                elif res[0] == "e":
                    if res[1] in drop:
                        cur = None                                     # dropped: allowed only here
                    else:
                        escaped = True
                if cur is not None and res[0] != "e" and cur[2] >= len(cur[0]):
                    cur = None                                         # nothing (left) to send: complete
            last_kind = c
            if escaped:
                break
        o = next(it, None)
        if escaped:
            if o is None or o[0] != "escape" or o[1] != "OSError":
                bad.append("unexpected-errno-not-propagated")
            return bad
        if o is None or o[0] != "final":
            bad.append("escape-without-cause" if o is not None and o[0] == "escape" else "observation-shape")
            return bad
        st = dict((x[0], x[1:]) for x in o[1])
        held_q = [(bytes(g), d) for g, d in st["txgs"]]
        held_b = (bytes(st["txb"][0]), st["dst"][0])
        if held_q != list(q):
            bad.append("queue-differs-from-unsent-grams")
        if cur is None:
            if held_b[1] is not None:
                bad.append("remainder-without-gram-in-flight")
        elif held_b != (cur[0][cur[2]:], cur[1]):
            bad.append("gram-in-flight-not-held-for-retry")            # F34: a blocked fresh gram is not kept
        # liveness: the script ran out (transport accepts everything) before the last greedy call
        if last_kind == "g" and opened and consumed >= len(script) and (q or cur is not None):
            sends_last = len([x for x in obs if x[0] == "call"][-1]) - 1
            if consumed - sends_last >= len(script):
                bad.append("not-drained-although-transport-accepts")
        return bad

    def nontrivial(self, case, obs):
        try:
            return self._nontrivial(case, obs)
        except Exception:
            return True

    def _nontrivial(self, case, obs):
        for o in obs:
            if o[0] == "call":
                for _d, offered, res in o[1:]:
                    if res[0] in ("w", "e") or (res[0] == "a" and res[1] < len(offered)):
                        return True
        return False

    def features(self, case, obs):
        try:
            return self._features(case, obs)
        except Exception as ex:
            return ["features-failed:" + type(ex).__name__]

    def _features(self, case, obs):
        peer, grams_, script_, calls_ = parts(case)
        f = ["level:" + (peer or "memoer"), f"grams={min(len(grams_), 4)}", f"script~{min(len(script_), 9) // 3 * 3}"]
        kinds = set()
        for o in obs:
            if o[0] == "call":
                for _d, offered, res in o[1:]:
                    if res[0] == "a":
                        kinds.add("accept-all" if res[1] >= len(offered) else ("accept-0" if res[1] == 0 else "accept-part"))
                    elif res[0] == "w":
                        kinds.add("would-block")
                    else:
                        kinds.add("unreachable" if res[1] in {A.errno_of(n) for n in A.UNREACH} else "other-errno")
            elif o[0] == "escape":
                kinds.add("escape:" + o[1])
        if any(not isinstance(c, str) for c in calls_):
            kinds.add("gramit-midway")
        return f + sorted(kinds)

    def shrink(self, case):
        peer, grams, script, calls = parts(case)
        h0 = held0(case)
        ex = (h0,) if h0 else ()
        for c in self._shrink3(("tx", grams, script, calls)):
            yield ((("txp", peer) + tuple(c[1:])) if peer else c) + ex
        if h0:
            yield (("txp", peer, grams, script, calls) if peer else ("tx", grams, script, calls))

    def _shrink3(self, case):
        _, grams, script, calls = case
        for i in range(len(grams)):
            yield ("tx", grams[:i] + grams[i + 1:], script, calls)
        for i in range(len(script)):
            yield ("tx", grams, script[:i] + script[i + 1:], calls)
        for i in range(len(calls)):
            yield ("tx", grams, script, calls[:i] + calls[i + 1:])
        for i, (g, d) in enumerate(grams):
            if len(g) > 1:
                yield ("tx", grams[:i] + [(g[:len(g) // 2], d)] + grams[i + 1:], script, calls)

    def mutate(self, rng, case):
        peer, grams, script, calls = parts(case)
        out = list(self.shrink(case))
        for i in range(len(script)):
            for s in ((("e", "ENOBUFS") if peer else ("w",)), ("a", 1), ("e", "ECONNREFUSED")):
                c = (grams, script[:i] + [s] + script[i + 1:], calls)
                out.append((("txp", peer) + c) if peer else (("tx",) + c))
        if not peer:
            for k in ("udp", "uxd"):
                out.append(("txp", k, grams, [(("e", "ENOBUFS") if x[0] == "w" else x) for x in script], calls))
        return out


CHECK = C21()
