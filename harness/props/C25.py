"""C25 — boxwork transitions run exit/enter actions in the documented nested order (hio.base.hier.boxing)."""
from .. import core, sx
from ..areas import box as ab

ENTRY_EXIT = ("exdo", "rexdo", "remark", "rendo", "enmark", "endo")


def _acts(boxes, b, nabe):
    """expected complete, in-declaration-order run of the recording acts of box b in one context"""
    c = dict(zip(ab.NABES8, boxes[b][1]))
    if nabe == "rendo":      # Box.rendo(): remarks then renacts
        return [(b, "remark", k) for k in range(c["remark"])] + [(b, "rendo", k) for k in range(c["rendo"])]
    if nabe == "endo":       # Box.endo(): enmarks then enacts
        return [(b, "enmark", k) for k in range(c["enmark"])] + [(b, "endo", k) for k in range(c["endo"])]
    return [(b, nabe, k) for k in range(c[nabe])]


def _seq(boxes, bs, nabe):
    out = []
    for b in bs:
        out += _acts(boxes, b, nabe)
    return out


def _bit(mask, t):
    return bool((mask >> t) & 1)


def oracle_case(case, obs):
    """The property, clause by clause, on the implementation's event log.  Uses only the case (tree, masks,
    documented pile) — never the Lean model."""
    boxes, first, ticks, endat = case
    bad = []

    def flag(c):
        if c not in bad:
            bad.append(c)

    recs = [r for r in obs if isinstance(r[0], int)]
    final = obs[-1]
    if final[0] == "exc":
        flag("exception-escaped")
    start = first if first >= 0 else 0
    active = start          # what the documentation says is active before each call
    ended = False
    for (t, act_after, evs) in recs:
        evs = list(evs)
        last = (t == recs[-1][0])
        if t == 0:
            # entry preconditions of the first pile, top-down, stop at first unmet one; nothing else
            exp, met = _predo(boxes, ab.pile_of(boxes, start), t)
            if evs != exp:
                flag("first-predo-order")
            if not met:
                if not (last and final == ("ret", False)) or act_after is not None:
                    flag("first-predo-failed-but-ran")
                return bad
            if last and final[0] == "ret":
                flag("returned-early")
            continue
        if t == 1:
            P = ab.pile_of(boxes, start)
            exp = _seq(boxes, P, "endo") + _seq(boxes, P, "redo")
            if [e for e in evs if e[1] in ("enmark", "endo")] != _seq(boxes, P, "endo"):
                flag("first-entry-top-down")
            elif evs != exp:
                flag("first-pass-events")
            if act_after != start:
                flag("active-box")
            continue
        # loop pass
        if endat >= 0 and t >= endat and not ended:
            # end was desired before this pass: exit every active box exactly once, bottom-up, nothing else
            ended = True
            P = ab.pile_of(boxes, active)
            exp = _seq(boxes, list(reversed(P)), "exdo")
            if evs != exp:
                flag("end-exits-active-once-bottom-up")
            if final != ("ret", True) or act_after is not None:
                flag("end-result")
            break
        # parse: afdo/godo/predo prefix, then (if a transition succeeded) the exit/entry block
        P = ab.pile_of(boxes, active)
        k = 0
        while k < len(evs) and evs[k][1] in ("afdo", "godo", "predo"):
            k += 1
        prefix, rest = evs[:k], evs[k:]
        # which transition (if any) should succeed according to masks and documented lists
        exp_prefix = []
        trans = None
        for b in P:
            exp_prefix += _acts(boxes, b, "afdo")
            for j, (dest, mask) in enumerate(boxes[b][3]):
                exp_prefix.append((b, "godo", j))
                if _bit(mask, t):
                    kept, left, arr = ab.split(boxes, active, dest)
                    pe, met = _predo(boxes, arr, t)
                    exp_prefix += pe
                    if met:
                        trans = (dest, kept, left, arr)
                        break
            if trans:
                break
        if prefix != exp_prefix:
            flag("afdo-godo-predo-order")
        if trans is None:
            # no transition (none fired, or every fired one had an unmet entry precondition):
            # NO exit or entry action may run
            if any(e[1] in ENTRY_EXIT for e in evs):
                flag("failed-predo-no-actions")
            elif rest != _seq(boxes, P, "redo"):
                flag("redo-top-down")
            if act_after != active:
                flag("active-box")
        else:
            dest, kept, left, arr = trans
            ex = [e for e in rest if e[1] == "exdo"]
            rx = [e for e in rest if e[1] == "rexdo"]
            rn = [e for e in rest if e[1] in ("remark", "rendo")]
            en = [e for e in rest if e[1] in ("enmark", "endo")]
            if ex != _seq(boxes, list(reversed(left)), "exdo"):
                flag("exit-bottom-up")
            if en != _seq(boxes, arr, "endo"):
                flag("enter-top-down")
            if rx != _seq(boxes, list(reversed(kept)), "rexdo"):
                flag("rexit-bottom-up")
            if rn != _seq(boxes, kept, "rendo"):
                flag("reenter-top-down")
            D = ab.pile_of(boxes, dest)
            exp = (_seq(boxes, list(reversed(left)), "exdo") + _seq(boxes, list(reversed(kept)), "rexdo")
                   + _seq(boxes, kept, "rendo") + _seq(boxes, arr, "endo") + _seq(boxes, D, "redo"))
            if not bad and rest != exp:
                flag("transition-phase-order")
            if act_after != dest:
                flag("active-box")
            active = dest
        if last and final[0] == "ret":
            flag("returned-early")
    # every act of one box in one context in declaration order, whatever else happened
    for (t, _, evs) in recs:
        run = {}
        for (b, nabe, k) in evs:
            if nabe in ("godo", "predo"):
                continue
            n = dict(zip(ab.NABES8, boxes[b][1]))[nabe]
            want = run.get((b, nabe), 0)
            if k != want % max(n, 1):
                flag("declaration-order")
            run[(b, nabe)] = want + 1
    return bad


def _predo(boxes, bs, t):
    """expected predo evaluations for boxes bs top-down at tick t: (events, met)"""
    ev = []
    for b in bs:
        for k, m in enumerate(boxes[b][2]):
            ev.append((b, "predo", k))
            if not _bit(m, t):
                return ev, False
    return ev, True


class C25(core.Check):
    pid = "C25"
    pkg = "Box"
    props_mod = "HioModel.Props.C25"
    design_ref = "DESIGN.md §5 C25"
    technique = ("Lean 4 theorems over an executable model of Box.pile / Boxer.exen / Boxer.run / Boxer.end + "
                 "differential run of the compiled model against real boxworks built with Boxer.make + independent event-log oracle")
    level_text = ("Lean theorems for EVERY boxwork (any number of boxes, any shape; wf = what Boxer.bx guarantees, proved of every declarable "
                  "boxwork in declared_boxworks_are_wf), every tick, every active box, every number of sends (unbounded; induction over the run in "
                  "run_records_are_passes, so every transition sequence): exen_total (exen's loop always returns), exen_splits_piles, fork_separates_piles, pile_is_chain, "
                  "transition_trace / exit_bottom_up_enter_top_down / retained_rexit_then_reenter (accepted transition: left boxes exited bottom-up, "
                  "kept re-exited bottom-up then re-entered top-down, arrived entered top-down, in that phase order, computed from the ACTIVE pile), "
                  "failed_predo_no_actions + failed_attempt_is_skipped (no accepted transition => no exit/entry action at all), "
                  "end_exits_active_once_bottom_up + ended_pass_ends, acts_in_declaration_order (whole rounds 0..n-1 of each act list), first_entry_top_down. "
                  "All unconditional on the fixed tree (4 fix: commits on fix/box); no _partial theorems. The model is tied to the code by a seeded "
                  "differential run of the compiled model against real Boxer.make/run (exhaustive single transitions on all forests <= 5 boxes in thorough) "
                  "and by translator-regenerated statement tables (gen_* theorems: unpack order, exen argument, phase call order, end reversal).")
    level_note = ("Trusted: Lean kernel + propext/Classical.choice/Quot.sound; the AST translator harness/extract/box.py; that the sampled correspondence is "
                  "representative (box identity = declaration index, acts opaque and non-raising, need/preact truth scripted per tick); "
                  "'boxes left / kept / arrived' are exen's split of the two piles at the first difference or at the destination (forced re-entry), "
                  "as the exen docstring defines them; fork_separates_piles proves that outside forced re-entry nothing below the fork is shared.")
    quick_n = 2000
    thorough_n = 40000
    rule = ("cases: ordered forest of <= 7 boxes (any declaration order), 0-3 recording acts in each of the 8 action nabes of every box, "
            "preacts and goacts whose truth at each tick is a bit mask, optional first box, 1-10 ticks, optional end tick. "
            "Three generators: scripted walks (one chosen transition per pass, 25% with a failing entry precondition), chaotic masks "
            "(several goacts firing in one pass), exhaustive single transitions per shape (thorough). "
            "non-trivial = at least one pass in which a goact fired (transition attempted); distinct by request line")
    trusted_base = ["correspondence harness/props/C25.py + harness/areas/box.py: compiled model driver vs real Boxer.make/run on the same case",
                    "recording acts/needs are harness-side callables installed through the public do()/go() verbs",
                    "modelled: box identity as declaration index, Hold end flag as a scripted tick"]
    assumptions = ["boxworks are built by Boxer.make/bx (over declared before under), nobody reads Box.pile during make (pile cache)",
                   "acts do not raise and do not mutate the boxwork"]

    def extract(self):
        from ..extract import box as xb
        return xb.extract()

    def corpus(self):
        R = (1, 2, 1, 2, 1, 1, 2, 2)
        c = []
        # F40: two retained boxes with rexdo/rendo acts: a>b>(c,d), c -> d
        c.append(([(-1, R, [], []), (0, R, [], []), (1, R, [], [(3, 0b100)]), (1, R, [], [])], -1, 3, -1))
        # F41: a>(b,c); start in c (not primary under); a declares go to a sibling tree d
        c.append(([(-1, R, [], [(3, 0b1000)]), (0, R, [], [(2, 0b100)]), (0, R, [], []), (-1, R, [], [])], -1, 4, -1))
        # F52: a, b top-level; a go b fires every pass, b's preact never satisfied after tick 0
        c.append(([(-1, R, [], [(1, 0b11100)]), (-1, R, [0b1], [])], -1, 4, -1))
        # F53: end with a 3-deep pile
        c.append(([(-1, R, [], []), (0, R, [], []), (1, R, [], [])], -1, 2, 2))
        # self / forced re-entry at the middle of the pile, ancestor with non-primary branch
        c.append(([(-1, R, [], []), (0, R, [], []), (0, R, [], [(0, 0b100), (2, 0b1000)]), (2, R, [], [(2, 0b10000)])], 3, 5, 6))
        # first entry precondition fails
        c.append(([(-1, R, [0b0], []), (0, R, [], [])], -1, 2, -1))
        return c

    def exhaustive(self, tier):
        if tier != "thorough":
            cs = []
            for n in range(1, 4):
                for ps in ab.all_shapes(n):
                    cs += ab.single_transitions(ps)
            return cs, "every ordered forest of <= 3 boxes x every (start, declaring box, dest) single transition x (pass | failing preact on each arrived box), then end"
        cs = []
        for n in range(1, 6):
            for ps in ab.all_shapes(n):
                cs += ab.single_transitions(ps)
        return cs, "every ordered forest of <= 5 boxes x every (start, declaring box, dest) single transition x (pass | failing preact on each arrived box), then end"

    def generate(self, rng, n, tier):
        for _ in range(n):
            nb = rng.choice([2, 3, 3, 4, 4, 5, 5, 6, 7])
            if rng.random() < 0.3:
                ps = rng.choice(ab.all_shapes(min(nb, 6)))
                nb = len(ps)
            else:
                ps = ab.random_parents(rng, nb)
            if rng.random() < 0.6:
                first = rng.choice([-1, rng.randrange(nb)])
                yield ab.scripted(rng, ps, rng.randrange(1, 9), fail_p=rng.choice([0.0, 0.25, 0.5]),
                                  rich=rng.random() < 0.6, first=first)
            else:
                yield ab.chaotic(rng, ps, rng.randrange(2, 9))

    def request(self, case):
        return ab.request(case)

    def run_impl(self, case):
        return ab.run_impl(case)

    def oracle(self, case, obs):
        return oracle_case(case, obs)

    def nontrivial(self, case, obs):
        boxes = case[0]
        for r in obs[:-1]:
            for (b, nabe, k) in r[2]:
                if nabe == "godo" and r[0] >= 2 and _bit(boxes[b][3][k][1], r[0]):
                    return True
        return False

    def features(self, case, obs):
        boxes, first, ticks, endat = case
        f = [f"boxes={len(boxes)}", "final=" + "-".join(str(x) for x in obs[-1])]
        active = first if first >= 0 else 0
        for r in obs[:-1]:
            t, after, evs = r
            if t < 2:
                continue
            fired = [(b, k) for (b, nabe, k) in evs if nabe == "godo" and _bit(boxes[b][3][k][1], t)]
            moved = any(e[1] in ("exdo", "enmark", "endo") for e in evs) and not (endat >= 0 and t >= endat)
            for (b, k) in fired[:-1] if moved else fired:
                f.append("attempt:failed-predo")
            if moved and fired:
                b, k = fired[-1]
                f.append("transition:" + ab.relation(boxes, active, boxes[b][3][k][0]))
                kept, left, arr = ab.split(boxes, active, boxes[b][3][k][0])
                f.append(f"kept={len(kept)}")
                if b != active:
                    f.append("declared-by:non-active-box")
                if ab.pile_of(boxes, b) != ab.pile_of(boxes, active):
                    f.append("declarer-pile!=active-pile")
            if len(fired) > 1:
                f.append("several-goacts-fired-in-pass")
            if after is not None:
                active = after
        if endat >= 0 and obs[-1] == ("ret", True):
            f.append(f"end:pile={len(ab.pile_of(boxes, active))}")
        return f

    def shrink(self, case):
        boxes, first, ticks, endat = case
        n = len(boxes)
        # drop a leaf box that nobody targets
        for i in reversed(range(n)):
            if any(b[0] == i for b in boxes) or i == first:
                continue
            if any(d == i for b in boxes for d, _ in b[3]):
                continue
            if n == 1:
                continue
            nb = []
            for j, (p, c, pres, gos) in enumerate(boxes):
                if j == i:
                    continue
                nb.append((p - 1 if p > i else p, c, pres, [(d - 1 if d > i else d, m) for d, m in gos]))
            yield (nb, first - 1 if first > i else first, ticks, endat)
        if ticks > 1:
            yield (boxes, first, ticks - 1, endat if endat <= ticks - 1 else -1)
        if endat >= 0:
            yield (boxes, first, ticks, -1)
        for i, (p, c, pres, gos) in enumerate(boxes):
            for j in range(len(gos)):
                yield (boxes[:i] + [(p, c, pres, gos[:j] + gos[j + 1:])] + boxes[i + 1:], first, ticks, endat)
            for j in range(len(pres)):
                yield (boxes[:i] + [(p, c, pres[:j] + pres[j + 1:], gos)] + boxes[i + 1:], first, ticks, endat)
            if any(x > 1 for x in c):
                yield (boxes[:i] + [(p, tuple(min(x, 1) for x in c), pres, gos)] + boxes[i + 1:], first, ticks, endat)
        if first >= 0:
            yield (boxes, -1, ticks, endat)

    def mutate(self, rng, case):
        boxes, first, ticks, endat = case
        out = list(self.shrink(case))
        n = len(boxes)
        for _ in range(6):
            i = rng.randrange(n)
            p, c, pres, gos = boxes[i]
            g2 = list(gos) + [(rng.randrange(n), 1 << rng.randrange(2, ticks + 2))]
            out.append((boxes[:i] + [(p, c, pres, g2)] + boxes[i + 1:], first, ticks + 1, endat))
        return out

    def known(self, case, obs, clauses):
        return None


CHECK = C25()
