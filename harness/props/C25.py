"""C25 — boxwork transitions run exit/enter actions in the documented nested order (hio.base.hier.boxing)."""
from .. import core, sx
from ..areas import box as ab

ENTRY_EXIT = ("exdo", "rexdo", "remark", "rendo", "enmark", "endo")


def _acts(boxes, b, nabe):
    """expected complete, in-declaration-order run of the recording acts of box b in one context"""
    c = dict(zip(ab.NABES8, boxes[b][1]))
    if nabe == "rendo":      # Box.rendo(): remarks then renacts
        return [(b, "remark", k) for k in range(c["remark"])] + [(b, "rendo", k) for k in range(c["rendo"])]
    if nabe == "endo":       # Box.endo(): enmarks then enacts
        return [(b, "enmark", k) for k in range(c["enmark"])] + [(b, "endo", k) for k in range(c["endo"])]
    return [(b, nabe, k) for k in range(c[nabe])]


def _seq(boxes, bs, nabe):
    out = []
    for b in bs:
        out += _acts(boxes, b, nabe)
    return out


def _bit(mask, t):
    return bool((mask >> t) & 1)


def expected_round(case, with_faults=True):
    """What the documentation says one run of the case must log, call by call:
    list of (tick, [(box, nabe, idx, seen_box)], active_after, final_or_None).  Written from the docstrings of
    Boxer.run/exen/end and the property text; uses only the documented pile (`ab.pile_of/split`)."""
    boxes, first, ticks, endat, (style, mode, raises, enders, rerun, neighbour, truth, verbs) = ab.parts(case)
    if not with_faults:
        raises, enders = [], []
    raising = {}
    for (b, nb, k, t, nm) in raises:
        raising.setdefault((b, nb, k, t), nm)      # first entry wins
    ending = {(b, nb, k) for (b, nb, k) in enders}
    out = []
    if not boxes:
        return [(0, [], None, ("exc", "IndexError"))]
    start = first if first >= 0 else 0
    active = start
    flag = False
    for t in range(ticks + 1):
        final = None
        if t == 0:
            pe, met = _predo(boxes, ab.pile_of(boxes, start), t)
            E = [e + (start,) for e in pe]
            after = start if met else None
            if not met:
                final = ("ret", False)
        elif t == 1:
            P = ab.pile_of(boxes, start)
            E = [e + (start,) for e in _seq(boxes, P, "endo") + _seq(boxes, P, "redo")]
            after = start
        elif (endat >= 0 and t >= endat) or flag:
            P = ab.pile_of(boxes, active)
            E = [e + (active,) for e in _seq(boxes, list(reversed(P)), "exdo")]
            after = None
            final = ("ret", True)
        else:
            P = ab.pile_of(boxes, active)
            scan, trans = [], None
            for b in P:
                scan += _acts(boxes, b, "afdo")
                for j, (dest, mask) in enumerate(boxes[b][3]):
                    scan.append((b, "godo", j))
                    if _bit(mask, t):
                        kept, left, arr = ab.split(boxes, active, dest)
                        pe, met = _predo(boxes, arr, t)
                        scan += pe
                        if met:
                            trans = (dest, kept, left, arr)
                            break
                if trans:
                    break
            if trans is None:
                E = [e + (active,) for e in scan + _seq(boxes, P, "redo")]
                after = active
            else:
                dest, kept, left, arr = trans
                pre = scan + _seq(boxes, list(reversed(left)), "exdo") + _seq(boxes, list(reversed(kept)), "rexdo")
                post = _seq(boxes, kept, "rendo") + _seq(boxes, arr, "endo") + _seq(boxes, ab.pile_of(boxes, dest), "redo")
                E = [e + (active,) for e in pre] + [e + (dest,) for e in post]
                after = dest
        # an act that raises ends the call (and the run) right there; Boxer.run catches nothing
        for i, (b, nb, k, seen) in enumerate(E):
            nm = raising.get((b, nb, k, t))
            if nm:
                E = E[:i + 1]
                after = seen
                final = ("exc", nm)
                break
        if any((b, nb, k) in ending for (b, nb, k, _) in E):
            flag = True
        out.append((t, E, after, final))
        if final is not None:
            break
        if after is not None:
            active = after
    return out


CLAUSES = (("exit-bottom-up", ("exdo",)), ("enter-top-down", ("enmark", "endo")), ("rexit-bottom-up", ("rexdo",)),
           ("reenter-top-down", ("remark", "rendo")), ("afdo-godo-predo-order", ("afdo", "godo", "predo")),
           ("redo-top-down", ("redo",)))


def _split_rounds(obs):
    rounds, cur = [], []
    for r in obs:
        cur.append(r)
        if not isinstance(r[0], int):
            rounds.append(cur)
            cur = []
    if cur:
        rounds.append(cur)
    return rounds


def oracle_case(case, obs):
    """The property, clause by clause, on the implementation's event log.  Total: whatever the observation is,
    the result is a list of clause names (an observation that cannot be accounted for is a violation)."""
    try:
        return _oracle_case(case, obs)
    except Exception as ex:     # noqa
        return ["oracle-cannot-account:" + type(ex).__name__]


def _oracle_case(case, obs):
    boxes, first, ticks, endat, (style, mode, raises, enders, rerun, neighbour, truth, verbs) = ab.parts(case)
    bad = []

    def flag(c):
        if c not in bad:
            bad.append(c)

    exp = expected_round(case)
    rounds = _split_rounds(obs)
    want_rounds = 2 if (rerun and mode != 2) else 1
    if len(rounds) != want_rounds:
        flag("run-count")
    for rnd in rounds:                     # a re-run of the same Boxer must do exactly what the first run did
        recs = [r for r in rnd if isinstance(r[0], int)]
        final = rnd[-1] if rnd and not isinstance(rnd[-1][0], int) else ("missing",)
        efinal = next((f for (_, _, _, f) in exp if f is not None), ("live",))
        if tuple(final) != tuple(efinal):
            if final[0] == "exc":
                flag("exception-escaped" if efinal[0] != "exc" else "exception-class")
            elif efinal[0] == "exc":
                flag("exception-swallowed")
            elif efinal == ("ret", True) or final == ("ret", True):
                flag("end-result")
            else:
                flag("run-result")
        if len(recs) != len(exp):
            flag("record-count")
        for (t, after, evs), (et, E, eafter, ef) in zip(recs, exp):
            evs = [tuple(e) for e in evs]
            got3 = [e[:3] for e in evs]
            want3 = [e[:3] for e in E]
            ended_pass = ef == ("ret", True)
            if t != et:
                flag("record-count")
            any_clause = False
            for name, nabes in CLAUSES:
                if [e for e in got3 if e[1] in nabes] != [e for e in want3 if e[1] in nabes]:
                    any_clause = True
                    if ended_pass:
                        flag("end-exits-active-once-bottom-up")
                    elif t == 0:
                        flag("first-predo-order")
                    elif t == 1:
                        flag("first-entry-top-down" if "endo" in nabes else "first-pass-events")
                    elif not any(e[1] in ENTRY_EXIT for e in want3) and any(e[1] in ENTRY_EXIT for e in got3):
                        flag("failed-predo-no-actions")
                    else:
                        flag(name)
            if not any_clause and got3 != want3:
                flag("transition-phase-order")
            if got3 == want3:
                # which box was active when each act ran: self.box changes after exits/re-exits, before entries
                if [e[3] for e in evs] != [e[3] for e in E]:
                    flag("active-box-switch-point")
                if t > 0 and [e[4] for e in evs] != [e[3] for e in E]:
                    flag("hold-active-switch-point")
            if after != eafter:
                flag("active-box")
            # every act of one box in one context in declaration order, in whole rounds
            if ef is None or ef[0] != "exc":
                run = {}
                for (b, nabe, k) in got3:
                    if nabe in ("godo", "predo"):
                        continue
                    n = dict(zip(ab.NABES8, boxes[b][1])).get(nabe, 0) if 0 <= b < len(boxes) else 0
                    w = run.get((b, nabe), 0)
                    if k != w % max(n, 1):
                        flag("declaration-order")
                    run[(b, nabe)] = w + 1
    return bad


def _predo(boxes, bs, t):
    """expected predo evaluations for boxes bs top-down at tick t: (events, met)"""
    ev = []
    for b in bs:
        for k, m in enumerate(boxes[b][2]):
            ev.append((b, "predo", k))
            if not _bit(m, t):
                return ev, False
    return ev, True


class C25(core.Check):
    pid = "C25"
    pkg = "Box"
    props_mod = "HioModel.Props.C25"
    design_ref = "DESIGN.md §5 C25"
    technique = ("Lean 4 theorems over an executable model of Box.pile / Boxer.exen / Boxer.run / Boxer.end + "
                 "differential run of the compiled model against real boxworks built with Boxer.make + independent event-log oracle")
    level_text = ("Lean theorems for EVERY boxwork (any number of boxes, any shape; wf = what Boxer.bx guarantees, proved of every declarable "
                  "boxwork in declared_boxworks_are_wf), every tick, every active box, every number of sends (unbounded; induction over the run in "
                  "run_records_are_passes, so every transition sequence): exen_total (exen's loop always returns), exen_splits_piles, fork_separates_piles, pile_is_chain, "
                  "transition_trace / exit_bottom_up_enter_top_down / retained_rexit_then_reenter (accepted transition: left boxes exited bottom-up, "
                  "kept re-exited bottom-up then re-entered top-down, arrived entered top-down, in that phase order, computed from the ACTIVE pile), "
                  "failed_predo_no_actions + failed_attempt_is_skipped (no accepted transition => no exit/entry action at all), "
                  "end_exits_active_once_bottom_up + ended_pass_ends, acts_in_declaration_order (whole rounds 0..n-1 of each act list), first_entry_top_down. "
                  "Faults and side effects (runX): runX_without_faults_is_run, fault_cuts_the_pass (a raising act only cuts the pass: every record is a prefix of the fault-free pass), "
                  "cut_stops_at_first_raising_act, active_box_switches_between_exits_and_entries (boxer.box changes after exits/re-exits, before re-entries/entries), "
                  "end_set_by_an_act_ends_next_pass. "
                  "All unconditional on the fixed tree (4 fix: commits, now in main); no _partial theorems. The model is tied to the code by a seeded "
                  "differential run of the compiled model against real Boxer.make/run (exhaustive single transitions on all forests <= 5 boxes in thorough) "
                  "and by translator-regenerated statement tables (gen_* theorems: unpack order, exen argument, phase call order, end reversal).")
    level_note = ("Trusted: Lean kernel + propext/Classical.choice/Quot.sound; the AST translator harness/extract/box.py; that the sampled correspondence is "
                  "representative (box identity = declaration index, acts opaque and non-raising, need/preact truth scripted per tick); "
                  "'boxes left / kept / arrived' are exen's split of the two piles at the first difference or at the destination (forced re-entry), "
                  "as the exen docstring defines them; fork_separates_piles proves that outside forced re-entry nothing below the fork is shared.")
    quick_n = 1500
    thorough_n = 40000
    rule = ("cases: ordered forest of 0-7 boxes (any declaration order), 0-3 recording acts in each of the 8 action nabes of every box, "
            "preacts and goacts whose truth at each tick is a bit mask, optional first box, 0-10 ticks, optional end tick; options: 7 declaration-style bits "
            "(over/dest as name, Box, '' or next; at()+do vs do(nabe=); interleaved declaration; first via attribute), drive mode (make+send, direct construction, "
            "BoxerDoer under a Doist), acts that raise one of 13 exception classes (incl. BaseException kinds) at a chosen executed event and tick, acts "
            "(preacts and goacts included) that set the end bag, re-run of the same Boxer, a neighbour Boxer sharing the Hold, precondition / need answers "
            "drawn from the whole truthy / falsy object space through every way of declaring a preact or need (callable, Need, on(expr), ActBase subclass, "
            "statement string, expr string over the hold), act lists built through every verb (do, be with callable, be with expr) inside at() sections "
            "and with nabe= per call in every context. "
            "Three generators: scripted walks (one chosen transition per pass, 25% with a failing entry precondition), chaotic masks "
            "(several goacts firing in one pass), exhaustive single transitions per shape (thorough). "
            "non-trivial = at least one pass in which a goact fired (transition attempted); distinct by request line")
    trusted_base = ["correspondence harness/props/C25.py + harness/areas/box.py: compiled model driver vs real Boxer.make/run on the same case",
                    "recording acts/needs are harness-side callables installed through the public do()/go() verbs",
                    "modelled: box identity as declaration index, Hold end flag as a scripted tick"]
    assumptions = ["boxworks are built by Boxer.make/bx or linked consistently by hand (over declared before under), nobody reads Box.pile during make (pile cache)",
                   "acts may raise, set the end bag and read the Boxer, but do not mutate the boxwork's links",
                   "under a Doist an act raising GeneratorExit is the scheduler's forced-close path (C01..), not generated here"]

    def extract(self):
        from ..extract import box as xb
        return xb.extract()

    def corpus(self):
        R = (1, 2, 1, 2, 1, 1, 2, 2)
        c = []
        # F40: two retained boxes with rexdo/rendo acts: a>b>(c,d), c -> d
        f40 = ([(-1, R, [], []), (0, R, [], []), (1, R, [], [(3, 0b100)]), (1, R, [], [])], -1, 3, -1)
        c.append(f40)
        # F41: a>(b,c); start in c (not primary under); a declares go to a sibling tree d
        c.append(([(-1, R, [], [(3, 0b1000)]), (0, R, [], [(2, 0b100)]), (0, R, [], []), (-1, R, [], [])], -1, 4, -1))
        # F52: a, b top-level; a go b fires every pass, b's preact never satisfied after tick 0
        c.append(([(-1, R, [], [(1, 0b11100)]), (-1, R, [0b1], [])], -1, 4, -1))
        # F53: end with a 3-deep pile
        c.append(([(-1, R, [], []), (0, R, [], []), (1, R, [], [])], -1, 2, 2))
        # self / forced re-entry at the middle of the pile, ancestor with non-primary branch
        c.append(([(-1, R, [], []), (0, R, [], []), (0, R, [], [(0, 0b100), (2, 0b1000)]), (2, R, [], [(2, 0b10000)])], 3, 5, 6))
        # first entry precondition fails
        c.append(([(-1, R, [0b0], []), (0, R, [], [])], -1, 2, -1))
        # --- hardening pass ---
        # degenerate: empty boxwork, no sends, a box with no acts at all, end bag set before next() / before first pass
        c.append(([], -1, 2, -1))
        c.append(([(-1, R, [], [])], -1, 0, -1))
        c.append(([(-1, (0,) * 8, [], [(0, 0b100)])], -1, 3, -1))
        c.append(([(-1, R, [], []), (0, R, [], [])], -1, 3, 0))
        c.append(([(-1, R, [], []), (0, R, [], [])], -1, 3, 1))
        # every way of declaring the same boxwork / driving it
        for style, mode in ((127, 0), (0, 1), (0, 2), (85, 2), (42, 0)):
            c.append(f40 + ((style, mode, [], [], 0, 0),))
        # end while the active box is a non-leaf (dest b has under c): the whole pile incl. c is exited
        c.append(([(-1, R, [], [(1, 0b100)]), (-1, R, [], []), (1, R, [], []), (2, R, [], [])], -1, 3, 3))
        # an act raising in every phase of a transition (BaseException kinds too), under Doist as well
        for nb, b, nm, mode in (("exdo", 2, "ValueError", 0), ("rexdo", 0, "KeyboardInterrupt", 0), ("rendo", 1, "SystemExit", 0),
                                ("enmark", 3, "CancelledError", 1), ("redo", 3, "OSError", 2), ("godo", 2, "TypeError", 0),
                                ("afdo", 1, "GeneratorExit", 1)):
            c.append(f40 + ((0, mode, [(b, nb, 0, 2, nm)], [], 0, 0),))
        # a preact with a side effect: sets the end bag while refusing the transition -> next pass ends
        c.append(([(-1, R, [], [(1, 0b1100)]), (-1, R, [0b0011], [])], -1, 4, -1, (0, 0, [], [(1, "predo", 0)], 0, 0)))
        # an endo act that ends (what do('end') does), re-run of the same Boxer afterwards, neighbour boxer on the same hold
        c.append(f40[:3] + (-1, (0, 0, [], [(3, "endo", 1)], 1, 1)))
        c.append(f40 + ((0, 1, [], [], 1, 1),))
        # exception raised by the ending pass and by the very first predo
        c.append(([(-1, R, [], []), (0, R, [], [])], -1, 3, 2, (0, 0, [(1, "exdo", 1, 2, "RuntimeError")], [], 1, 0)))
        c.append(([(-1, R, [0b1], []), (0, R, [], [])], -1, 3, -1, (0, 2, [(0, "predo", 0, 0, "HierError")], [], 0, 0)))
        # r4m2: a precondition / need whose answer is falsy but not the object False (0, None, '', [] …) vetoes all the same;
        # every way of giving a preact (callable, Need, on(expr), ActBase subclass, statement string) and a go-need
        f52 = ([(-1, R, [], [(1, 0b11100)]), (-1, R, [0b1], [])], -1, 4, -1)
        kept = ([(-1, R, [], []), (0, R, [], [(2, 0b1100)]), (0, R, [0b1011, 0], [])], -1, 4, -1)
        for truth in range(1, 16):
            c.append(f52 + ((0, truth % 3, [], [], 0, 0, truth),))
            c.append(kept + ((truth * 9 % 128, (truth + 1) % 3, [], [], 0, 0, truth),))
        # r5m2: act lists built through every verb: each section `do 1; be 2; do 3`-like mixes of do / be(callable) /
        # be(expr) inside at() sections and with nabe= per call, in every context, over a transition that keeps, leaves
        # and arrives, a refused attempt, and the end
        R3 = (3, 3, 3, 3, 3, 3, 3, 3)
        sect = ([(-1, R3, [], []), (0, R3, [], []), (1, R3, [0b10111], [(3, 0b100), (2, 0b1000)]), (1, R3, [0b10111, 0b11111], [(2, 0b1000)])], -1, 5, 5)
        for verbs in range(1, 25):
            c.append(sect + ((0 if verbs % 2 else 32, verbs % 3, [], [], 0, 0, 0, verbs),))
        for truth in (1, 2, 3, 4, 5, 6, 7, 8):    # first pile refused by a non-bool falsy precondition
            c.append(([(-1, R, [0b1110], []), (0, R, [0], [])], -1, 2, -1, (0, truth % 3, [], [], 0, 0, truth)))
            c.append(([(-1, R, [0b1111], []), (0, R, [0b1110], [])], -1, 2, -1, (0, truth % 3, [], [], 0, 0, truth)))
        return c

    @staticmethod
    def _fault_positions(base):
        """the base case with a raise at EVERY event it executes (one case per position)"""
        out = []
        for (t, E, _, _) in expected_round(base, with_faults=False):
            for i, (b, nb, k, _) in enumerate(E):
                nm = ab.EXC_NAMES[(t + i) % len(ab.EXC_NAMES)]
                mode = (t + i) % 3
                if mode == 2 and nm == "GeneratorExit":   # Doer.do treats GeneratorExit as a forced close (scheduler's business)
                    mode = 0
                out.append(base[:4] + ((0, mode, [(b, nb, k, t, nm)], [], 0, 0),))
        return out

    def exhaustive(self, tier):
        R = (1, 2, 1, 2, 1, 1, 2, 2)
        f40 = ([(-1, R, [], []), (0, R, [], []), (1, R, [], [(3, 0b100)]), (1, R, [1], [])], -1, 3, 3)
        cs = self._fault_positions(f40)
        top = 3 if tier != "thorough" else 5
        for n in range(1, top + 1):
            for ps in ab.all_shapes(n):
                for c in ab.single_transitions(ps):
                    cs.append(c)
                    if any(b[2] for b in c[0]):      # the refused variants again with a falsy-but-not-False answer
                        cs.append(c + ((0, len(cs) % 3, [], [], 0, 0, 1 + len(cs) % 40, len(cs) % 7),))
                    elif len(cs) % 2:                # accepted ones again with the act lists built through do / be, at() / nabe=
                        cs.append(c + ((0, len(cs) % 3, [], [], 0, 0, 0, 1 + len(cs) % 60),))
        return cs, (f"every ordered forest of <= {top} boxes x every (start, declaring box, dest) single transition x (pass | failing preact "
                    "on each arrived box), then end; one transition+end run with a raise at every executed event position")

    def generate(self, rng, n, tier):
        for _ in range(n):
            nb = rng.choice([1, 2, 3, 3, 4, 4, 5, 5, 6, 7])
            if rng.random() < 0.3:
                ps = rng.choice(ab.all_shapes(min(nb, 6)))
                nb = len(ps)
            else:
                ps = ab.random_parents(rng, nb)
            if rng.random() < 0.6:
                first = rng.choice([-1, rng.randrange(nb)])
                base = ab.scripted(rng, ps, rng.randrange(1, 9), fail_p=rng.choice([0.0, 0.25, 0.5]),
                                   rich=rng.random() < 0.6, first=first)
            else:
                base = ab.chaotic(rng, ps, rng.randrange(2, 9))
            yield self._with_opts(rng, base)

    def _with_opts(self, rng, base):
        """add declaration style, drive mode, faults and side effects"""
        style = rng.choice([0, 0, rng.randrange(128), rng.randrange(128)])
        mode = rng.choice([0, 0, 0, 1, 2, 2])
        raises, enders = [], []
        trace = None
        if rng.random() < 0.3 or rng.random() < 0.25:
            trace = [(t, e) for (t, E, _, _) in expected_round(base, with_faults=False) for e in E]
        if trace and rng.random() < 0.55:
            # raise at an event that really runs; bias to late ticks (multi-pass history before the fault)
            t, (b, nb, k, _) = rng.choice(trace[len(trace) // 2:] if rng.random() < 0.5 else trace)
            raises.append((b, nb, k, t, rng.choice(ab.EXC_NAMES)))
            if rng.random() < 0.2:
                t, (b, nb, k, _) = rng.choice(trace)
                raises.append((b, nb, k, t, rng.choice(ab.EXC_NAMES)))
        if trace and rng.random() < 0.5:
            for _ in range(rng.choice([1, 1, 2])):
                t, (b, nb, k, _) = rng.choice(trace)
                enders.append((b, nb, k))
        if mode == 2:   # Doer.do treats GeneratorExit as a forced close (scheduler's business, not C25's)
            raises = [(b, nb, k, t, "MemoryError" if nm == "GeneratorExit" else nm) for (b, nb, k, t, nm) in raises]
        rerun = 1 if rng.random() < 0.15 else 0
        neighbour = 1 if rng.random() < 0.15 else 0
        # preconditions / needs answering with any truthy / falsy object through every way of declaring them
        truth = rng.randrange(1, 1000) if rng.random() < 0.5 else 0
        # act lists built through every verb (do / be callable / be expr) in at() sections and with nabe= per call
        verbs = rng.randrange(1, 1000) if rng.random() < 0.5 else 0
        if (style, mode, raises, enders, rerun, neighbour, truth, verbs) == ab.NOOPTS:
            return base
        return base[:4] + ((style, mode, raises, enders, rerun, neighbour, truth, verbs),)

    def request(self, case):
        return ab.request(case)

    def run_impl(self, case):
        return ab.run_impl(case)

    def oracle(self, case, obs):
        return oracle_case(case, obs)

    def nontrivial(self, case, obs):
        boxes = case[0]
        try:
            for r in obs:
                if not isinstance(r[0], int):
                    continue
                for e in r[2]:
                    if e[1] == "godo" and r[0] >= 2 and _bit(boxes[e[0]][3][e[2]][1], r[0]):
                        return True
        except Exception:
            pass
        return False

    def features(self, case, obs):
        boxes, first, ticks, endat, (style, mode, raises, enders, rerun, neighbour, truth, verbs) = ab.parts(case)
        f = [f"boxes={len(boxes)}", f"mode={('make', 'direct', 'doist')[mode]}"]
        f += ["final=" + "-".join(str(x) for x in r) for r in obs if not isinstance(r[0], int)]
        if style:
            f.append("style:nonstandard-declaration")
        if verbs % 4 == 3:
            f.append("verbs:library-acts(lapse/relapse marks via on(), Count)")
        if verbs:
            f.append("verbs:do/be-mix")
            for i, b in enumerate(boxes):
                for nabe, n in zip(ab.NABES8, b[1]):
                    for k in range(n):
                        h = verbs * 13 + i * 7 + ab.NABE_ORD.get(nabe, 9) * 5 + k * 3
                        f.append(f"act:{('do', 'be-callable', 'be-expr')[h % 3]}:{('at-section', 'nabe-kw')[(h // 3) % 2]}:{nabe}")
        if truth:
            f.append("truth:any-object-answers")
            for i, b in enumerate(boxes):
                for k, m in enumerate(b[2]):
                    w = (truth + i * 3 + k) % 5
                    if w == 4 and m & ((1 << (ticks + 2)) - 1):
                        w = 0
                    f.append("preact-given-as:" + ("callable", "Need", "on-expr", "ActBase-subclass", "statement-str")[w])
                for j, g in enumerate(b[3]):
                    f.append("need-given-as:" + ("Need-subclass", "expr-str", "on-expr")[(truth + i + j * 2) % 3])
        if rerun and mode != 2:
            f.append("rerun-same-boxer")
        if neighbour and mode != 2:
            f.append("neighbour-boxer-on-hold")
        try:
            exp = expected_round(case)
            plain = expected_round(case, with_faults=False)
            for (t, E, after, fin) in exp:
                if fin and fin[0] == "exc" and E:
                    f.append(f"raise-in:{E[-1][1]}")
                    f.append(f"raise:{fin[1]}")
                    f.append("raise-at-tick>=3" if t >= 3 else f"raise-at-tick={t}")
            for (b, nb, k) in enders:
                f.append(f"ender-in:{nb}")
            if exp and exp[-1][3] == ("ret", True):
                if not (endat >= 0 and exp[-1][0] >= endat):
                    f.append("end:by-act")
                P = ab.pile_of(boxes, exp[-1][1][0][3]) if exp[-1][1] else []
                f.append(f"end:pile={len(P)}")
                act = exp[-2][2] if len(exp) > 1 else None
                if act is not None and any(b[0] == act for b in boxes):
                    f.append("end:active-box-nonleaf")
            active = first if first >= 0 else 0
            for (t, E, after, fin) in exp:
                if t >= 2 and fin != ("ret", True):
                    fired = [(e[0], e[2]) for e in E if e[1] == "godo" and _bit(boxes[e[0]][3][e[2]][1], t)]
                    moved = after is not None and any(e[3] != active for e in E)
                    selfmove = after == active and any(e[1] in ("exdo", "endo", "enmark") for e in E)
                    if fired and (moved or selfmove):
                        b, k = fired[-1]
                        f.append("transition:" + ab.relation(boxes, active, boxes[b][3][k][0]))
                        f.append(f"kept={len(ab.split(boxes, active, boxes[b][3][k][0])[0])}")
                        if ab.pile_of(boxes, b) != ab.pile_of(boxes, active):
                            f.append("declarer-pile!=active-pile")
                        fired = fired[:-1]
                    f += ["attempt:failed-predo"] * len(fired)
                    if len(fired) > 1:
                        f.append("several-goacts-fired-in-pass")
                if after is not None:
                    active = after
        except Exception:
            f.append("features-failed")
        return f

    def shrink(self, case):
        boxes, first, ticks, endat, opts = ab.parts(case)
        style, mode, raises, enders, rerun, neighbour, truth, verbs = opts
        n = len(boxes)

        def mk(bx, fi, ti, en, o=opts):
            return (bx, fi, ti, en) if tuple(o) == ab.NOOPTS else (bx, fi, ti, en, o)
        # simplify the options first
        if verbs:
            yield mk(boxes, first, ticks, endat, (style, mode, raises, enders, rerun, neighbour, truth, 0))
            if verbs > 6:
                for vb in range(1, 7):
                    yield mk(boxes, first, ticks, endat, (style, mode, raises, enders, rerun, neighbour, truth, vb))
        if truth:
            yield mk(boxes, first, ticks, endat, (style, mode, raises, enders, rerun, neighbour, 0, verbs))
            if truth > 5:
                for tr in range(1, 6):
                    yield mk(boxes, first, ticks, endat, (style, mode, raises, enders, rerun, neighbour, tr, verbs))
        if style:
            yield mk(boxes, first, ticks, endat, (0, mode, raises, enders, rerun, neighbour, truth, verbs))
        if mode:
            yield mk(boxes, first, ticks, endat, (style, 0, raises, enders, rerun, neighbour, truth, verbs))
        if rerun:
            yield mk(boxes, first, ticks, endat, (style, mode, raises, enders, 0, neighbour, truth, verbs))
        if neighbour:
            yield mk(boxes, first, ticks, endat, (style, mode, raises, enders, rerun, 0, truth, verbs))
        for j in range(len(raises)):
            yield mk(boxes, first, ticks, endat, (style, mode, raises[:j] + raises[j + 1:], enders, rerun, neighbour, truth, verbs))
        for j in range(len(enders)):
            yield mk(boxes, first, ticks, endat, (style, mode, raises, enders[:j] + enders[j + 1:], rerun, neighbour, truth, verbs))
        used = {b for (b, *_r) in raises} | {b for (b, *_r) in enders}
        # drop a leaf box that nobody targets
        for i in reversed(range(n)):
            if any(b[0] == i for b in boxes) or i == first or i in used or (used and i < max(used)):
                continue
            if any(d == i for b in boxes for d, _ in b[3]):
                continue
            if n == 1:
                continue
            nb = []
            for j, (p, c, pres, gos) in enumerate(boxes):
                if j == i:
                    continue
                nb.append((p - 1 if p > i else p, c, pres, [(d - 1 if d > i else d, m) for d, m in gos]))
            yield mk(nb, first - 1 if first > i else first, ticks, endat)
        if ticks > 1:
            yield mk(boxes, first, ticks - 1, endat if endat <= ticks - 1 else -1)
        if endat >= 0:
            yield mk(boxes, first, ticks, -1)
        for i, (p, c, pres, gos) in enumerate(boxes):
            for j in range(len(gos)):
                if not any(b == i and nb == "godo" for (b, nb, *_r) in list(raises) + list(enders)):
                    yield mk(boxes[:i] + [(p, c, pres, gos[:j] + gos[j + 1:])] + boxes[i + 1:], first, ticks, endat)
            for j in range(len(pres)):
                if not any(b == i and nb == "predo" for (b, nb, *_r) in list(raises) + list(enders)):
                    yield mk(boxes[:i] + [(p, c, pres[:j] + pres[j + 1:], gos)] + boxes[i + 1:], first, ticks, endat)
            if any(x > 1 for x in c) and i not in used:
                yield mk(boxes[:i] + [(p, tuple(min(x, 1) for x in c), pres, gos)] + boxes[i + 1:], first, ticks, endat)
        if first >= 0:
            yield mk(boxes, -1, ticks, endat)

    def mutate(self, rng, case):
        boxes, first, ticks, endat, opts = ab.parts(case)
        out = list(self.shrink(case))
        n = len(boxes)
        for _ in range(6 if n else 0):
            i = rng.randrange(n)
            p, c, pres, gos = boxes[i]
            g2 = list(gos) + [(rng.randrange(n), 1 << rng.randrange(2, ticks + 2))]
            out.append((boxes[:i] + [(p, c, pres, g2)] + boxes[i + 1:], first, ticks + 1, endat, opts))
        return out

    def known(self, case, obs, clauses):
        return None


CHECK = C25()
