"""C13 — HTTP message parsing does not depend on how the bytes are fragmented into reads."""
from .. import core, sx
from ..areas import httpparse as hp
from ..extract import httpparse as xhp


def gen_pipeline(rng, side):
    """(wire, closed?) : 1-3 well-formed messages, the last possibly incomplete"""
    out = bytearray()
    closed = False
    n = rng.choice([1, 1, 2, 3])
    for _ in range(n):
        if side == "req":
            out += hp.gen_request(rng)
        else:
            w, need_close = hp.gen_response(rng)
            out += w
            if need_close:
                closed = True
                break
    if rng.random() < 0.15:
        out = out[:rng.randrange(0, len(out) + 1)]
    if side == "resp" and rng.random() < 0.3:
        closed = True
    return bytes(out), closed


class C13(core.Check):
    pid = "C13"
    pkg = "HttpParse"
    props_mod = "HioModel.Props.C13"
    design_ref = "DESIGN.md §5 C13, Appendix A.4"
    technique = ("Lean 4: generic theorem for framed incremental readers (any partition of the input = the whole input) "
                 "instantiated for models of Requestant / Respondent / parseChunk; regenerated constants and eols tables; "
                 "differential run of the compiled model against the real parsers; whole-vs-fragmented oracle on the real parsers")
    level_text = ("Proved for all byte strings and all partitions (unbounded, no well-formedness assumption): "
                  "request_fragmentation_independent, response_fragmentation_independent (incl. the far side closing after the last read), "
                  "chunk_fragmentation_independent, reader_fragmentation_independent (generic), line_decision_stable / line_too_long_stable "
                  "(the decision of the end-of-line search on a buffer is the decision on every extension; false before the fix of F18: "
                  "old_search_depends_on_split), eol_sites_match (the eols tuples of every call site, regenerated).  The models are tied to the code by the correspondence run (model result = real parser result on every "
                  "generated case, whole and fragmented) and the regenerated tables (eols per call site, MAX_LINE_SIZE, MAX_HEADERS, METHODS, text-primitive probes).")
    level_note = ("Trusted: Lean kernel; translator harness/extract/httpparse.py; representativeness of the sampled correspondence; "
                  "urllib.urlsplit verdict on request targets and CPython str/bytes primitives enter the model as probed tables/parameters.")
    quick_n = 700
    thorough_n = 40000
    rule = ("cases: grammar-directed request / response pipelines (content-length, chunked with extensions and trailers, close-delimited; CRLF, bare LF, mixed; "
            "bodies with CR/LF bytes; 100-continue; HEAD), 30% near-valid mutations, each under a seeded partition (uniform cut sets, all 1-byte, cuts inside/around "
            "every terminator, tail byte by byte); non-trivial = at least one cut and at least one message or error decided; distinct by request line")
    trusted_base = ["translator harness/extract/httpparse.py (constants, eols per call site, probes of str.lower/isspace/bytes.strip, exception closure)",
                    "correspondence harness/props/C13.py: compiled model driver vs serving.Requestant / clienting.Respondent on the same fragments",
                    "urllib.parse.urlsplit(...).port verdict per request target is a parameter of the model (computed by the real stdlib)"]
    assumptions = ["the far side closing is observed by Respondent one service cycle after the last bytes (as Client.service does)",
                   "Requestant never observes .closed while parsing (Server deletes the requestant when it closes the connection)"]

    def extract(self):
        return xhp.extract()

    def corpus(self):
        m1 = b"GET /a HTTP/1.1\nHost: x\nContent-Length: 3\n\nabc\r\n"      # F18 witness: later CRLF vs earlier LF
        m2 = b"POST /u HTTP/1.1\r\nTransfer-Encoding: chunked\r\n\r\n3;a=b\r\nabc\r\n0\r\nX: y\r\n\r\nGET / HTTP/1.0\r\n\r\nxx"
        r1 = b"HTTP/1.1 100 Continue\r\n\r\nHTTP/1.1 200 OK\r\nContent-Length: 2\r\n\r\nhiHTTP/1.0 200 OK\n\nrest"
        cs = [("req", m1, (), None), ("req", m1, tuple(range(1, len(m1))), None), ("req", m1, (16,), None),
              ("req", m2, (), None), ("req", m2, tuple(range(1, len(m2))), None),
              ("req", b"GET / HTTP/1.1\r", (), None), ("req", b"GET / HTTP/1.1\r\n\r", (15,), None),
              ("resp", False, r1, (), True, None), ("resp", False, r1, tuple(range(1, len(r1))), True, None),
              ("resp", True, b"HTTP/1.1 200 OK\r\nContent-Length: 5\r\n\r\nHTTP/1.1 204 No\r\n\r\n", (3, 20), False, None),
              ("resp", False, b"HTTP/1.1 200 OK\r\nContent-Length: 5\r\n\r\nab", (), True, None),
              ("resp", False, b"", (), True, None)]
        ch = b"HTTP/1.1 200 OK\r\nTransfer-Encoding: chunked\r\n\r\n3\r\nabc\r\n4\r\ndefg\r\n2\r\nhi\r\n0\r\n\r\n"
        for cutset in ((50,), (52,), (57,), (61,), (20, 52), (57, 70), tuple(range(1, len(ch)))):    # close before the last parse
            cs.append(("resp", False, ch, cutset, True, "cf"))
        cs.append(("resp", False, ch[:61], (52,), True, "cf"))        # stream stops exactly after a chunk
        cs.append(("resp", False, ch[:57], (52,), True, "cf"))
        cs.append(("resp", False, r1, (30, 60), True, "cf"))
        q1 = b"POST /a HTTP/1.1\r\nTransfer-Encoding: chunked\r\n\r\n4\r\naaaa\r\n3\r\nbbb\r\n0\r\n\r\n"
        q2 = b"PUT /b HTTP/1.1\r\nContent-Length: 5\r\n\r\nBBBBB"
        p1 = b"HTTP/1.1 200 OK\r\nTransfer-Encoding: chunked\r\n\r\n4\r\naaaa\r\n3\r\nbbb\r\n0\r\n\r\n"
        p2 = b"HTTP/1.0 201 C\r\n\r\nBBBBB"
        for side, a, b in (("req", q1, q2), ("resp", p1, p2)):
            for route in ("makeParser-new", "reinit-new", "same-cleared", "makeParser-same"):
                for pre in (0, 3, len(b)):
                    cs.append(("rebind", side, (("first", 0, a, (30,)), (route, pre, b, (10,)), (route, 0, a, ()))))
            for order in ((0, 1, 0, 1, 0, 1, 0, 1), (1, 0, 0, 1, 1, 0), (0, 0, 1, 1, 0, 1)):
                cs.append(("inter", side, ((a, (45, 52, 57)), (b, (22,)) if side == "req" else (b, (18, 21))), order))
                cs.append(("inter", side, ((a, (45, 52)), (a.replace(b"a", b"x").replace(b"xxxx", b"yyyy", 1) if False else a, (50, 55)), (b, (20,))), order + (2, 2)))
        for d in (b"HTTP/1.1 200 OK\r\nContent-Length: 2\r\n\r\nhi", b"HTTP/1.0 200 OK\r\n\r\nclose delimited",
                  b"HTTP/1.1 200 OK\r\nTransfer-Encoding: chunked\r\n\r\n2\r\nhi\r\n0\r\n\r\n", b"HTTP/1.1 204 N\r\n\r\n", b"", b"HTTP/1.1 200 OK\r\nContent-Length: 5\r\n\r\nhi"):
            for cutset in ((), (5,), (len(d) - 1,) if len(d) > 1 else ()):
                for same in (True, False):
                    cs.append(("clid", d, tuple(c for c in cutset if 0 < c < len(d)), same))
        for cl in (b"2\x1c", b"\xa02", b"+2", b"0_2", b"2_", b"-0", b" 2 ", b"\x852", b"2\x1f", b"", b"\xb2"):    # int() on Content-Length
            cs.append(("req", b"POST /c HTTP/1.1\r\ncontent-length: " + cl + b"\r\n\r\n:0GET / HTTP/1.1\r\n\r\n", (30, 41), None))
            cs.append(("resp", False, b"HTTP/1.1 200 OK\r\ncontent-length: " + cl + b"\r\n\r\n:0HTTP/1.1 204 N\r\n\r\n", (30,), True, None))
        for st in (b"+200", b"2_0_0", b"099", b"1000", b"\xb2\xb2\xb2", b"200\x1c", b"-200"):      # int() on the status code
            cs.append(("resp", False, b"HTTP/1.1 " + st + b" OK\r\nContent-Length: 0\r\n\r\n", (12,), False, None))
        for nh in (99, 100, 101):       # MAX_HEADERS boundary, head and trailers
            hs = b"".join(b"H%d: v\r\n" % i for i in range(nh))
            cs.append(("req", b"GET / HTTP/1.1\r\n" + hs + b"\r\nGET /2 HTTP/1.1\r\n\r\n", (40, 700), None))
            cs.append(("req", b"POST / HTTP/1.1\r\nTransfer-Encoding: chunked\r\n\r\n0\r\n" + hs + b"\r\n", (60,), None))
        # every kind of line at / around every size limit, CRLF and LF, with another line of the same block after it
        for n in hp.boundary_line_sizes():
            for e in (b"\r\n", b"\n"):
                hl = b"A: " + b"v" * (n - 3)
                cs.append(("req", b"GET / HTTP/1.1" + e + hl + e + b"B: 2" + e + e + b"GET /2 HTTP/1.1\r\n\r\n", (20 + n,), None))
                cs.append(("resp", False, b"HTTP/1.1 200 OK" + e + hl + e + b"Content-Length: 2" + e + e + b"hiHTTP/1.1 204 N\r\n\r\n", (22 + n,), True, None))
                cs.append(("req", b"POST / HTTP/1.1\r\nTransfer-Encoding: chunked\r\n\r\n0\r\n" + hl + e + b"T: 2" + e + e, (60 + n,), None))
            cs.append(("req", b"POST / HTTP/1.1\r\nTransfer-Encoding: chunked\r\n\r\n1;" + b"e" * (n - 2) + b"\r\na\r\n0\r\n\r\n", (50 + n,), None))
        # line of exactly MAX_LINE_SIZE bytes ended by CRLF, cut between CR and LF
        big = b"GET /" + b"a" * (65536 - 14) + b" HTTP/1.1\r\n\r\n"
        cs.append(("req", big, (65537,), None))
        cs.append(("req", big[:5] + b"a" + big[5:], (65538,), None))
        return cs

    def generate(self, rng, n, tier):
        made = 0
        while made < n:
            side = rng.choice(["req", "req", "resp"])
            data, closed = gen_pipeline(rng, side)
            if rng.random() < 0.3:
                data = hp.mutate_bytes(rng, data)
            for _ in range(rng.choice([1, 2, 3])):
                cuts = hp.cuts_for(rng, data)
                if rng.random() < 0.07:      # one parser object re-used and re-bound between messages
                    steps = []
                    for j in range(rng.choice([2, 3, 4])):
                        d = hp.gen_request(rng) if side == "req" else hp.gen_response(rng)[0]
                        route = "first" if j == 0 else rng.choice(["makeParser-new", "reinit-new", "same-cleared", "makeParser-same"])
                        pre = rng.choice([0, 0, 0, 1, 5, len(d) // 2, len(d)])
                        steps.append((route, pre, d, hp.cuts_for(rng, d, rng.choice(["none", "two", "uniform", "term"]))))
                    yield ("rebind", side, tuple(steps))
                    made += 1
                    continue
                if rng.random() < 0.08:      # independent parser instances, their reads interleaved
                    ps = []
                    for _ in range(rng.choice([2, 2, 3])):
                        d = hp.gen_request(rng) if side == "req" else hp.gen_response(rng)[0]
                        ps.append((d, hp.cuts_for(rng, d, rng.choice(["two", "uniform", "term", "ones"] if len(d) < 160 else ["two", "uniform", "term"]))))
                    total = sum(len(c) + 1 for _, c in ps)
                    order = tuple(rng.randrange(len(ps)) for _ in range(total * 2))
                    yield ("inter", side, tuple(ps), order)
                    made += 1
                    continue
                if side == "req":
                    yield ("req", data, cuts, None)
                elif rng.random() < 0.15:        # the same through Client.service, end of stream with or after the last read
                    yield ("clid", data, cuts if len(cuts) < 40 else cuts[:40], rng.random() < 0.5)
                elif rng.random() < 0.2 and cuts:
                    yield ("resp", rng.random() < 0.1, data, cuts, True, "cf")      # close before the parse of the last read
                else:
                    yield ("resp", rng.random() < 0.1, data, cuts, closed, None)
                made += 1
                if made >= n:
                    break

    def exhaustive(self, tier):
        if tier != "thorough":
            return [], None
        m = b"PUT /p HTTP/1.1\nA: 1\r\nTransfer-Encoding: chunked\n\r\n2\r\n\r\n\r\n0\r\nT: v\n\r\nGET / HTTP/1.1\r\n\r\n"
        cs = [("req", m, (i,), None) for i in range(1, len(m))] + [("req", m, (i, j), None) for i in range(1, len(m)) for j in range(i + 1, len(m))]
        r = b"HTTP/1.1 200 OK\nTransfer-Encoding: chunked\r\n\n1\r\n\r\r\n0\r\n\r\nHTTP/1.0 200 OK\r\n\r\nab\r"
        cs += [("resp", False, r, (i,), True, None) for i in range(1, len(r))] + [("resp", False, r, (i, j), True, None) for i in range(1, len(r)) for j in range(i + 1, len(r))]
        for c in range(256):        # every byte value at each position where a text primitive decides (lower, split, strip, int)
            if c in (10, 13):
                continue
            b1 = bytes([c])
            k = bytes([88, c])
            for other in (k.decode('latin-1').upper().encode('latin-1', 'replace'), k.decode('latin-1').lower().encode('latin-1', 'replace')):
                cs.append(("req", b"GET / HTTP/1.1\r\n" + k + b": 1\r\n" + other + b": 2\r\nContent-Length" + b1 + b": 0\r\nTransfer-Encoding: chunke" + b1 + b"\r\n\r\n", (20,), None))
            cs.append(("req", b"GET /" + b1 + b"x HTTP/1.1" + b1 + b"\r\nA:" + b1 + b"1\r\nContent-Length: " + b1 + b"0" + b1 + b"\r\n\r\n", (9,), None))
            cs.append(("resp", False, b"HTTP/1.1" + b1 + b"200 O" + b1 + b"K\r\nConnection: clos" + b1 + b"\r\nContent-Type: text/event-strea" + b1 + b";" + b1 + b"\r\n\r\n", (11,), True, None))
        return cs, ("every 1-cut and 2-cut partition of one mixed-terminator chunked request pipeline and one response pipeline; "
                    "every byte value at the positions decided by str.lower / split / strip / int")

    def request(self, case):
        return hp.request_of(case)

    def run_impl(self, case):
        return hp.run_case(case)

    def compare_view(self, case, obs):
        return sx.dumps(hp.view_of(case, obs))

    @hp.total
    def oracle(self, case, obs):
        bad = []
        cut, whole = obs
        if case[0] == "rebind":
            # a re-used, re-bound parser gives for every message what a fresh parser gives (attributes that are documented
            # to survive — trailers / chunk parameters of the previous message, last event id, retry — are not compared)
            skip = (6, 7) if case[1] == "req" else (6, 7, 12, 13)
            for (res, ended, esc), (fres, fended, fesc) in zip(cut, whole):
                if esc is not None or fesc is not None:
                    bad.append("exception-escaped-parser")
                    break
                if ended != fended:
                    bad.append("rebound-parser-did-not-see-message")
                    break
                a = None if res is None else tuple(x for i, x in enumerate(res) if res[0] != "ok" or i not in skip)
                b = None if fres is None else tuple(x for i, x in enumerate(fres) if fres[0] != "ok" or i not in skip)
                if a != b:
                    bad.append("rebound-parser-differs-from-fresh")
                    break
            if len(cut) != len(whole) and not bad:
                bad.append("rebound-parser-did-not-see-message")
            return bad
        if case[0] == "inter":
            if hp.has_escape(obs):
                bad.append("exception-escaped-parser")
            elif list(cut) != list(whole):
                bad.append("interleaved-parsers-differ-from-alone")
            return bad
        if case[0] == "clid":
            # Client.service: what is delivered through .responses does not depend on the delivery schedule
            if cut[0] is not None or whole[0] is not None:
                bad.append("exception-escaped-client-service")
            elif cut != whole:
                bad.append("delivery-schedule-changes-response")
            return bad
        if case[0] == "resp" and case[5] == "cf":
            # the close signalled before the last parse: same result, except that a chunked body that stops exactly after a
            # non-empty chunk ends as complete instead of as a premature closure (the bytes are the same)
            a, b = list(cut[0]), list(whole[0])
            if a and b and a[-1][0] == "ok" and a[-1][9] and b[-1] == ("err", "PrematureClosure") and a[:-1] == b[:-1]:
                return bad
            if (cut[0], cut[1][0]) != (whole[0], whole[1][0]):
                bad.append("close-order-changes-result")
            return bad
        if cut != whole:
            bad.append("fragmented-differs-from-whole")
        if hp.has_escape(obs):
            bad.append("exception-escaped-parser")
        return bad

    @hp.safe(True)
    def nontrivial(self, case, obs):
        if case[0] in ("rebind", "inter"):
            return True
        if case[0] == "clid":
            return len(case[1]) > 0
        return len(hp.case_cuts(case) or ()) >= 1 and len(obs[0][0]) >= 1

    @hp.safe(list)
    def features(self, case, obs):
        if case[0] == "rebind":
            return ["rebind:" + case[1]] + ["rebind:" + st[0] + (":empty" if st[1] == 0 else ":prefilled") for st in case[2][1:]]
        if case[0] == "inter":
            return ["inter:" + case[1], f"inter:parsers:{len(case[2])}"]
        if case[0] == "clid":
            return ["clid", "clid:eof-same-pass" if case[3] else "clid:eof-next-pass", f"clid:responses:{len(obs[0][1])}"]
        f = [case[0]]
        cuts = hp.case_cuts(case) or ()
        d = hp.case_data(case)
        f.append("cuts:" + ("0" if not cuts else "all" if len(cuts) == len(d) - 1 else "1-3" if len(cuts) <= 3 else "4+"))
        res = obs[0]
        f.append(f"msgs:{min(len(res[0]), 3)}")
        for m in res[0]:
            f.append("msg:" + m[0] + (":" + m[1] if m[0] == "err" else ""))
            if m[0] == "ok":
                f.append("chunked" if m[-1 if case[0] == "req" else 9] else "plain")
        f.append("tail:" + res[1][0])
        if b"\n" in d.replace(b"\r\n", b""):
            f.append("bare-lf")
        return f

    def shrink(self, case):
        return hp.shrink_case(case)

    @hp.safe(list)
    def mutate(self, rng, case):
        if case[0] in ("rebind", "inter"):
            return list(hp.shrink_case(case))[:30]
        out = []
        d = hp.case_data(case)
        for st in ("ones", "term", "uniform", "two", "tail"):
            c = hp.cuts_for(rng, d, st)
            lst = list(case)
            lst[2 if case[0] in ("req", "clid") else 3] = c
            out.append(tuple(lst))
        return out


CHECK = C13()
