"""C03 — virtual-time scheduling follows the documented cycle model (hio.base.doing Doist.recur / DoDoer.recur, hio.base.tyming)."""
from .. import core, sx
from ..areas import sched as S
from ..areas import schedt as T


class C03(T.SeqCases, S.SchedCheck):
    pid = "C03"
    props_mod = "HioModel.Props.C03"
    design_ref = "DESIGN.md §5 C03, §7 F46"
    quick_n = 600
    thorough_n = 20000
    workers = 1
    technique = ("Lean 4 theorems over the shared executable scheduler model, time type abstract with a law class LawfulTyme (instances proved for Nat and Int, "
                 "none for Float); differential run of the compiled model at Float against hio.base.doing with tymes compared as IEEE-754 bit patterns; "
                 "independent oracle recomputing every doer's due sequence from its script with Python float arithmetic")
    level_text = ("Proved for every time type, program (ops, faults, nesting), limit and fuel, no arithmetic law needed: tick_exact / tick_exact_run (tyme before cycle k and the "
                  "final tyme are start + tock iterated with the abstract +); once_per_cycle_in_order / once_per_cycle (in one pass of ANY scheduler every event carries its current tyme and "
                  "the resumed ids are a sublist of the live forest in deque order); one-step due rules tied to runCycle by leaf_pass_is_stepLeaf: due_cumulative (new due = r + x, independent "
                  "of now and of the scheduler tock), waits_until_due, resumed_when_due, asap_due_tyme; over cycles, for flat op-free deques: flat_cycles_independent / flat_cycle_events "
                  "(non-interference: each doer's schedule is a function of its own script) and due_cumulative_first_cycle (no event while tyme < r + x, resumed in the FIRST cycle whose tyme "
                  ">= r + x).  Under LawfulTyme and 0 <= tock: asap_next_cycle (under the Doist and inside a tock-0 DoDoer), stays_due.  PARTIAL: for doers nested in tock-0 DoDoers (any depth) "
                  "the schedule equals the flat one under guard G04 = scripts positive* asap* (nested_schedule_partial, via the C04 simulation); due_cumulative_fails_nested is the decided "
                  "witness of pre-finding F46 on the model, replayed on the real code in corpus() and recorded as known finding C03-K1.  cycle_runs_in_enter_order_partial composes the per-pass order with C02's invariant (FitsL): under the F03 guard (no entered leaf extends) "
                  "the resumed ids of every cycle are a sublist of the run's enter events; cycle_order_fails_after_extend is the decided F03 witness.  LawfulTyme instances: Nat, Int, Rat.")
    level_note = ("Float is never given a LawfulTyme instance: that IEEE doubles satisfy the laws on the finite non-NaN values used is an assumption; "
                  "the correspondence runs at Float with non-dyadic tocks.  Real-time mode is C07.")
    profiles = ("time", "plain")
    trusted_base = S.SchedCheck.trusted_base + [
        "oracle harness/areas/schedt.py c03_analyse: tick table start+tock+...+tock and per-doer due sequence recomputed with Python floats from the scripts"]
    assumptions = ["the due-tyme clauses are judged on op-free fault-free programs (yielded tocks None, 0 or positive); the order / once-per-cycle / tyme clauses on every program incl. extend/remove ops",
                   "IEEE-754 doubles satisfy LawfulTyme (a+0=a, <= reflexive/transitive/total, 0<=t -> a<=a+t, a<=b -> a+t<=b+t) on the finite non-NaN values used; no Lean instance is declared",
                   "DoDoers with tock > 0 and their members are outside the quantifier of C03: only order/once-per-cycle/tyme clauses are checked for them"]
    rule = ("op-free fault-free programs: own profiles flat/nested/hetero/f46/g04 (scripts positive* asap*, asap-then-positive, mixed; None and 0.0; tocks incl. 0.1 0.3 1/3 0.7; "
            "starts incl. 0.3 100.1 7/3; limits incl. non-multiples and negative; random regroupings under tock-0 DoDoers incl. empty and nested) + profiles time/plain of the family; 7% small worlds of own doers whose FIRST doer re-sets the scheduler's tock / fast-forwards its tyme in mid cycle, judged against a simulation of the cycle model that reads tyme and tock when used (oracle only); 8% programs in which a top-level doer extends the Doist in mid cycle with doers yielding positive tocks larger than the scheduler tock (due-tyme clauses also apply to doers entered by extend: first due = enter tyme, not run in the entering cycle; programs with removes or faults excluded); 18% op-carrying programs of the family (profiles ops/mixed: extend/remove by running doers) judged on the once-per-cycle and enter-order clauses; waiter doers (read a sibling's .done) in 40% of the flat/nested/g04 programs; 6% degenerate programs (no doers, all done at enter, DoDoers without kids: the deque is empty when the first cycle runs); ~40% of the cases reach the same program through a history or another entry point (schedt.run_var: seq, same Doist twice, faulted first run, pre-wound, ints, iterator, doers at init, __call__, hand-driven enter/recur/exit, DoDoer opts); formerly: 30% of the cases are SECOND runs: the same doer objects were first run under another Doist (other start tyme, cut by a limit) and are then run under a fresh one. "
            "non-trivial = >= 10 recur events and some doer yields a positive tock; distinct by request line")

    def corpus(self):
        # S.CORPUS[3] = pre-finding F03 (extend in mid cycle): exhibits known finding C03-K2 on every run
        return [("dyn", tuple(sorted(g.items()))) for g in self.DYN_CORPUS] + list(T.EXTEND_POS_CORPUS) \
            + list(T.DEGENERATE_CORPUS) + list(T.TIMING_CORPUS) + list(T.WAITER_CORPUS) + [S.CORPUS[3], S.CORPUS[1], S.CORPUS[9]] \
            + self.seq_corpus(T.TIMING_CORPUS + T.DEGENERATE_CORPUS[:3] + T.WAITER_CORPUS)

    def request(self, case):
        if case[0] == "dyn":
            return ("unmodelled",)
        return S.request(self.base(case))

    DYN_CORPUS = (
        dict(tock=1.0, start=0.0, limit=8.0, pool=[], doers=[(1, "fn", [0.0] * 6), (2, "bound", [0.0] * 6), (3, "doer", [2.0, 0.0, 0.0])],
             ops=[(1, 2, ("settock", 0.25))]),                     # the first doer lowers the scheduler's tock in mid cycle
        dict(tock=0.5, start=1.0, limit=6.0, pool=[], doers=[(1, "doer", [0.0] * 5), (2, "fn", [0.0] * 5), (3, "fn", [1.0, 0.0])],
             ops=[(1, 2, ("settyme", 2.0))]),                      # ... fast-forwards its tyme
        dict(tock=0.25, start=0.0, limit=4.0, pool=[], doers=[(1, "fn", [None] * 8), (2, "doizebound", [0.5, 0.0, 0.0])],
             ops=[(1, 1, ("settock", 1.0)), (1, 3, ("settock", 0.1))]),
    )

    def exhaustive(self, tier):
        if tier != "thorough":
            return [], None
        cs = []
        ys = (0.0, None, 0.3, 1.0, 2.5)
        for tock in (1.0, 0.3):
            for start in (0.0, 0.3):
                for a in ys:
                    for b in ys:
                        for c in ys:
                            leaf = T._lf(1, [a, b, c], "genrecur")
                            other = T._lf(2, [0.0] * 4, "doify")
                            cs.append(("run", tock, start, None, [], [leaf, other]))
                            cs.append(("run", tock, start, 4.1 * tock, [], [T._grp(9, [leaf]), other]))
        return cs, "every 3-step script over yields {0, None, 0.3, 1.0, 2.5} for one doer, flat and inside one tock-0 DoDoer, tocks {1, 0.3}, starts {0, 0.3}"

    def generate(self, rng, n, tier):
        def plain():
            for _ in range(n):
                k = rng.random()
                if rng.random() < 0.07:
                    yield ("dyn", T.gen_world(rng, "dyn"))
                    continue
                if rng.random() < 0.08:
                    yield T.gen_extend_pos(rng)
                    continue
                if k < 0.06:
                    yield T.gen_degenerate(rng)
                elif k < 0.16:
                    yield S.gen_case(rng, rng.choice(self.profiles))
                elif k < 0.34:
                    # op-carrying programs of the family (extend / remove issued by running doers, also on non-tail live doers):
                    # the clauses "at most once per cycle" and "in enter order" are judged on them too
                    c = S.gen_case(rng, rng.choice(["ops", "ops", "mixed"]))
                    if len(c) == 6:
                        yield c
                    else:
                        yield S.gen_case(rng, "time")
                else:
                    yield T.gen_timed(rng, rng.choice(["flat", "flat", "nested", "nested", "hetero", "f46", "g04", "g04"]))
        return self.with_seq(rng, plain())

    def run_impl(self, case):
        T.settle_heap()
        if case[0] == "dyn":
            return T.WorldObs(T.run_world(case[1]))
        with T.waiters():
            if case[0] in ("seq", "var"):
                return T.TObs(T.run_var(case[2], self.variant(case)))
            return T.TObs(S.run_program(case))

    def nontrivial(self, case, obs):
        if case[0] == "dyn":
            return len(obs.d["trace"]) >= 10
        case = self.base(case)
        d = obs.d
        pos = any(isinstance(o, tuple) and o[0] == "yield" and o[1] for s, _, _ in S.all_specs(case) if s[0] == "leaf" for _, o in s[4])
        return pos and sum(1 for e in d["trace"] if e[1] == "recur") >= 10

    def features(self, case, obs):
        f = super().features(case, obs)
        case = self.base(case)
        _, tock, start, limit, pool, specs = case
        f.append("tock:" + ("dyadic" if float(tock) * 1024 == int(float(tock) * 1024) else "non-dyadic"))
        spec, par, pools, kids = S.spec_index(case)
        if any(T.breaks_g04(s) is not None and par[i] != 0 for i, s in spec.items() if s[0] == "leaf"):
            f.append("nested-asap-then-positive")
        if any(T.breaks_g04(s) is not None and par[i] == 0 for i, s in spec.items() if s[0] == "leaf"):
            f.append("flat-asap-then-positive")
        if limit is not None and tock and abs(limit) / tock != int(abs(limit) / tock):
            f.append("limit-not-multiple-of-tock")
        return f

    def oracle(self, case, obs):
        if case[0] == "dyn":
            return T.c03_dyn_clauses(case[1], obs.a)
        return T.c03_analyse(self.base(case), obs.d)[0]

    def known(self, case, obs, clauses):
        if case[0] == "dyn":
            return None
        case = self.base(case)
        # Both open findings can show in one run (a group member yields positive after asap AND extends): every violated clause must be
        # explained by its own trigger; the case is then booked under K1 when the due clause is among them, else under K2.
        ORDER, DUE = "cycle-order-differs-from-enter-order", "resume-not-in-first-cycle-at-or-after-due"
        if not clauses or not set(clauses) <= {ORDER, DUE}:
            return None
        cl, why = T.c03_analyse(case, obs.d)
        if ORDER in clauses:
            # C03-K2 (pre-finding F03, = C02-K1 seen from C03): a doer extended in mid cycle is queued BEFORE its extender, so later
            # cycles run it ahead of doers that were entered earlier: in every inverted pair the doer that runs too early is a pool doer
            # (entered by extend()) or lives inside one.
            spec, par, pools, kids = S.spec_index(case)
            desc = S.descendants(case)
            early = {i for l in pools.values() for i in l}
            for g in list(early):
                early |= desc.get(g, set())
            inv = why.get("inversions", [])
            if not inv or not all(a in early for a, b in inv):
                return None
        if DUE in clauses:
            # C03-K1 (pre-finding F46): inside a tock-0 DoDoer the due tyme after an asap yield is the CURRENT tyme, so a positive tock
            # that follows is counted from one scheduler tock too early: every doer the clause names satisfies the trigger and the whole
            # run is exactly what that rule predicts.
            hit = set(T.g04_break_reached(case, obs.d, None, any_tock0_parent=True))
            named = {k for k in why if k != "inversions"}
            if not named or not named <= hit:
                return None
            if DUE in T.c03_analyse(case, obs.d, nested_asap_rule="now")[0]:
                return None
            return "C03-K1"
        return "C03-K2"


CHECK = C03()
