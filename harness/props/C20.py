"""C20 — memos survive segmentation into grams and any delivery order (Memoer.rend, pick, _serviceOneReceived, fuse)."""
from .. import core, sx
from ..areas import memo as A
from ..extract import memo as xmemo

ALPH = ["a", "b", "z", " ", "é", "ß", "ж", "中", "𝄞", "\n", "0", "_", "-", "€", "\x00", "\x7f", "\x80", "ÿ", "\u2028", "\ufeff", "😀", "=", "\r"]


def _text(rng, n):
    """about n utf-8 bytes of mixed-width unicode"""
    out, k = [], 0
    while k < n:
        c = rng.choice(ALPH).encode()
        out.append(c)
        k += len(c)
    return b"".join(out)


def legal_min(code, curt):
    """smallest gram size for which both the zeroth and the later grams can carry at least one body byte, as the code sizes them:
    zeroth overhead scaled by 3/4 with Base2 headers, later overhead NOT scaled (pinned by the tree's own test)"""
    z = sum(A.RSIZES[code])
    n = sum(A.RSIZES[A.PAIR[code]])
    return max(3 * z // 4 if curt else z, n) + 1


def setter_min(code, curt):
    z = sum(A.RSIZES[code])
    return (3 * z // 4 if curt else z) + 1


def unpack(case):
    """(code0, curt0, size0, authic, ki, memos, sched, hist, txpath)"""
    c = tuple(case[1:])
    if len(c) < 8:
        c = c + ([],)
    if len(c) < 9:
        c = c + ("rend",)
    return c


def fold_cfg(cfg, pairs):
    """the oracle's own account of property assignments on a live Memoer: every accepted assignment clamps the stored size to the minimum
    of the code / encoding then in force; an assignment of a code that is not a zeroth code is refused and changes nothing"""
    code, curt, size = cfg
    for item in pairs:
        if item[0] == "keep":
            continue
        what, val = item
        if what == "code":
            if val not in A.ZCODES:
                continue
            code = val
        elif what == "curt":
            curt = bool(val)
        else:
            size = val
        size = max(size, setter_min(code, curt))
    return code, curt, size


def cfgs(case):
    """configuration in force when each memo is rent, and at the end; None when the constructor itself refuses the code"""
    code, curt, size, _a, _k, memos, _s, hist, _p = unpack(case)
    if code not in A.ZCODES:
        return None
    cfg = fold_cfg((code, curt, max(size, setter_min(code, curt))), hist)
    out = []
    for m in memos:
        cfg = fold_cfg(cfg, m[3] if len(m) > 3 else ())
        out.append(cfg)
    return out, cfg


def final_cfg(case):
    c = cfgs(case)
    return c[1] if c else None


def memo_vid(case, mi):
    """signer id a delivered memo must carry: the sender's vid when the memo was rent with a signed code"""
    ki = unpack(case)[4]
    return A.key(ki)["vid"].encode() if (ki is not None and cfgs(case)[0][mi][0] in A.SIGNED) else None


def burst(n, per=1, code="bAAA", curt=False, dup=False, ki=None):
    """n memos held / interleaved by the receiver at once.  per = 1: n one-gram memos arriving in ONE service pass; per = 3: n three-gram memos
    sent round robin (gram 0 of every memo, then gram 1 of every memo, …; with dup the first round is repeated in between), each round one pass"""
    zo, no = A.ref_overheads(code, False)
    zo = 3 * zo // 4 if curt else zo
    size = max(zo, no) + 2                       # 2 body bytes per later gram, a few more in the zeroth
    ln = 1 if per == 1 else (size - zo) + 2 * (per - 2) + 1
    memos = [(bytes([97 + (i + j) % 26 for j in range(ln)]), 5000 + i, 1 + i % 3) for i in range(n)]
    if per == 1:
        sched = [("all", [(i, 0) for i in range(n)])]
    else:
        rounds = [[(i, g) for i in range(n)] for g in range(per)]
        sched = [("all", rounds[0])] + ([("all", list(reversed(rounds[0])))] if dup else []) + [("all", r) for r in rounds[1:]]
    return ("e2e", code, curt, size, code in A.SIGNED, ki, memos, sched, [], "rend")


def nontext(b):
    try:
        bytes(b).decode()
        return False
    except UnicodeDecodeError:
        return True


def simulate(case, counts, f32, f33):
    """spec-level receiver: which (memo index, source) reach the inbox at each service call.
    f32: a signed non-zeroth gram is dropped unless the zeroth gram of its memo is held;  f33: a memo that completes again is delivered again.
    A receiver that requires signatures ignores the grams of memos rent with an unsigned code.  Closed: datagrams wait in the transport."""
    _c0, _u0, _s0, authic, ki, memos, sched, _h, _p = unpack(case)
    per = cfgs(case)[0]
    # which key signed each memo (the sender's keep when it was rent) and which key the receiver's keep holds now, per signer id
    base = {0: 0, 1: 1, 2: 2, 3: 3, A.ROTATED[0]: A.ROTATED[1]}
    sk_state, signer = dict(base), []
    for m in memos:
        for it in (m[3] if len(m) > 3 else ()):
            if it[0] == "keep":
                if it[2] is None:
                    sk_state.pop(it[1], None)
                else:
                    sk_state[it[1]] = it[2]
        signer.append(sk_state.get(ki) if ki is not None else None)
    rk = dict(base)
    held = {}
    first_src = {}
    done = set()
    queue, pend, out = [], [], []
    opened = True
    for op in A.norm_ops(sched):
        if isinstance(op, str):
            opened = (op == "reopen")
            continue
        if op[0] == "keep":
            if op[2] is None:
                rk.pop(op[1], None)
            else:
                rk[op[1]] = op[2]
            continue
        kind, b = op
        queue += [it for it in b if it[0] < len(memos) and counts[it[0]]]
        take = []
        if opened:
            take, queue = (queue[:1], queue[1:]) if kind == "once" else (queue, [])
        for item in take:
            mi, g = item[0], item[1] % counts[item[0]]
            signed = per[mi][0] in A.SIGNED
            if authic and not signed:
                continue
            if signed and ki is not None and ki % 2 == 1 and rk.get(ki) != signer[mi]:
                continue            # a transferable id is verified against the key the receiver holds NOW: signed with another key -> refused
            if not f33 and mi in done:
                continue
            h = held.setdefault(mi, set())
            if f32 and signed and g != 0 and 0 not in h:
                if not h:
                    del held[mi]
                continue
            if not h:
                first_src[mi] = item[2] if len(item) > 2 else memos[mi][2]     # the source of a memo is that of its first gram
            h.add(g)
        for mi in list(held):
            if len(held[mi]) == counts[mi]:
                if nontext(memos[mi][0]):
                    pass                    # complete but not text: dropped when fused, nothing is delivered for it — and nothing else in its place
                else:
                    pend.append((mi, first_src[mi]))
                done.add(mi)
                del held[mi]
        if kind == "once":
            dl, pend = pend[:1], pend[1:]
        elif kind == "rxg":
            dl = []
        else:
            dl, pend = pend, []
        out.append(dl)
    return out


class C20(core.Check):
    pid = "C20"
    pkg = "Memo"
    props_mod = "HioModel.Props.C20"
    design_ref = "DESIGN.md §5 C20, App. A.5, §7 F31 F32 F33"
    technique = ("Lean 4 theorems over a model of Memoer.rend / pick / _serviceOneReceived / fuse (header codec over regenerated size and code tables, "
                 "Base64 helpers re-proved in the package, signatures abstract) + differential end-to-end run: real rend -> scheduled delivery "
                 "(permutations, duplicates, interleavings, batches) -> real receive servicing, against the compiled model")
    quick_n = 500
    thorough_n = 6000
    level_text = ("Proved for ALL inputs (unbounded; 35 theorems). Configuration histories: setters_legal / size_setter_spec — after the constructor and ANY "
                  "sequence of .code/.curt/.size assignments the stored gram size is >= the minimum of the code and encoding then in force (every setter "
                  "re-clamps), so rend_fuse_after_history applies. Sender: rend_fuse (bodies concatenate to the memo in gram-number order, none empty, count "
                  "field = number of grams, each gram = header ++ body (++ signature)). Header codec, every code of the regenerated table, signed or not: "
                  "header_roundtrip_b64 (+4 corollaries; uses the Base64 integer round trip) and header_roundtrip_b2 (+2; Base2 headers: codeB2ToB64, "
                  "int.from_bytes, re-encoded mid/vid/signature). rend -> pick: grams_parse_b64, grams_parse_b2, grams_parse_b64_signed (every gram rend "
                  "produces is parsed back into its fields). Receiver over accepted grams, one memo among ARBITRARY other traffic: reassembly_one_batch, "
                  "delivered_content, never_incomplete, delivered_when_complete, keys_accumulate, exactly_once_history (one packaged statement over a whole "
                  "history of batches: nothing before the completing batch, the memo at it, nothing after), exactly_once_unless_replayed; both under the "
                  "guard of K3/F33 that no complete set arrives again (redelivered_on_full_replay = witness). COMPOSED end to end (real model functions "
                  "rend -> any delivery order with duplicates -> serviceAllRx on an empty receiver -> delivered = [(memo, source, vid)] iff every gram is "
                  "in the sequence, else []): end_to_end_unsigned_b64, end_to_end_unsigned_b2, end_to_end_signed_b64 (guard K2/F32: zeroth gram first; "
                  "hypothesis: what sign returns has the table's size and verifies), over end_to_end_generic / _zeroth_first / end_to_end_of_picks. "
                  "end_to_end_signed_b2 (+ grams_parse_b2_signed, with encode(decode t) = t). SEVERAL memos interleaved: end_to_end_interleaved (any family "
                  "with pairwise different ids shuffled together with duplicates: a record is delivered iff it is a family memo all of whose grams arrived, "
                  "each independently, none twice) and end_to_end_two_memos_b64 (two rend outputs). Still correspondence only: interleaving of SIGNED "
                  "rendered memos in the composed statement. Known findings K1, K2 (F32), K3 (F33) reproduced and matched narrowly.")
    level_note = ("Trusted: Lean kernel + propext/Classical.choice/Quot.sound; translator harness/extract/memo.py; the sampled end-to-end correspondence "
                  "(real rend with real pysodium -> scheduled delivery -> real serviceAllRx vs the compiled model); the four receive dicts modelled as one "
                  "list of entries (their key sets coincide from the empty state); CPython utf-8 and float ceil as stated in assumptions. "
                  "Pre-finding F31 reproduced and repaired for the count formula (fix/memo eb96733); its small-size half is K1 (pinned by the tree's test).")
    rule = ("signed multi-memo cases with a transferable id often ROTATE its key on both ends between memos (later memos signed with the new key, "
            "replays with the retired one); transmit side by rend, or memoit + serviceTxMemos / serviceTxMemosOnce; sender re-configured between memos in a quarter of the multi-memo "
            "cases; receive side by serviceAllRx / service() / serviceAllRxOnce / serviceReceives+serviceRxGrams with close / reopen in between; rarely the empty memo or a "
            "signer without a key. cases: half of them reach their configuration by a HISTORY of property assignments on a live Memoer (constructor with other values, then "
            ".size/.code/.curt in any order, repeated, rarely a refused code) before rend; zeroth code in {plain, auth, sure, sure+auth} x {Base64, Base2 headers}; gram size from the setter minimum up (mostly minimum+0..40 so "
            "that memos need 2..40 grams, sometimes 1200/65535); 1..4 memos of 1..2048 utf-8 bytes of mixed-width unicode, distinct mids, own sources; "
            "schedule = all grams permuted (in order / reversed / shuffled / zeroth-first shuffled / interleaved), with duplicates inserted, sometimes a "
            "gram withheld, cut into 1..5 service batches (or one batch per gram), sometimes a full replay after completion. "
            "non-trivial = at least one memo has >= 2 grams and the schedule is not the plain send order; distinct by request line")
    trusted_base = ["translator harness/extract/memo.py (Sizes, codexes, Pairs, Max* constants, Base64 tables)",
                    "correspondence harness/props/C20.py: compiled model vs real Memoer.rend + echo transport + serviceAllRx (real pysodium signatures)",
                    "Memoer.sign / Memoer.verify enter the model as tables recorded from (sign) / independently recomputed for (verify) the real run"]
    assumptions = ["sign/verify: verify(vid, sign(vid, m), m) succeeds (hypothesis of the signed theorems, exercised with real pysodium)",
                   "math.ceil of the float quotient equals the integer ceiling (exact below 2^53; memos are <= 4 GiB)",
                   "str.encode / bytes.decode are inverse on valid UTF-8"]

    def __init__(self):
        self._tab = {}

    def extract(self):
        return xmemo.extract()

    # ---- cases: ("e2e", code, curt, size, authic, ki, memos[(text, midseed, src)], sched[[ (mi, gi) ]])
    def corpus(self):
        one = [("é".encode() * 3, 1, 1)]
        two = [(b"hello there world", 1, 1), ("ünïcödé memo text".encode(), 2, 2)]
        return [
            ("e2e", "bAAA", False, 38, False, None, two, [[(0, 0), (0, 1), (0, 2), (1, 0), (1, 1), (1, 2), (1, 3)]]),
            ("e2e", "bAAA", True, 38, False, None, [(b"abc", 1, 1)], [[(0, 0)]]),                       # F31: count field was 0 -> '' delivered
            ("e2e", "bAAA", True, 38, False, None, [(b"a", 1, 1)], [[(0, 0)]]),                         # F31: OverflowError
            ("e2e", "bAAA", True, 33, False, None, [(b"12345678", 1, 1), (b"123456789", 2, 1)], [[(0, 0), (1, 0), (1, 1)]]),
            ("e2e", "bAAE", True, 32, False, None, [(b"12345678", 1, 1)], [[(0, 0)]]),                  # nbz = 0, fits the zeroth gram
            ("e2e", "bAAE", True, 32, False, None, [(b"123456789", 1, 1)], [[(0, 0)]]),                 # K1: ZeroDivisionError
            ("e2e", "bAAA", True, 25, False, None, [(b"1", 1, 1)], [[(0, 0)]]),                         # K1: every memo refused
            ("e2e", "bAAC", False, 170, True, 0, [(b"x" * 30, 1, 1)], [[(0, 1), (0, 0)]]),              # K2 (F32): signed, reversed
            ("e2e", "bAAC", False, 170, True, 0, [(b"x" * 30, 1, 1)], [[(0, 1), (0, 0), (0, 1)]]),      # a later duplicate rescues it
            ("e2e", "bAAG", True, 140, True, 1, [(b"x" * 60, 1, 1)], [[(0, 0), (0, 2), (0, 1), (0, 3)]]),
            ("e2e", "bAAA", False, 38, False, None, two[:1], [[(0, 0), (0, 1), (0, 2)], [(0, 0), (0, 1), (0, 2)]]),   # K3 (F33): full replay
            ("e2e", "bAAA", False, 38, False, None, two[:1], [[(0, 0), (0, 1), (0, 2), (0, 0), (0, 1), (0, 2)]]),     # replay inside one batch: once
            ("e2e", "bAAA", False, 38, False, None, two[:1], [[(0, 0)], [(0, 1)], [(0, 2)], [(0, 1)], [(0, 0)]]),     # stale partial after completion
            ("e2e", "bAAA", False, 38, False, None, two, [[(0, 2), (1, 3)], [(1, 0), (0, 0)], [(1, 2), (0, 1), (1, 1)]]),
            ("e2e", "bAAA", False, 38, False, None, two, [[(0, 0), (0, 1), (1, 0), (1, 1), (1, 2), (1, 3)]]),         # memo 0 misses gram 2
            ("e2e", "bAAE", False, 33, False, None, one, [[(0, 5), (0, 4), (0, 3), (0, 2), (0, 1), (0, 0)]]),
            ("e2e", "bAAA", False, 38, False, None, two[:1], [[(0, 1), (0, 0, 5), (0, 1, 6), (0, 2, 4)]]),          # the source is that of the first gram
            # a complete memo that is NOT text fuses right after a good one in the same pass: it is dropped, the good one delivered once under its own source
            ("e2e", "bAAA", False, 38, False, None, [(b"good memo text", 1, 1), (b"bad \xff\xfe bytes!", 2, 2)], [("all", [(0, 0), (1, 0), (0, 1), (0, 2), (1, 1), (1, 2), (1, 3)])], [], "rend"),
            ("e2e", "bAAC", True, 140, True, 0, [(b"good", 1, 1), (b"\xc3(", 2, 3), (b"later good", 3, 2)], [("all", [(0, 0), (1, 0)]), ("once", [(2, 0)]), ("all", [])], [], "all"),
            # configuration histories (seeded change C20-m3): size chosen first, then the code / encoding switched; the setter must re-clamp
            ("e2e", "bAAA", False, 150, True, 0, [(b"m" * 190, 1, 1)], [[(0, 0), (0, 1), (0, 2), (0, 3), (0, 4), (0, 5), (0, 6), (0, 7)]], [("code", "bAAC")]),
            ("e2e", "bAAC", True, 140, True, 0, [(b"m" * 190, 1, 1)], [[(0, 0), (0, 3), (0, 2), (0, 1), (0, 4), (0, 5), (0, 6), (0, 7)]], [("curt", False)]),
            ("e2e", "bAAE", True, 30, False, 1, [(b"m" * 50, 1, 1)], [[(0, 0), (0, 1), (0, 2)]], [("size", 130), ("size", 130), ("code", "bAAG"), ("curt", False), ("curt", False)]),
            ("e2e", "bAAA", False, 50, False, None, [(b"m", 1, 1)], [[(0, 0)]], [("code", "bAAB")]),                  # refused: not a zeroth code
            ("e2e", "bAAG", False, 400, False, 2, [(b"m" * 300, 1, 1)], [[(0, 1), (0, 0)]], [("code", "bAAE"), ("size", 40), ("curt", True), ("size", 60)]),
            # key ROTATION between memos (seeded change C20-r3m2): memo 0 signed under key 1 delivered, both keeps rotate vid 1 to key 6, memo 1 signed
            # under key 6 must be delivered once with the same signer id; a replay of memo 0 (retired key) is refused
            ("e2e", "bAAC", False, 200, True, 1, [(b"first " * 20, 1, 1), (b"second " * 20, 2, 1, [("keep", 1, 6)])],
             [("all", [(0, 0), (0, 0), (0, 1), (0, 2), (0, 3)]), ("keep", 1, 6), ("all", [(1, 0), (1, 1), (1, 1), (1, 2), (1, 3), (1, 4)]), ("all", [(0, 0), (0, 1), (0, 2), (0, 3)])], [], "rend"),
            ("e2e", "bAAG", True, 150, True, 3, [(b"first " * 20, 1, 1), (b"second " * 20, 2, 1, [("keep", 3, 2)])],
             [("once", [(0, 0)]), ("all", [(0, 1), (0, 2), (0, 3), (0, 4), (0, 5)]), ("keep", 3, 2), ("all", [(1, 0), (1, 2), (1, 1), (1, 3), (1, 4), (1, 5), (1, 6)])], [], "rend"),
        ]

    def exhaustive(self, tier):
        # how many memos the receiver holds / interleaves at once: N around powers of two
        big = []
        for k in range(6, 11 if tier != "thorough" else 14):
            for n in (2 ** k - 1, 2 ** k, 2 ** k + 1):
                if tier == "thorough" or n in (2 ** k + 1, 64):
                    big.append(burst(n, 1, code=("bAAA", "bAAE")[k % 2], curt=bool(k % 2)))
                if k <= (8 if tier != "thorough" else 11) and (tier == "thorough" or n == 2 ** k + 1):
                    big.append(burst(n, 3, dup=bool(k % 2)))
        big.append(burst(70, 3, dup=True))
        big.append(burst(70, 1, code="bAAC", ki=0))
        big.append(burst(65, 3, code="bAAG", curt=True, ki=2, dup=True))
        if tier != "thorough":
            return big, ("N memos pending at once (one-gram bursts in one pass N = 2**k+1, k = 6..10; three-gram round-robin interleavings N = 2**k+1, "
                         "k = 6..8, and 70 with duplicates; signed 65 / 70)")
        import itertools
        cs = big
        memo = [(b"abcdefghij", 1, 1)]
        for code, curt, size in (("bAAA", False, 36), ("bAAE", True, 36)):
            # 3 grams (b64: 4+4+2 ; b2: 12 | would be 1) -> pick sizes so that there are exactly 3 grams
            for perm in itertools.permutations(range(3)):
                for dup in range(4):
                    seq = list(perm) + ([perm[dup]] if dup < 3 else [])
                    for cut in range(len(seq) + 1):
                        cs.append(("e2e", code, curt, size, False, None, memo, [[(0, g) for g in seq[:cut]], [(0, g) for g in seq[cut:]]]))
        return cs, ("N memos pending at once (one-gram bursts N = 2**k-1, 2**k, 2**k+1, k = 6..13; three-gram round robin k = 6..11); "
                    "one 10-byte memo in 3 grams (plain b64, sure b2): all 6 delivery orders x one optional duplicate x every 2-batch cut")

    def generate(self, rng, n, tier):
        for _ in range(n):
            code = rng.choice(A.ZCODES)
            curt = rng.random() < 0.5
            signed = code in A.SIGNED
            lo = setter_min(code, curt)
            k = rng.random()
            if k < 0.08:
                size = rng.choice([0, 1, lo - 1, lo])                      # below / at the setter minimum
            elif k < 0.2 and curt and not signed:
                size = rng.randrange(lo, legal_min(code, curt) + 2)       # the zone where the later body size is <= 0 (K1)
            elif k < 0.85:
                size = legal_min(code, curt) + rng.choice([0, 0, 1, 2, 3, 5, 8, 13, 21, 40])
            else:
                size = rng.choice([600, 1200, 65534, 65535, 65536, 70000])    # around MaxGramSize (the setter does not refuse larger values)
            authic = signed and rng.random() < 0.7
            ki = rng.randrange(0, 4) if signed else (None if rng.random() < 0.8 else rng.randrange(0, 4))
            if signed and rng.random() < 0.04:
                ki = rng.choice([None, 4, 5])          # no key to sign with: rend must refuse (MemoerError), nothing is sent
            # configuration history: (code, curt, size) above is the TARGET; half of the cases reach it by property assignments on a live
            # Memoer, in any order (size first, then code / curt is the order in which only the re-clamp of those setters protects rend)
            hist, c0 = [], (code, curt, size)
            if rng.random() < 0.5:
                c0 = (rng.choice(A.ZCODES), rng.random() < 0.5, rng.choice([0, 33, 100, 124, 140, 150, 165, 200, size]))
                for _ in range(rng.choice([0, 0, 1, 2])):
                    w = rng.choice(["code", "curt", "size"])
                    hist.append((w, rng.choice(A.ZCODES) if w == "code" else (rng.random() < 0.5 if w == "curt" else rng.choice([0, 60, 130, 150, 170, size]))))
                tail = [("size", size), ("code", code), ("curt", curt)]
                rng.shuffle(tail)
                if rng.random() < 0.3:
                    tail.append((tail[0][0], tail[0][1]))          # assigned again, unchanged
                hist += tail
                if rng.random() < 0.03:
                    hist.insert(rng.randrange(len(hist) + 1), ("code", rng.choice(["bAAB", "bAAD", "bAAI", "zzzz"])))   # refused
            zo, no = A.ref_overheads(code, False)
            fc = final_cfg(("e2e",) + c0 + (authic, ki, [], [], hist))
            esz = fc[2] if fc else max(size, lo)
            zbz = esz - (3 * zo // 4 if curt else zo)
            nbz = esz - no
            memos = []
            nm = rng.choice([1, 1, 2, 2, 3, 4])
            for j in range(nm):
                m = rng.random()
                if m < 0.02:
                    ln = 0                                                                                       # the empty memo: no grams, nothing delivered
                elif m < 0.25:
                    k_ = rng.choice([1, 2, 3, 7])
                    ln = rng.choice([1, 2, zbz - 1, zbz, zbz + 1, max(1, zbz - nbz), max(1, zbz - nbz + 1),          # boundaries of the count formula
                                     zbz + k_ * max(nbz, 1) - 1, zbz + k_ * max(nbz, 1), zbz + k_ * max(nbz, 1) + 1])  # exact multiples of the later body size
                elif m < 0.85:
                    ln = rng.randrange(1, max(2, min(2048, zbz + max(nbz, 1) * rng.choice([1, 2, 3, 6, 12, 30]))))
                else:
                    ln = rng.randrange(1, 2049)
                if size < 100 and nbz >= 1 and (ln - zbz) // max(nbz, 1) > 60:
                    ln = zbz + nbz * rng.randrange(1, 40)
                ln = min(ln, 2048)
                tx_ = _text(rng, max(1, ln)) if ln else b""
                if tx_ and rng.random() < 0.1:       # a payload that is not text (a sender that bypasses str)
                    k_ = rng.randrange(len(tx_) + 1)
                    tx_ = tx_[:k_] + rng.choice([b"\xff", b"\xc3(", b"\xed\xa0\x80", b"\x80"]) + tx_[k_:]
                memos.append((tx_, rng.randrange(1, 10 ** 6), rng.randrange(1, 4)))
            # distinct mids
            seeds = set()
            memos = [(t, ms if ms not in seeds and not seeds.add(ms) else ms + 10 ** 6 + j, s) for j, (t, ms, s) in enumerate(memos)]
            # the sender is re-configured BETWEEN memos (a live peer switched to another code / encoding / size): the receiver takes both kinds
            if nm > 1 and rng.random() < 0.25:
                j = rng.randrange(1, nm)
                sets = [(w, rng.choice(A.ZCODES if ki is not None and ki < 4 else ["bAAA", "bAAE"]) if w == "code" else (rng.random() < 0.5 if w == "curt" else
                         rng.choice([0, 40, 130, 170, size]))) for w in rng.sample(["code", "curt", "size"], rng.randrange(1, 4))]
                memos[j] = memos[j] + (sets,)
            cc = cfgs(("e2e",) + c0 + (authic, ki, memos, [], hist))
            counts = []
            for (t, *_r), (c_, u_, z_) in zip(memos, cc[0] if cc else [(code, curt, esz)] * nm):
                zo_, no_ = A.ref_overheads(c_, False)
                zb_, nb_ = z_ - (3 * zo_ // 4 if u_ else zo_), z_ - no_
                cnt_ = max(1, A.ref_count(len(t), zb_, nb_)) if nb_ >= 1 else 1
                if cnt_ > 60:       # the history left a small gram size: keep the case a reasonable size
                    jx = len(counts)
                    t2 = bytes(t)[:zb_ + 59 * nb_].decode("utf-8", "ignore").encode() or b"a"
                    memos[jx] = (t2,) + tuple(memos[jx][1:])
                    cnt_ = max(1, A.ref_count(len(t2), zb_, nb_))
                counts.append(cnt_)
            signed = any(c_[0] in A.SIGNED for c_ in cc[0]) if cc else signed
            per = []
            for mi, c in enumerate(counts):
                idx = list(range(c))
                o = rng.random()
                if o < 0.2:
                    pass
                elif o < 0.35:
                    idx.reverse()
                elif o < 0.6 or not signed:
                    rng.shuffle(idx)
                else:       # zeroth first, the rest shuffled (what a signed memo tolerates)
                    rest = idx[1:]
                    rng.shuffle(rest)
                    idx = idx[:1] + rest
                if c > 1 and rng.random() < 0.2:
                    idx.remove(rng.randrange(c))                           # withhold one gram
                per.append([(mi, g) for g in idx])
                for _ in range(rng.choice([0, 0, 1, 2, 5])):                     # duplicates, sometimes relayed from another source
                    d = (mi, rng.randrange(c)) if rng.random() < 0.7 else (mi, rng.randrange(c), rng.randrange(4, 7))
                    per[-1].insert(rng.randrange(len(per[-1]) + 1), d)
            seq = []
            if rng.random() < 0.5:      # interleave
                while any(per):
                    p = rng.choice([x for x in per if x])
                    seq.append(p.pop(0))
            else:
                for p in per:
                    seq += p
            if rng.random() < 0.15:     # full or partial replay afterwards
                mi = rng.randrange(nm)
                seq += [(mi, g) for g in range(counts[mi])][:rng.choice([counts[mi], counts[mi], max(1, counts[mi] - 1)])]
            if rng.random() < 0.2:
                sched = [[x] for x in seq]
            else:
                nb = rng.choice([1, 1, 2, 3, 5])
                cuts = sorted(rng.randrange(0, len(seq) + 1) for _ in range(nb - 1))
                sched, prev = [], 0
                for c in cuts + [len(seq)]:
                    sched.append(seq[prev:c])
                    prev = c
            # entry points and life cycle on the receive side, and the way in on the transmit side
            style = rng.random()
            ops = []
            for b in sched:
                if style < 0.15:
                    ops += [("once", [x]) for x in b] or [("once", [])]
                else:
                    ops.append((rng.choice(["all", "all", "all", "svc", "once", "rxg"]), b))
                if rng.random() < 0.08:
                    ops += ["close", (rng.choice(["all", "once"]), [rng.choice(seq)] if seq and rng.random() < 0.6 else []), "reopen"]
            if style < 0.3 or any(not isinstance(o, str) and o[0] in ("once", "rxg") for o in ops):
                ops += [("once", [])] * rng.randrange(1, 4) + [("all", [])]
            # key ROTATION between memos: a transferable ('D') signer id whose key is replaced on both ends after the receiver has verified grams
            # under the old one; later memos are signed with the new key, replays of earlier memos carry the retired one
            if cc and nm > 1 and ki in (1, 3) and all(c_[0] in A.SIGNED for c_ in cc[0]) and rng.random() < 0.6:
                j = rng.randrange(1, nm)
                newk = rng.choice([6, 2, 4])
                memos[j] = tuple(memos[j][:3]) + (list(memos[j][3] if len(memos[j]) > 3 else []) + [("keep", ki, newk)],)
                svc = [o for o in ops if not isinstance(o, str)]
                early = [(o[0], [x for x in o[1] if x[0] < j]) for o in svc]
                late = [(o[0], [x for x in o[1] if x[0] >= j or rng.random() < 0.3]) for o in svc]
                ops = early + [("keep", ki, newk)] + late + [("once", []), ("all", [])]
            yield ("e2e",) + c0 + (authic, ki, memos, ops, hist, rng.choice(["rend", "rend", "all", "once"]))

    # ---- running
    def _run(self, case):
        k = repr(case)
        if k not in self._tab:
            if len(self._tab) > 5000:
                self._tab.clear()
            self._tab[k] = A.run_e2e(*case[1:])
        return self._tab[k]

    def run_impl(self, case):
        return self._run(case)[0]

    def request(self, case):
        code, curt, size, authic, ki, memos, sched, hist, _txpath = unpack(case)
        _obs, stab, vtab, _esz = self._run(case)
        enc = lambda pairs: tuple((it[0], it[1].encode() if it[0] == "code" else (bool(it[1]) if it[0] == "curt" else it[1])) for it in pairs if it[0] != "keep")
        ops = tuple(op if isinstance(op, str) else (
            ("keep", A.key(op[1])["vid"].encode(), A.key(op[2])["qvk"].encode() if op[2] is not None else None) if op[0] == "keep" else
            (op[0] if op[0] in ("once", "rxg") else "all", tuple(tuple(x) for x in op[1]))) for op in A.norm_ops(sched))
        return ("e2e", ("code", code.encode()), ("curt", bool(curt)), ("size", size),
                ("hist",) + tuple((w, v.encode() if w == "code" else (bool(v) if w == "curt" else v)) for w, v in hist), ("authic", bool(authic)),
                ("vid", A.key(ki)["vid"].encode() if ki is not None else None), ("stab",) + tuple(stab)) + tuple(vtab) + (
                ("memos",) + tuple((bytes(m[0]), A.mid_of(m[1]).encode(), m[2]) + ((enc(m[3]),) if len(m) > 3 else ()) for m in memos),
                ("sched",) + ops)

    # ---- the property
    def _counts(self, obs):
        return [len(r) - 1 if r[0] == "grams" else 0 for r in obs[1][1:]]

    def oracle(self, case, obs):
        try:
            return self._oracle(case, obs)
        except Exception as ex:       # an observation this predicate cannot account for is a violation, never a crash
            return ["observation-not-accountable:" + type(ex).__name__]

    def _oracle(self, case, obs):
        _c0, _u0, _s0, authic, ki, memos, sched, hist, _p = unpack(case)
        bad = []
        cc = cfgs(case)
        if obs[0][0] == "cfg-raise":
            return [] if cc is None and obs[0][1] == "MemoerError" else ["configuration-refused:" + obs[0][1]]
        if cc is None:
            return ["illegal-code-accepted"]
        per, (code, curt, esz) = cc
        if tuple(obs[0][1:]) != (code.encode(), curt, esz):
            bad.append("gram-size-not-clamped-to-code-and-encoding")
        nokey = ki is not None and ki >= 4      # the sender's own keep holds keys 0..3 (and the rotated identifier): it cannot sign for this id
        for mi, (m, r) in enumerate(zip(memos, obs[1][1:])):
            signed = per[mi][0] in A.SIGNED
            if r[0] == "raise":
                if not (signed and (ki is None or (nokey and len(m[0]))) and r[1] == "MemoerError"):
                    bad.append("rend-refused-legal-memo:" + r[1])
            elif len(m[0]) == 0:
                if len(r) != 1:
                    bad.append("grams-for-an-empty-memo")
            elif signed and (ki is None or nokey):
                bad.append("signed-grams-without-a-key")
            elif len(r) == 1:
                bad.append("no-grams-for-nonempty-memo")
            elif any(len(g) > per[mi][2] for g in r[1:]):
                bad.append("gram-larger-than-gram-size")
        if bad:
            return bad
        counts = self._counts(obs)
        want = simulate(case, counts, False, False)
        rx = obs[2][1:]
        extra_tags = [o[0] for o in rx if isinstance(o[0], str) and o[0] != "escape"]
        if extra_tags:
            return sorted(set(extra_tags))
        for o in rx:
            if o[0] == "escape":
                return ["receive-servicing-raised:" + o[1]]
        if len(rx) != len(want):
            return ["observation-shape"]
        sent = {(bytes(m[0]), memo_vid(case, mi)) for mi, m in enumerate(memos)}
        for w, o in zip(want, rx):
            got = list(o[0][1:])
            exp = [(bytes(memos[mi][0]), src, memo_vid(case, mi)) for mi, src in w]
            for g in got:
                if (g[0], g[2]) not in sent:
                    bad.append("delivered-something-never-sent")
            if sorted(got, key=repr) != sorted(exp, key=repr) and \
                    sorted(((g[0], g[2]) for g in got), key=repr) == sorted(((e[0], e[2]) for e in exp), key=repr):
                bad.append("memo-delivered-with-wrong-source")
            elif sorted(got, key=repr) != sorted(exp, key=repr):
                missing = [e for e in exp if e not in got]
                extra = list(got)
                for e in exp:
                    if e in extra:
                        extra.remove(e)
                if missing:
                    bad.append("complete-memo-not-delivered")
                if extra:
                    bad.append("memo-delivered-incomplete-or-again")
        return sorted(set(bad))

    def known(self, case, obs, clauses):
        try:
            return self._known(case, obs, clauses)
        except Exception:
            return None

    def _known(self, case, obs, clauses):
        _c0, _u0, _s0, authic, ki, memos, sched, hist, _p = unpack(case)
        cc = cfgs(case)
        if cc is None or obs[0][0] != "cfg" or any(c.startswith(("gram-size-not", "configuration", "illegal", "observation")) for c in clauses):
            return None
        per = cc[0]
        rends = obs[1][1:]
        if any(c.startswith("rend-refused") for c in clauses):
            # K1: Base2 headers, unsigned code, gram size below the (unscaled) later-gram overhead + 1 — for every memo that was refused
            ok = True
            for mi, r in enumerate(rends):
                if r[0] == "raise" and not (per[mi][0] in A.SIGNED and (ki is None or ki >= 4)):
                    code, curt, size = per[mi]
                    if not (curt and code not in A.SIGNED and size < legal_min(code, curt) and r[1] in ("MemoerError", "ZeroDivisionError")):
                        ok = False
            return "C20-K1" if ok else None
        if any(c.startswith(("receive-servicing-raised", "delivered-something", "no-grams", "gram-larger", "grams-for", "signed-grams", "neighbour",
                             "unreadable")) for c in clauses):
            return None
        counts = self._counts(obs)
        got = []
        for o in obs[2][1:]:
            got.append(sorted(repr(x) for x in o[0][1:]))

        def rep(sim):
            return [sorted(repr((bytes(memos[mi][0]), src, memo_vid(case, mi))) for mi, src in w) for w in sim]
        ideal = rep(simulate(case, counts, False, False))
        s33 = rep(simulate(case, counts, False, True))
        s32 = rep(simulate(case, counts, True, True))
        if got == s33 and s33 != ideal:
            return "C20-K3"
        if any(c[0] in A.SIGNED for c in per) and got == s32 and s32 != s33:
            return "C20-K2"
        return None

    def nontrivial(self, case, obs):
        try:
            if obs[0][0] != "cfg":
                return False
            counts = self._counts(obs)
            flat = [tuple(x) for op in A.norm_ops(unpack(case)[6]) if not isinstance(op, str) and op[0] != "keep" for x in op[1]]
            plain = [(mi, g) for mi, c in enumerate(counts) for g in range(c)]
            return any(c >= 2 for c in counts) and flat != plain
        except Exception:
            return True

    def features(self, case, obs):
        try:
            return self._features(case, obs)
        except Exception as ex:
            return ["features-failed:" + type(ex).__name__]

    def _features(self, case, obs):
        _c0, _u0, _s0, authic, ki, memos, sched, hist, txpath = unpack(case)
        if obs[0][0] != "cfg":
            return ["cfg-raise:" + obs[0][1]]
        code, curt = obs[0][1].decode(), obs[0][2]
        counts = self._counts(obs)
        ops = A.norm_ops(sched)
        svc = [op for op in ops if not isinstance(op, str) and op[0] != "keep"]
        if len(svc) != len([o for o in ops if not isinstance(o, str)]):
            f0 = ["key-rotated-between-memos"]
        else:
            f0 = []
        f = f0 + ["setters=" + str(min(len(hist), 4)), "txpath:" + txpath] + (["reclamped-by-code-or-curt"] if hist and hist[-1][0] != "size" and obs[0][3] > max(
            [_s0] + [v for w, v in hist if w == "size"]) else []) + [code, "b2" if curt else "b64", "authic" if authic else "open", f"memos={len(memos)}", f"calls~{min(len(svc), 6)}"]
        f += sorted({"entry:" + op[0] for op in svc}) + (["close/reopen"] if any(isinstance(op, str) for op in ops) else [])
        if any(len(m) > 3 and m[3] for m in memos):
            f.append("reconfigured-between-memos")
        if any(len(m[0]) == 0 for m in memos):
            f.append("empty-memo")
        f.append("grams/memo~" + str(min(max(counts + [0]), 40) // 5 * 5))
        f.append("memo-bytes~" + str(min(max(len(m[0]) for m in memos), 2048) // 256 * 256))
        flat = [tuple(x) for op in svc for x in op[1]]
        f.append("dups" if len(flat) != len(set((x[0], x[1] % counts[x[0]]) for x in flat if x[0] < len(counts) and counts[x[0]])) else "no-dups")
        if any(len(x) > 2 for x in flat):
            f.append("foreign-source-duplicate")
        if any(r[0] == "raise" for r in obs[1][1:]):
            f += ["rend-raise:" + r[1] for r in obs[1][1:] if r[0] == "raise"]
        nd = sum(len(o[0]) - 1 for o in obs[2][1:] if not isinstance(o[0], str))
        f.append(f"delivered={min(nd, 4)}")
        return f

    def shrink(self, case):
        code, curt, size, authic, ki, memos, sched, hist, txpath = unpack(case)
        ops = A.norm_ops(sched)
        mk = lambda ms, sc, h=hist, tp=txpath: ("e2e", code, curt, size, authic, ki, ms, sc, h, tp)
        for i in range(len(ops)):
            if len(ops) > 1:
                yield mk(memos, ops[:i] + ops[i + 1:])
            if not isinstance(ops[i], str) and ops[i][0] != "keep":
                for j in range(len(ops[i][1])):
                    yield mk(memos, ops[:i] + [(ops[i][0], ops[i][1][:j] + ops[i][1][j + 1:])] + ops[i + 1:])
                if ops[i][0] != "all":
                    yield mk(memos, ops[:i] + [("all", ops[i][1])] + ops[i + 1:])
        for i in range(len(memos)):
            if len(memos) > 1:
                ms = memos[:i] + memos[i + 1:]
                sc = [op if isinstance(op, str) or op[0] == "keep" else (op[0], [(x[0] - (x[0] > i),) + tuple(x[1:]) for x in op[1] if x[0] != i]) for op in ops]
                yield mk(ms, sc)
            if len(memos[i]) > 3 and memos[i][3]:
                yield mk(memos[:i] + [tuple(memos[i][:3])] + memos[i + 1:], ops)
            t = memos[i][0]
            if len(t) > 1:
                for cut in (len(t) // 2, len(t) - 1):
                    t2 = bytes(t)[:cut].decode("utf-8", "ignore").encode()
                    if t2:
                        yield mk(memos[:i] + [(t2,) + tuple(memos[i][1:])] + memos[i + 1:], ops)
        for i in range(len(hist)):
            yield mk(memos, ops, hist[:i] + hist[i + 1:])
        if txpath != "rend":
            yield mk(memos, ops, hist, "rend")

    def mutate(self, rng, case):
        out = list(self.shrink(case))
        code, curt, size, authic, ki, memos, sched, hist, txpath = unpack(case)
        out.append(("e2e", code, not curt, size, authic, ki, memos, sched, hist, txpath))
        for d in (-1, 1, 8):
            out.append(("e2e", code, curt, max(0, size + d), authic, ki, memos, sched, hist, txpath))
        if ki is not None:
            out.append(("e2e", "bAAA", curt, size, authic, ki, memos, sched, [("size", size), ("code", code)] + list(hist), txpath))
        return out


CHECK = C20()
