"""C19 — client requests are sent one at a time and answered in FIFO order; redirects (hio.core.http.clienting.Client)."""
from urllib.parse import parse_qsl, quote, quote_plus, unquote_to_bytes

from .. import core, sx
from ..areas import httpflow as hf
from ..extract import httpflow as xhf

REDIRECTS = (300, 301, 302, 303, 307)
PORTS = [8101, 8102, 8103]
UNKNOWN_PORT = 8109


def _loc(l):
    return None if l is None else (bool(l[0]), l[1], l[2])


def _tp(target):
    """(path, [(name, value)]) of a request target / Location target given as bytes"""
    t = target.decode("latin-1")
    path, _, q = t.partition("?")
    return unquote_to_bytes(path.encode("latin-1")), [(k.encode("utf-8"), v.encode("utf-8")) for k, v in parse_qsl(q, keep_blank_values=True)]


def _qa(r):
    return list(r[3]) if len(r) > 3 and r[3] is not None else []


def _second(case):
    return list(case[4]) if len(case) > 4 else []


def effective19(case, ents):
    """all requests of the case as they are really queued: a second-run request without path= / qargs= takes what the requester holds
    when it is queued, i.e. the request fields of the last entry of the first run"""
    reqs = [(r[0], r[1], r[2], _qa(r)) for r in case[1]]
    n = len(reqs)
    for r in _second(case):
        path, qa = r[1], (r[3] if len(r) > 3 else [])
        if n and len(ents) >= n:
            last = ents[n - 1]
            path = path or last[5]
            qa = list(last[7]) if qa is None else qa
        reqs.append((r[0], path, r[2], list(qa or [])))
    return reqs


class C19(core.Check):
    pid = "C19"
    pkg = "HttpFlow"
    props_mod = "HioModel.Props.C19"
    design_ref = "DESIGN.md §5 C19, §7 F30 F51 (F25/F48/F49 for awareness)"
    technique = ("Lean 4 invariants over a cycle-level model of Client (requests, waited, latest, responses, redirects) against a scripted world of servers, "
                 "quantified over every arrival schedule; differential run of the compiled model against the real Client driven through scripted tcp.Client / "
                 "tcp.ClientTls subclasses (delays, split delivery, chunked / until-close / truncated framing, closing servers, redirect chains across servers); "
                 "independent oracle over the servers' own wire log")
    level_text = ("Proved for every request queue, every world of scripted servers and every arrival schedule, any number of service cycles (unbounded; one invariant "
                  "proved by induction over cycles): one_in_flight (the servers never hold more than one unanswered request: ghost peak <= 1, inflight is 1 exactly while the "
                  "client waits for a response it can still get), fifo (answered ++ in-process ++ still-queued is exactly 0..n-1; the k-th response entry originates from the "
                  "k-th queued request — own reply key or the key carried by the first hop of its history), entry_carries_request (an entry with key k holds exactly the k-th "
                  "request; a history's first hop was drawn by the k-th request's path), one_entry_each_partial (a run that ended idle has exactly one entry per request), "
                  "redirect_history_attached (history = only redirect responses consumed for that request, in order; a non-error entry is never itself a redirect), "
                  "https_to_http_refused / https_client_only_tls (once on https the client stays on https and every later request goes over TLS), "
                  "redirect_hop_is_location (a followed redirect puts at most ONE request on the wire: target exactly the Location's path and query arguments — none of the redirected request's own — to the Location's port and scheme, same method, no body), "
                  "bodiless_response_completes (a response to HEAD or with status 1xx/204/304 is complete at the blank line whatever Content-Length it carries: entry with empty body, queue moves on), "
                  "refused_redirect_is_reported (a redirect from https to http puts nothing on the wire and yields exactly one errored entry whose history ends with that "
                  "redirect — behaviour of the tree after the F49 repair; refusal_witness shows it happens and the queue moves on).  one_entry_each is _partial: a response cut short after some body bytes never completes "
                  "(truncated_response_sticks, recorded as C19-K1) ; chunked_bodiless_completes and redirected_head_completes pin the two defects found and repaired on the way (3095720, 041b28b).  closed_connection_yields_error_entries pins the repaired F51 behaviour. "
                  "The model is tied to clienting.py by a seeded differential run (entries, wire log, waited, queue length); the redirect status set is re-extracted by probing.")
    level_note = ("Trusted: Lean kernel + propext/Classical.choice/Quot.sound; message-level abstraction of the byte stream (response parsing is C13/C17's), "
                  "carried by the sampled correspondence under random delays and splits; the scripted connectors replace sockets only (open/wrap/handshake).")
    quick_n = 500
    thorough_n = 8000
    rule = ("case = (client on https?, queued requests [(method incl. HEAD, unique path, body, query-argument dict)], servers [(port, tls?, script of responses (status incl. 204/304/102 with Content-Length or Transfer-Encoding, 300/301/302/303/307 with Location (own query string) to "
            "any server incl. unknown port and scheme change, body, framing length|chunked|until-close|truncated, delay cycles, split points, close-after, number of interim 100 Continue responses sent first 0|1|2|3|10, JSON Content-Type none|3 spellings with UTF-8 / non-UTF-8 / non-JSON bodies))], how many requests are queued late); "
            "the Client is built on a caller-supplied plain/TLS connector (with or without scheme=), from scheme/hostname/port, or from a full URL; dictable or not. "
            "non-trivial = at least 2 requests and (a redirect, a close, a delay or a split); distinct by request line")
    trusted_base = ["correspondence harness/props/C19.py: compiled model driver vs hio.core.http.clienting.Client over scripted connectors (harness/areas/httpflow.py World)",
                    "translator harness/extract/httpflow.py (redirect status set probed from Respondent.parseHead over every 3-digit code)",
                    "oracle: the scripted servers' own wire log and served-response log"]
    assumptions = ["responses are well-formed HTTP (malformed input is C16's); hosts are literal 127.0.0.1 (no DNS)",
                   "the https->http refusal is observed as an errored entry for the redirect response with the history attached and no hop on the wire (tree after the F49 repair)"]

    def extract(self):
        return xhf.extract()

    # ------------------------------------------------------------------ cases
    def corpus(self):
        def ok(body, fr=0, delay=0, cuts=(), close=False):
            return (200, None, body, fr, delay, list(cuts), close)
        R = [(b"GET", b"/q0", b""), (b"POST", b"/q1", b"xyz"), (b"GET", b"/q2", b"")]
        red = lambda sec, port, path, close=False: (302, (sec, port, path), b"", 0, 0, [], close)
        return [
            (False, R, [(8101, 0, [ok(b"one"), ok(b"two", 1), ok(b"three")])], 0),
            (False, R, [(8101, 0, [ok(b"one", 1), ok(b"two", 1), ok(b"three", 1)])], 0),                       # F30 witness
            (False, R, [(8101, 0, [ok(b"one", 0, 0, (), True), ok(b"two"), ok(b"three")])], 0),               # F51 witness
            (False, R, [(8101, 0, [ok(b"one", 3), ok(b"two"), ok(b"three")])], 0),                            # C19-K1 witness
            (False, R, [(8101, 0, [red(0, 8101, b"/r0"), ok(b"one"), ok(b"two", 1), ok(b"three")])], 0),
            (False, R, [(8101, 0, [red(0, 8102, b"/r0"), ok(b"two"), ok(b"three")]), (8102, 0, [ok(b"ONE"), ok(b"TWO"), ok(b"THREE")])], 0),
            (True, R, [(8101, 1, [red(0, 8102, b"/r0"), ok(b"two"), ok(b"three")]), (8102, 0, [ok(b"ONE")])], 0),     # https -> http refused
            (True, R, [(8101, 1, [red(1, 8102, b"/r0"), ok(b"two"), ok(b"three")]), (8102, 1, [ok(b"ONE"), ok(b"2"), ok(b"3")])], 0),
            (False, R, [(8101, 0, [red(0, 8101, b"/r0", True), ok(b"one")])], 1),                              # redirect then close: hop goes into a dead connection
            (False, R, [(8101, 0, [red(0, UNKNOWN_PORT, b"/r0"), ok(b"one")])], 0),
            (False, R, [(8101, 0, [ok(b"until close", 2), ok(b"x")])], 2),
            (False, R, [(8101, 0, [red(0, 8101, b"/r0"), red(0, 8101, b"/r1"), ok(b"end", 1, 2, (5, 9)), ok(b"b", 0, 3), ok(b"c")])], 0),
            (False, R, [(8101, 0, [red(1, 8101, b"/r0"), ok(b"sec")])], 0),                                    # http -> https on the same port
            # second run on the same Client after the server closed on it: reopen(), more requests; the failed ones must not go out again;
            # requests without path= / qargs= take the stored path (space, '%') and arguments
            (False, [(b"GET", b"/q0", b"", []), (b"POST", b"/q1", b"BODY", []), (b"GET", b"/q2/a b/50%", b"", [(b"k 1", b"v&")])],
             [(8101, 0, [ok(b"one", 0, 0, (), True), ok(b"x"), ok(b"y", 1), ok(b"z")])], 0,
             [(b"GET", b"", b"", None), (b"POST", b"/s1", b"p", [(b"n", b"1")]), (b"GET", b"", b"", [])]),
            (False, [(b"GET", "/q0/\u00e9 x".encode("utf-8"), b"", [(b"a", b"1")])], [(8101, 0, [red(0, 8101, b"/r0%20y?b=2"), ok(b"one"), ok(b"two"), ok(b"three")])], 0,
             [(b"GET", b"", b"", None), (b"PUT", b"", b"zz", [(b"c", b"3")])]),
            # the exchange is complete; with the client idle the server sends an unsolicited 408 and closes; then more requests, after reopen() and without
            (False, [(b"GET", b"/q0", b"", [])], [(8101, 0, [ok(b"one", 4), ok(b"two"), ok(b"three", 1)])], 0, [(b"GET", b"/s0", b"", []), (b"POST", b"/s1", b"b", [])], True),
            (False, [(b"GET", b"/q0", b"", []), (b"PUT", b"/q1", b"x", [])], [(8101, 0, [ok(b"one"), ok(b"two", 4), ok(b"three")])], 1, [(b"GET", b"/s0", b"", [])], False),
            # after a refused (https -> http) or unusable (no Location) redirect the queue goes on; later answers, also 2xx WITH a Location header, are plain answers
            (True, R, [(8101, 1, [red(0, 8102, b"/r0"), ok(b"two"), (201, (1, 8101, b"/made"), b"three", 0, 0, [], False)]), (8102, 0, [ok(b"ONE")])], 0),
            (False, R, [(8101, 0, [(302, None, b"", 0, 0, [], False), (201, (0, 8101, b"/made"), b"two", 1, 0, [], False), ok(b"three")])], 1),
            # a redirected request with its own query args; the Location has other args: the hop must go to the Location exactly
            (False, [(b"GET", b"/q0", b"", [(b"token", b"abc"), (b"page", b"2")]), (b"GET", b"/q1", b"", [(b"name", b"x y")])],
             [(8101, 0, [(307, (0, 8101, b"/r0?name=fame"), b"", 0, 0, [], False), ok(b"landed"), ok(b"two")])], 0),
            (False, [(b"POST", b"/q0", b"b", [(b"k 1", b"a&b")])], [(8101, 0, [(302, (0, 8102, b"/r0?k+1=new&z=%26"), b"", 1, 1, [], False)]), (8102, 0, [ok(b"other")])], 0),
            # bodiless by rule although Content-Length says otherwise: HEAD, 304, 204, 102 — with requests queued behind
            (False, [(b"GET", b"/q0", b""), (b"HEAD", b"/q1", b""), (b"GET", b"/q2", b""), (b"GET", b"/q3", b""), (b"GET", b"/q4", b"")],
             [(8101, 0, [ok(b"one"), ok(b"entity-of-two"), ok(b"thr"), (304, None, b"cached-entity", 0, 0, [], False), ok(b"fiv")])], 0),
            (False, [(b"GET", b"/q0", b""), (b"DELETE", b"/q1", b""), (b"GET", b"/q2", b"")],
             [(8101, 0, [(204, None, b"xx", 0, 1, [9], False), (102, None, b"yyy", 3, 0, [], False), ok(b"z")])], 0),
            (False, [(b"HEAD", b"/q0", b""), (b"GET", b"/q1", b"")], [(8101, 0, [ok(b"entity", 1), ok(b"two")])], 0),     # C19-K2 regression (fixed 3095720)
            (False, [(b"GET", b"/q0", b""), (b"GET", b"/q1", b"")], [(8101, 0, [(304, None, b"ent", 1, 0, [], False), ok(b"two", 1)])], 0),
            # interim 100 Continue responses before the final one: none, one, two, three, ten; in one read and piecewise; before a redirect and its landing
            (False, R, [(8101, 0, [(200, None, b"one", 0, 0, [], False, 1), (200, None, b"two", 1, 0, [], False, 2), (200, None, b"three", 0, 0, [], False, 3)])], 0),
            (False, R, [(8101, 0, [(200, None, b"one", 0, 1, [10, 25, 26, 40, 51], False, 10), (302, (0, 8101, b"/r0"), b"", 0, 0, [30], False, 2),
                                   (200, None, b"landed", 0, 0, [], False, 2), (404, None, b"three", 1, 0, [27], True, 3)])], 1),
            # servers on non-default ports plus one on the scheme's default port; Locations with port, WITHOUT port (= default port), scheme-relative
            (False, R, [(8101, 0, [(302, (0, 80, b"/final", 1), b"", 0, 0, [], False), ok(b"two-8101"), ok(b"three-8101")]), (80, 0, [ok(b"ONE-80"), ok(b"x")])], 0),
            (False, R, [(8101, 0, [(301, (0, 80, b"/a?z=1", 2), b"", 0, 0, [], False), (302, (0, 8102, b"/b", 2), b"", 0, 0, [], False), ok(b"three")]),
                        (8102, 0, [ok(b"TWO-8102")]), (80, 0, [(302, (0, 8101, b"/back"), b"", 0, 0, [], False), ok(b"x")])], 0),
            (True, R, [(8101, 1, [(302, (1, 443, b"/s", 1), b"", 0, 0, [], False), ok(b"two"), ok(b"three")]), (443, 1, [(307, (1, 8101, b"/t"), b"", 0, 0, [], False), ok(b"S")])], 0),
            # bodies announced as JSON that are not UTF-8 / not JSON: the entry still arrives and the queue moves on
            (False, R, [(8101, 0, [(200, None, b'{"a":"\xe9t\xe9"}', 0, 0, [], False, 0, 1), (200, None, b'{"a":"\xc3', 1, 0, [], False, 0, 2),
                                   (404, None, '{"a":"é"}'.encode("utf-16"), 0, 0, [], False, 1, 3)])], 0),
            (True, R, [(8101, 1, [(200, None, b'\xef\xbb\xbf{"a":1}', 0, 0, [], False, 0, 1), (200, None, b'\xff', 0, 0, [], False), (200, None, b'[1,2', 0, 0, [], False, 0, 1)])], 0),
            # redirected HEAD (fixed 041b28b): the hop's response carries the entity length and no body
            (False, [(b"HEAD", b"/q0", b"", []), (b"GET", b"/q1", b"", [])],
             [(8101, 0, [(302, (0, 8101, b"/r0"), b"", 0, 0, [], False), ok(b"entity"), ok(b"two")])], 0),
            (False, [(b"HEAD", b"/q0", b"", [(b"a", b"1")])], [(8101, 0, [(307, (0, 8102, b"/r0?b=2"), b"x", 1, 0, [], False)]), (8102, 0, [ok(b"entity", 1, 2, (9,))])], 0),
        ]

    def exhaustive(self, tier):
        if tier != "thorough":
            return [], None
        import itertools
        R = [(b"GET", b"/q0", b"", [(b"a", b"1")]), (b"POST", b"/q1", b"xyz")]
        alpha = [(200, None, b"a", 0, 0, [], False), (200, None, b"bc", 1, 1, [7], False), (404, None, b"d", 0, 0, [], True),
                 (302, (0, 8101, b"/r0?b=2"), b"", 0, 0, [], False), (307, (0, 8102, b"/r1"), b"x", 1, 0, [], False), (200, None, b"ef", 3, 0, [], False), (304, None, b"ent", 0, 0, [], False),
                 (200, None, b"gh", 2, 0, [], False)]
        other = (8102, 0, [(200, None, b"O1", 0, 0, [], False), (301, (0, 8101, b"/r2"), b"", 0, 0, [], True), (200, None, b"O3", 1, 0, [], False)])
        cs = []
        for n in (1, 2, 3):
            for script in itertools.product(alpha, repeat=n):
                cs.append((False, R, [(8101, 0, list(script)), other], 0))
        return cs, "all scripts of length 1..3 over 8 response kinds (length, chunked+delay, close, redirect same server with query / other server, truncated, until-close, 304 with Content-Length) for a queue of 2 requests"

    def _body(self, rng):
        k = rng.random()
        if k < 0.2:
            return b""
        if k < 0.35:
            return rng.choice([b"HTTP/1.1 200 OK\r\n\r\n", b"0\r\n\r\n", b"\r\n", b"5\r\nabcde\r\n"])
        return bytes(rng.randrange(256) for _ in range(rng.choice([1, 2, 5, 17, 64] if rng.random() < 0.93 else [8095, 8096, 8097, 20000])))

    def generate(self, rng, n, tier):
        for _ in range(n):
            secure = rng.random() < 0.25
            nserv = rng.choice([1, 1, 2, 2, 3])
            ports = PORTS[:nserv]
            if rng.random() < 0.35:
                # one more server on the DEFAULT port of its scheme (80 plain / 443 TLS): only such a server can be named by a Location without a port
                ports = ports + [443 if rng.random() < (0.7 if secure else 0.2) else 80]
            tls = {}
            for p in ports:
                tls[p] = (rng.random() < 0.85) if secure else (rng.random() < 0.15)
            tls[ports[0]] = secure
            for p in ports:
                if p in (80, 443):
                    tls[p] = p == 443
            m = rng.choice([1, 2, 3, 3, 4, 6])
            reqs = []
            heads = rng.random() < 0.3          # a queue with HEAD requests
            qtext = lambda: "".join(rng.choice(["a", "b", "1", " ", "&", "=", "+", "é", "%", "x y"]) for _ in range(rng.choice([0, 1, 1, 2])))
            keys = ["name", "token", "page", "k 1", "a&b", ""]
            for k in range(m):
                method = rng.choice([b"GET", b"GET", b"POST", b"PUT", b"DELETE"] + ([b"HEAD", b"HEAD", b"HEAD"] if heads else []))
                body = b"" if rng.random() < 0.4 else self._body(rng)
                qa = {}
                for _ in range(rng.choice([0, 0, 1, 2, 3])):
                    qa[rng.choice(keys)] = qtext()
                reqs.append((method, b"/q%d" % k + rng.choice([b"", b"/x", b"/a/b", b"/a b", "/\u00e9".encode("utf-8"), b"/50%", b"/%41"]), body, [(a.encode("utf-8"), b.encode("utf-8")) for a, b in qa.items()]))
            rcount = [0]
            servers = []
            pclose = rng.choice([0.0, 0.0, 0.1, 0.3])
            predir = rng.choice([0.0, 0.15, 0.3, 0.6])
            ptrunc = rng.choice([0.0, 0.0, 0.0, 0.05])
            pnobody = rng.choice([0.0, 0.1, 0.3])
            p100 = rng.choice([0.0, 0.0, 0.15, 0.4])
            pjson = rng.choice([0.0, 0.0, 0.2, 0.5])
            for p in ports:
                script = []
                for _ in range(rng.choice([0, 2, 4, 6, 9])):
                    loc = None
                    if rng.random() < predir:
                        status = rng.choice(REDIRECTS)
                        tp = rng.choice(ports + ([UNKNOWN_PORT] if rng.random() < 0.05 else []))
                        tsec = tls.get(tp, secure) if rng.random() < 0.9 else (not tls.get(tp, secure))
                        target = b"/r%d" % rcount[0] + rng.choice([b"", b"", b"/x%20y", b"/%C3%A9", b"/50%25"])
                        if rng.random() < 0.5:       # the Location carries its own query: some new names, sometimes one of the request's
                            la = {}
                            for _ in range(rng.choice([1, 1, 2])):
                                la[rng.choice(keys + ["loc", "z"])] = qtext()
                            target += b"?" + "&".join(quote_plus(a) + "=" + quote_plus(b) for a, b in la.items()).encode("ascii")
                        loc = (int(tsec), tp, target) if rng.random() > 0.06 else None      # rarely a 3xx WITHOUT Location: cannot be followed
                        if loc is not None:
                            # the same target written in other forms: without the port when it is the scheme's default, scheme-relative when plain http
                            k = rng.random()
                            if tp == (443 if tsec else 80) and k < 0.7:
                                loc += (1,)
                            elif not tsec and k < 0.85:
                                loc += (2,)
                        rcount[0] += 1
                    elif rng.random() < pnobody:
                        status = rng.choice([204, 304, 304, 102])
                    else:
                        status = rng.choice([200, 200, 200, 201, 404, 500])
                        if rng.random() < 0.15:      # a Location header on an answer that is not a redirect (201 Created ...): must be ignored
                            tp = rng.choice(ports)
                            loc = (int(rng.choice([secure, tls.get(tp, secure)])), tp, b"/ignored%d" % rcount[0])
                            rcount[0] += 1
                    fr = 3 if rng.random() < ptrunc else rng.choice([0, 0, 0, 1, 1, 2] if rng.random() < 0.5 else [0, 0, 0, 1])
                    delay = rng.choice([0, 0, 0, 1, 2, 5])
                    cuts = sorted(rng.randrange(1, 120) for _ in range(rng.choice([0, 0, 1, 2, 4])))
                    resp = (status, loc, self._body(rng), fr, delay, cuts, rng.random() < pclose)
                    if rng.random() < p100:
                        # interim 100 Continue responses (0, 1, several, many) before the final one: in the same read, or piecewise with the cuts
                        resp += (rng.choice([1, 1, 2, 2, 3, 10]),)
                        if rng.random() < 0.5:
                            resp = resp[:5] + (sorted(set(list(cuts) + [rng.choice([1, 12, 25, 26, 30, 50, 51, 60])])),) + resp[6:]
                    if rng.random() < pjson:
                        # announced as JSON: valid, latin-1 encoded, cut inside a multi-byte character, with BOM, UTF-16, not JSON at all
                        jb = rng.choice([b'{"a":"\xc3\xa9","n":[1,2,{"b":null}]}', b'{"a":"\xe9t\xe9"}', b'{"a":"\xc3', b'\xef\xbb\xbf{"a":1}', '{"a":"é"}'.encode("utf-16"),
                                         b'[1,2', b'', b'\xff\xfe\xfd', b'"caf\xe9"', b'{"k":"v"}', b'[' * 50 + b']' * 50, b'\x80'])
                        resp = resp[:2] + (jb,) + resp[3:7] + (resp[7] if len(resp) > 7 else 0, rng.choice([1, 1, 2, 3]))
                    script.append(resp)
                servers.append((p, int(tls[p]), script))
            late = 0 if rng.random() < 0.7 else rng.randrange(1, m + 1)
            if rng.random() < 0.3:
                # a second run on the same Client: reopen(), then more requests — some WITHOUT path= / qargs= (the stored ones are used again)
                second = []
                for k in range(rng.choice([1, 2, 3])):
                    method = rng.choice([b"GET", b"GET", b"POST", b"PUT"])
                    path = b"" if rng.random() < 0.5 else b"/s%d" % k + rng.choice([b"", b"/a b", b"/50%"])
                    qa = None if rng.random() < 0.4 else [(a.encode("utf-8"), qtext().encode("utf-8")) for a in rng.sample(keys, rng.choice([0, 1, 2]))]
                    second.append((method, path, b"" if rng.random() < 0.5 else self._body(rng), qa))
                if nserv == 1 and predir == 0.0 and len(servers[0][2]) >= m and rng.random() < 0.5:
                    # the answer to the LAST request of the first run is complete; later, with the client idle, the server says 408 on its own and closes
                    sc = list(servers[0][2])
                    st, loc, body, fr, delay, cuts, cl = sc[m - 1][:7]
                    if fr in (0, 1) and st not in (204, 304, 102):
                        sc[m - 1] = (st, loc, body, 4, delay, cuts, False) + tuple(sc[m - 1][7:])
                        servers = [(servers[0][0], servers[0][1], sc)]
                yield (secure, reqs, servers, late, second, rng.random() < 0.7)       # last: reopen() before the second run, or go on as it is
                continue
            if tier == "thorough" and not secure and rng.random() < 0.03:
                yield ("loop", (secure, reqs, servers, late))      # the same kind of case over real loopback sockets (when it is plain http throughout)
                continue
            yield (secure, reqs, servers, late)

    def request(self, case):
        if case[0] == "loop":
            case = case[1]
        secure, reqs, servers, late = case[:4]

        def loc(l):
            if l is None:
                return None
            path, q = _tp(l[2])
            return (bool(l[0]), l[1], path, q)
        return ("c19", bool(secure), servers[0][0], [(r[0], r[1], r[2], _qa(r)) for r in reqs],
                [(port, [(st, loc(l), body, 0 if fr == 4 else fr, bool(fr in (2, 3) or (cl and fr != 4)), fr == 4)      # 4 = complete response; unsolicited 408 + close if the client is idle afterwards
                         for st, l, body, fr, delay, cuts, cl in (r[:7] for r in script)]) for port, sec, script in servers],
                [(r[0], r[1] or None, r[2], None if (len(r) > 3 and r[3] is None) else _qa(r)) for r in _second(case)],
                bool(case[5]) if len(case) > 5 else True)

    # ------------------------------------------------------------------ real code
    @staticmethod
    def _loopable(case):
        secure, reqs, servers = case[0], case[1], case[2]
        ports = {p for p, _, _ in servers}
        return (not secure and not any(sec for _, sec, _ in servers)
                and all(r[1] is None or (not r[1][0] and r[1][1] in ports) for _, _, sc in servers for r in sc))

    def run_impl(self, case):
        if case[0] == "loop":
            case = case[1]
            try:
                o = hf.c19_run_loopback(case) if self._loopable(case) else hf.c19_run(case)
            except hf.LoopbackInfra as ex:
                raise core.Infra(str(ex))
        else:
            o = hf.c19_run(case)
        outcome = "running"
        if o["raised"]:
            outcome = "refused" if o["raised"] == ("ValueError", True) else "crashed"
        ents = []
        for e in o["entries"]:
            err = e["errored"]
            ents.append((None if err else e["status"], b"" if err else e["body"], err, e["tag"], (e["method"] or "").encode("latin-1"),
                         (e["path"] or "").encode("utf-8"), e["rbody"], e["rqargs"], [(s, (p or "").encode("utf-8"), t) for s, p, t in e["redirects"]]))
        self._last = o
        return (outcome, ents, [tuple(w) for w in o["wire"]], o["waited"], o["left"],
                # not compared with the model (timing-level facts for the oracle only)
                ("x", o["overlap"], o["insecure_bytes"], [(s[0], _loc(s[1]), s[2], s[3], s[6]) for s in o["served"]], o["raised"][0] if o["raised"] else None, list(o["rids"]), bool(o.get("sentinel_ok", True)), o.get("cmode", 0)))

    def compare_view(self, case, obs):
        if case[0] == "loop":
            case = case[1]
        return sx.dumps(obs[:5])

    # ------------------------------------------------------------------ the property
    def _walk(self, case, obs):
        """group the wire log by originating request (every request and its redirect hops carry the X-Req header of the request): k -> indices"""
        rids = obs[5][5]
        groups = {}
        for i, k in enumerate(rids):
            groups.setdefault(k, []).append(i)
        return groups

    def oracle(self, case, obs):
        if case[0] == "loop":
            case = case[1]
        try:
            return self._oracle(case, obs)
        except (IndexError, KeyError, TypeError, ValueError, AttributeError) as ex:
            # whatever the client did must be judged, never crash the check: an observation the walk cannot account for IS a violation
            return ["observation-not-accountable:" + type(ex).__name__]

    def _oracle(self, case, obs):
        secure, servers, late = case[0], case[2], case[3]
        reqs = effective19(case, obs[1])
        outcome, ents, wire, waited, left, (_, overlap, insecure_bytes, served, raised, rids, sentinel_ok, cmode) = obs
        bad = []
        if not sentinel_ok:
            bad.append("caller-responses-deque-disturbed")
        if overlap:
            bad.append("one-at-a-time")
        if secure and (insecure_bytes or any(not w[1] for w in wire)):
            bad.append("https-to-http-not-refused")
        groups = self._walk(case, obs)
        # only requests that were queued, or hops of a followed 3xx, may appear on the wire
        if any(k < 0 or k >= len(reqs) for k in groups):
            bad.append("unqueued-request-on-wire")
            groups = {k: v for k, v in groups.items() if 0 <= k < len(reqs)}
        # transmitted in queue order, as queued
        order = [k for k, _ in sorted(groups.items(), key=lambda kv: kv[1][0])]
        if order != sorted(order):
            bad.append("transmit-order")
        for k, idx in groups.items():
            m, p, b = reqs[k][:3]
            w = wire[idx[0]]
            if w[2] != m or w[4] != (b"" if m == b"GET" else b) or _tp(w[3])[1] != _qa(reqs[k]):
                bad.append("transmitted-request-differs")
                break
        if outcome != "running":        # since F49 was repaired nothing is raised out of Client.service() any more
            bad.append("exception-escaped:" + str(raised))
            return bad
        # entries: one per request, in order, carrying the originating request
        for k, e in enumerate(ents):
            status, body, errored, tag, method, path, rbody, rqargs, hist = e
            origin = tag if tag is not None else (hist[0][2] if hist else None)
            if origin != k:
                bad.append("fifo-entry-origin")
                break
            if k >= len(reqs):
                bad.append("extra-entry")
                break
            idx = groups.get(k)
            m, p, b = reqs[k][:3]
            if hist and hist[0][1] != p:
                bad.append("history-first-hop-not-originating-request")
            if not hist and not errored and (method != m or path != p or rbody != b or rqargs != _qa(reqs[k])):
                bad.append("entry-request-differs")
            if idx is None:
                if not errored:
                    bad.append("entry-for-unsent-request-not-errored")
                continue
            chain = [served[i] for i in idx]
            exp_hist = [c[0] for c in chain[:-1]]
            final = chain[-1]
            followed = final[0] in REDIRECTS      # a 3xx ending the chain: its hop never reached a server, or it could not be followed at all (no Location)
            if any(not (c[0] in REDIRECTS and c[1] is not None) for c in chain[:-1]):
                bad.append("hop-after-non-redirect")
            # every hop must have gone exactly where the previous response pointed: port, scheme, path AND query arguments
            # of the Location — nothing of the redirected request's own target travels along
            for a, i in zip(chain[:-1], idx[1:]):
                if (wire[i][0], wire[i][1]) + _tp(wire[i][3]) != (a[1][1], a[1][0]) + _tp(a[1][2]):
                    bad.append("redirect-target-differs")
                    break
            # a redirect received over TLS that points to http must not be followed at all
            for a, i in zip(chain[:-1], idx[:-1]):
                if wire[i][1] and not a[1][0]:
                    bad.append("https-to-http-not-refused")
                    break
            fmethod = wire[idx[-1]][2]
            bodiless = hf.c19_bodiless(fmethod, final[0])
            if followed:
                # the last response on the wire for k was itself a redirect whose hop never reached a server (dead / unknown / refused target): errored entry with full history
                if not errored or [h[0] for h in hist] != exp_hist + [final[0]]:
                    bad.append("redirect-history")
            elif self._never(fmethod, final):
                bad.append("entry-for-a-response-that-cannot-complete")
            elif final[3] == 3 and not bodiless:
                if not errored:         # a response the server cut short can only be reported as an error
                    bad.append("entry-for-truncated-response")
            else:
                if errored or status != final[0] or body != (b"" if bodiless else final[2]):
                    bad.append("response-differs")
                if [h[0] for h in hist] != exp_hist:
                    bad.append("redirect-history")
                if hist and len(chain) >= 2 and (path, rqargs) != _tp(chain[-2][1][2]):
                    bad.append("entry-request-not-the-last-location")
        if outcome == "running":
            if len(ents) != len(reqs) or waited or left:   # (reqs includes the second run)
                bad.append("missing-entries")
        return bad

    @staticmethod
    def _never(method, served):
        """a served response the client can never see the end of: cut short after some body bytes (C19-K1)"""
        if hf.c19_bodiless(method, served[0]):
            return None
        return "C19-K1" if served[3] == 3 and len(served[2]) > 0 else None

    def _stuck_on(self, case, obs):
        """id of the known finding if the first request without an entry was drawing a response that cannot complete"""
        outcome, ents, wire, waited, left, (_, overlap, insecure_bytes, served, raised, rids, sentinel_ok, cmode) = obs
        groups = self._walk(case, obs)
        idx = groups.get(len(ents))
        if outcome == "running" and waited and idx and idx[-1] == len(wire) - 1:
            return self._never(wire[idx[-1]][2], served[idx[-1]])
        return None

    def known(self, case, obs, clauses):
        if case[0] == "loop":
            case = case[1]
        if clauses == ["missing-entries"]:
            return self._stuck_on(case, obs)
        return None

    def nontrivial(self, case, obs):
        if case[0] == "loop":
            case = case[1]
        secure, reqs, servers, late = case[:4]
        served = obs[5][3]
        return len(reqs) >= 2 and any(s[0] in REDIRECTS or s[4] or s[3] in (2, 3) for s in served) or (len(reqs) >= 2 and any(r[4] or r[5] for _, _, sc in servers for r in sc))

    def features(self, case, obs):
        if case[0] == "loop":
            return (["real-loopback-sockets"] if self._loopable(case[1]) else []) + self.features(case[1], obs)
        secure, reqs, servers, late = case[:4]
        outcome, ents, wire, waited, left, (_, overlap, insecure_bytes, served, raised, rids, sentinel_ok, cmode) = obs
        f = ["https" if secure else "http", f"reqs={len(reqs)}", f"servers={len(servers)}", "outcome:" + outcome, "late" if late else "upfront"]
        f += [f"entries={min(len(ents), 6)}", "waited-at-end" if waited else "idle-at-end"]
        if any(e[2] for e in ents):
            f.append("errored-entry")
        mx = max([len(e[8]) for e in ents], default=0)
        f.append(f"max-history={min(mx, 4)}")
        for s in served:
            f.append("served:" + ("redirect" if s[0] in REDIRECTS and s[1] else "final") + ":" + ["length", "chunked", "until-close", "truncated", "length-then-unsolicited-408"][s[3]] + (":close" if s[4] else ""))
        f.append("constructed:" + ["connector=", "connector=+scheme=", "scheme/hostname/port", "full-url-path"][hf.c19_kmode(case)] + (":tls" if secure else ":plain"))
        if (len(reqs) + len(servers)) % 2:
            f.append("dictable")
        for _, _, sc in servers:
            for r in sc:
                if len(r) > 8 and r[8]:
                    try:
                        r[2].decode("utf-8")
                        f.append("json-typed-body:utf-8")
                    except UnicodeDecodeError:
                        f.append("json-typed-body:not-utf-8")
                if len(r) > 7 and r[7]:
                    f.append("interim-100-continue=" + ("1" if r[7] == 1 else ("2-3" if r[7] <= 3 else "many")) + (":piecewise" if r[5] else ":one-read"))
        for sv in served:
            if sv[0] in REDIRECTS and sv[1]:
                f.append("location:to-default-port" if sv[1][1] in (80, 443) else "location:to-other-port")
        for _, _, sc in servers:
            for r in sc:
                if r[1] is not None and len(r[1]) > 3 and r[1][3]:
                    f.append("location-form:" + ("absolute-without-port" if r[1][3] == 1 else "scheme-relative"))
        if len({w[0] for w in wire}) > 1:
            f.append("multi-server")
        for w, sv in zip(wire, served):
            if hf.c19_bodiless(w[2], sv[0]):
                f.append("bodiless:" + ("HEAD" if w[2] == b"HEAD" else str(sv[0])) + ":" + ["length", "chunked", "until-close", "truncated", "length-then-unsolicited-408"][sv[3]] + (":entity" if sv[2] else ""))
            if sv[0] in REDIRECTS and sv[1] and b"?" in sv[1][2]:
                f.append("location:with-query" + (":request-had-args" if _tp(w[3])[1] else ""))
        if any(_qa(r) for r in reqs):
            f.append("requests-with-query-args")
        f.append(["containers:client-own", "containers:caller-owned-empty", "containers:caller-owned-prefilled-shared"][cmode])
        if len(case) > 4:
            f.append(("second-run-after-reopen" if (len(case) < 6 or case[5]) else "second-run-on-same-connection") + (":stored-path-reused" if any(not r[1] for r in case[4]) else ""))
        if any(b" " in r[1] or b"%" in r[1] or any(c > 127 for c in r[1]) for r in reqs):
            f.append("path:quote-alters-it")
        return f

    def shrink(self, case):
        if case[0] == "loop":
            for c in self.shrink(case[1]):
                yield ("loop", c)
            return
        if len(case) > 4:
            sec2 = list(case[4])
            tail = tuple(case[5:])
            yield tuple(case[:4])
            for i in range(len(sec2)):
                if len(sec2) > 1:
                    yield tuple(case[:4]) + (sec2[:i] + sec2[i + 1:],) + tail
            for c in self.shrink(tuple(case[:4])):
                yield tuple(c) + (sec2,) + tail
            return
        secure, reqs, servers, late = case[:4]
        if late:
            yield (secure, reqs, servers, 0)
        if len(reqs) > 1:
            yield (secure, reqs[:-1], servers, min(late, len(reqs) - 1))
        for i, (port, sec, script) in enumerate(servers):
            for j in range(len(script)):
                yield (secure, reqs, servers[:i] + [(port, sec, script[:j] + script[j + 1:])] + servers[i + 1:], late)
            for j, r in enumerate(script):
                st, loc, body, fr, delay, cuts, cl = r[:7]
                x = tuple(r[7:])
                if len(x) > 1 and x[1]:
                    yield (secure, reqs, servers[:i] + [(port, sec, script[:j] + [(st, loc, body, fr, delay, cuts, cl, x[0])] + script[j + 1:])] + servers[i + 1:], late)
                if x and x[0]:
                    yield (secure, reqs, servers[:i] + [(port, sec, script[:j] + [(st, loc, body, fr, delay, cuts, cl)] + script[j + 1:])] + servers[i + 1:], late)
                    if x[0] > 2:
                        yield (secure, reqs, servers[:i] + [(port, sec, script[:j] + [(st, loc, body, fr, delay, cuts, cl, 2)] + script[j + 1:])] + servers[i + 1:], late)
                if delay or cuts:
                    yield (secure, reqs, servers[:i] + [(port, sec, script[:j] + [(st, loc, body, fr, 0, [], cl) + x] + script[j + 1:])] + servers[i + 1:], late)
                if len(body) > 1:
                    yield (secure, reqs, servers[:i] + [(port, sec, script[:j] + [(st, loc, body[:1], fr, delay, cuts, cl) + x] + script[j + 1:])] + servers[i + 1:], late)
        for k, r in enumerate(reqs):
            m, p, b = r[:3]
            if b:
                yield (secure, reqs[:k] + [(m, p, b"", _qa(r))] + reqs[k + 1:], servers, late)
            qa = _qa(r)
            for j in range(len(qa)):
                yield (secure, reqs[:k] + [(m, p, b, qa[:j] + qa[j + 1:])] + reqs[k + 1:], servers, late)

    def mutate(self, rng, case):
        return list(self.shrink(case))[:40]


CHECK = C19()
