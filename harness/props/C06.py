"""C06 — runtime extend/remove take effect exactly and preserve membership (Doist/DoDoer.extend/.remove)."""
from .. import core, sx
from ..areas import sched as S

TERM = ("clean", "cease", "abort")


def clauses(case, d):
    """walk the real trace; every recur of a leaf announces the ops of its next step, every op that returned left a
    `doers` snapshot.  Reference: an ordered set per scheduler (added and not removed, insertion order)."""
    bad = []
    _, tock, start, limit, pool, specs = case[:6]
    spec, par, pools, kids = S.spec_index(case)
    desc = S.descendants(case)
    ref = {sid: list(k) for sid, k in kids.items()}
    tr = d["trace"]
    live = set()
    nrec = {}
    entered_at = {}         # id -> (pos, tyme) of latest enter
    by_extend = {}          # id -> tyme at which it was entered by an extend (latest)
    removed_self = set()
    pending = []            # ops the current actor still has to perform: [(actor, op)]
    window = None           # start position of the current op (recur of actor or previous snapshot)
    for pos, e in enumerate(tr):
        i, k, t = e[0], e[1], e[2]
        if k == "enter":
            live.add(i)
            nrec[i] = 0
            entered_at[i] = (pos, t)
        elif (k == "exit" and spec.get(i, ("leaf",))[0] == "leaf") or k == "exitEnd":
            live.discard(i)
        if k == "recur":
            if i in by_extend and i in nrec and nrec[i] == 0 and by_extend[i] == t:
                bad.append("extended-doer-ran-in-the-cycle-it-was-added")
            if i in by_extend and nrec.get(i) == 0 and par[i] == 0 and t != by_extend[i] + float(tock):
                bad.append("extended-doer-first-recur-not-in-next-cycle")
            if i not in live:
                bad.append("recur-of-doer-that-is-not-alive")
            nrec[i] = nrec.get(i, 0) + 1
            if pending:
                bad.append("op-did-not-return")      # (only legal when the op raised; then the actor aborts, no recur)
                pending = []
            s = spec.get(i)
            if s and s[0] == "leaf":
                n = nrec[i]
                ops = s[4][n - 1][0] if n <= len(s[4]) else []
                pending = [(i, op) for op in ops]
                window = pos
        elif k in ("abort", "exit") and pending and pending[0][0] == i:
            # an enter inside extend() raised into the actor: the doers entered before the failing one were added
            actor, op = pending[0]
            sid = par[actor]
            if op[0] == "extend":
                seg = tr[window + 1:pos]
                failed = {x[0] for x in seg if x[1] == "abort"}
                for x in seg:
                    if x[1] == "enter" and par.get(x[0]) == sid and x[0] not in failed and x[0] not in ref[sid]:
                        ref[sid].append(x[0])
            else:
                bad.append("remove-raised")
            pending = []
        elif k == "doers":
            if not pending:
                bad.append("snapshot-without-op")
                continue
            actor, op = pending.pop(0)
            sid = par[actor]
            if sid != i:
                bad.append("op-on-foreign-scheduler")
            seg = tr[window + 1:pos]
            before = list(ref[sid])
            if op[0] == "extend":
                new = []
                for kx in op[1]:
                    if 0 <= kx < len(pools[sid]):
                        j = pools[sid][kx]
                        if j not in before and j not in new:
                            new.append(j)
                ref[sid] = before + new
                ent = [x[0] for x in seg if x[1] == "enter" and par.get(x[0]) == sid]
                if ent != new:
                    bad.append("extend-did-not-enter-exactly-the-new-doers-in-order")
                if any(x[2] != t for x in seg if x[1] == "enter"):
                    bad.append("extend-entered-at-another-tyme")
                present = {pools[sid][kx] for kx in op[1] if 0 <= kx < len(pools[sid])} - set(new)
                if any(x[0] in present or any(x[0] in desc.get(p, ()) for p in present) for x in seg if x[1] in S.LIFE):
                    bad.append("extend-of-present-doer-had-an-effect")
                for j in new:
                    by_extend[j] = t
                    for jj in desc.get(j, ()):
                        by_extend.pop(jj, None)
            else:
                tg = []
                for j in op[1]:
                    if j in before and j not in tg:
                        tg.append(j)
                ref[sid] = [x for x in before if x not in tg]
                if not (seg and seg[0][1] == "rmBeg" and seg[0][0] == sid and seg[-1][1] == "rmEnd" and seg[-1][0] == sid):
                    bad.append("remove-did-not-return-normally")
                for j in tg:
                    evs = [x[1] for x in seg if x[0] == j and x[1] in S.LIFE]
                    was_live = (j in live) or ("exit" in evs)
                    if j == actor:
                        removed_self.add(j)
                        if evs:
                            bad.append("self-remove-closed-the-running-doer")
                        continue
                    if was_live and evs != ["cease", "exit"]:
                        bad.append("removed-doer-not-ceased-and-exited-before-remove-returned")
                    if j in live or any(jj in live for jj in desc.get(j, ())):
                        bad.append("removed-doer-still-alive-after-remove-returned")
                    by_extend.pop(j, None)
                others = [x for x in seg if x[1] in S.LIFE and x[0] not in tg and not any(x[0] in desc.get(j, ()) for j in tg)]
                if others:
                    bad.append("remove-touched-a-doer-that-was-not-removed")
            if list(e[3]) != ref[sid]:
                bad.append("doers-list-not-added-and-not-removed-in-insertion-order")
                ref[sid] = list(e[3])
            window = pos
    if d["raised"].startswith("other:") or d["raised"] == "kbint":
        bad.append("unexpected-exception-from-do:" + d["raised"].split(":")[-1])
    if list(d["doers"]) != ref[0]:
        bad.append("final-doers-list-differs")
    # an extended doer gets its first recur in the next cycle unless it is removed or the run is stopped first:
    # a run that ticked on to T + tock and then ended WITHOUT limit / exception must have resumed it
    if d["raised"] == "-" and d["done"] and not any(e[1] == "abort" for e in tr):
        stop = None if limit is None else float(start) + abs(float(limit))
        for j, T in by_extend.items():
            if par.get(j) == 0 and nrec.get(j) == 0 and j in entered_at:
                ceased = [x for x in tr[entered_at[j][0]:] if x[0] == j and x[1] == "cease"]
                nxt = T + float(tock)
                if ceased and ceased[0][2] == nxt and d["tyme"] == nxt and (stop is None or nxt < stop):
                    bad.append("extended-doer-never-recurred-although-nothing-stopped-the-run")
    # a self-removed doer keeps running until it returns: it is never ceased unless the whole scheduler stops
    for j in removed_self:
        hist = [(x[1], n) for n, x in enumerate(tr) if x[0] == j and x[1] in S.LIFE]
        for k, n in hist:
            if k == "cease":
                # legal only inside a stop episode of its scheduler (stopBeg / parent's exit) -- not inside a remove()
                depth = 0
                for x in tr[:n]:
                    if x[1] == "rmBeg" and x[0] == par[j]:
                        depth += 1
                    elif x[1] == "rmEnd" and x[0] == par[j]:
                        depth -= 1
                if depth > 0 and j not in [y for y in ref.get(par[j], [])] and not was_reextended(tr, j, n):
                    bad.append("self-removed-doer-closed-by-a-later-remove")
    return sorted(set(bad))


def clauses_nested(case, d):
    """programs whose doers also issue ops from their cease / exit actions: ops nest (a remove() closes a doer whose
    close hook calls remove()/extend() on the same scheduler).  Frames: the ops a recur step announces, and on top the
    ops a cease / exit event announces; every op that returned left a snapshot that belongs to the innermost open frame.
    Membership reference: a remove() drops its targets when it STARTS (rmBeg), an extend() lists a doer when it is entered."""
    bad = []
    spec, par, pools, kids = S.spec_index(case)
    ref = {sid: list(k) for sid, k in kids.items()}
    tr = d["trace"]
    live, nrec = set(), {}
    frames = []          # [actor, remaining ops, window start, applied-remove info or None]
    cops = {i: ([op for ops, o in sp[4] if o == "oncease" for op in ops], [op for ops, o in sp[4] if o == "onexit" for op in ops])
            for i, sp in spec.items() if sp[0] == "leaf"}
    for pos, e in enumerate(tr):
        i, k, t = e[0], e[1], e[2]
        if k == "enter":
            live.add(i)
            nrec[i] = 0
        elif (k == "exit" and spec.get(i, ("leaf",))[0] == "leaf") or k == "exitEnd":
            live.discard(i)
        if k == "recur" and spec.get(i, ("x",))[0] == "leaf":
            if any(f[1] for f in frames):
                bad.append("op-did-not-return")
            nrec[i] = nrec.get(i, 0) + 1
            real = [st for st in spec[i][4] if st[1] not in S.CLOSE_OUTS]
            n = nrec[i]
            frames = [[i, list(real[n - 1][0]) if n <= len(real) else [], pos, None]]
        elif k in ("cease", "exit") and i in cops:
            ops = cops[i][0 if k == "cease" else 1]
            if k in ("exit",) and frames and frames[0][0] == i and frames[0][1]:
                # the actor ends with announced ops not performed: an op raised into it
                bad.append("op-raised-into-the-doer:" + frames[0][1][0][0])
                frames = []
            if ops:
                frames.append([i, list(ops), pos, None])
        elif k == "abort" and frames and frames[0][0] == i and frames[0][1]:
            bad.append("op-raised-into-the-doer:" + frames[0][1][0][0])
            frames = []
        elif k == "rmBeg":
            fr = next((f for f in reversed(frames) if f[1]), None)
            if fr is None or fr[1][0][0] != "remove" or par[fr[0]] != i:
                bad.append("remove-call-nobody-announced")
                continue
            before = list(ref[i])
            tg = []
            for j in fr[1][0][1]:
                if j in before and j not in tg:
                    tg.append(j)
            ref[i] = [x for x in before if x not in tg]
            fr[3] = (tg, {j for j in tg if j in live}, pos)
        elif k == "doers":
            fr = next((f for f in reversed(frames) if f[1]), None)
            if fr is None:
                bad.append("snapshot-without-op")
                continue
            actor, op = fr[0], fr[1].pop(0)
            sid = par[actor]
            if sid != i:
                bad.append("op-on-foreign-scheduler")
            seg = tr[fr[2] + 1:pos]
            if op[0] == "extend":
                new = []
                for kx in op[1]:
                    if 0 <= kx < len(pools[sid]):
                        j = pools[sid][kx]
                        if j not in ref[sid] and j not in new:
                            new.append(j)
                ref[sid] = ref[sid] + new
                ent = [x[0] for x in seg if x[1] == "enter" and par.get(x[0]) == sid]
                if ent != new:
                    bad.append("extend-did-not-enter-exactly-the-new-doers-in-order")
            else:
                if fr[3] is None:
                    bad.append("remove-did-not-start")
                else:
                    tg, waslive, beg = fr[3]
                    inner = tr[beg + 1:pos]
                    if not (inner and inner[-1][1] == "rmEnd" and inner[-1][0] == sid):
                        bad.append("remove-did-not-return-normally")
                    busy = {f[0] for f in frames}      # doers that are running / in the middle of their own close right now
                    for j in tg:
                        if j == actor or j not in waslive or j in busy:
                            continue
                        evs = [x[1] for x in inner if x[0] == j and x[1] in ("cease", "exit")]
                        if evs[:2] != ["cease", "exit"]:
                            bad.append("removed-doer-not-ceased-and-exited-before-remove-returned")
                fr[3] = None
            if list(e[3]) != ref[sid]:
                bad.append("doers-list-not-added-and-not-removed-in-insertion-order")
                ref[sid] = list(e[3])
            fr[2] = pos
            while frames and len(frames) > 1 and not frames[-1][1]:
                frames.pop()
    if d["raised"].startswith("other:") or d["raised"] == "kbint":
        bad.append("unexpected-exception-from-do:" + d["raised"].split(":")[-1])
    if list(d["doers"]) != ref[0]:
        bad.append("final-doers-list-differs")
    if d["late"]:
        bad.append("closed-only-by-garbage-collector")
    return sorted(set(bad))


def was_reextended(tr, j, n):
    """j was entered again (extend) before position n after its first enter"""
    return sum(1 for x in tr[:n] if x[0] == j and x[1] == "enter") > 1


class C06(S.SchedCheck):
    pid = "C06"
    ways = True
    props_mod = "HioModel.Props.C06"
    design_ref = "DESIGN.md §5 C06"
    technique = ("Lean 4 theorems over the shared scheduler model (extend/remove refine an ordered set; removed deeds leave the zipper; new deeds go right of the marker), "
                 "differential run against hio.base.doing; ordered-set reference oracle on the real trace")
    level_text = ('Lean theorems for every state of a scheduler in mid cycle: doers_list_exact (doers after any op sequence = fold of the ordered-set spec, every snapshot equal to the spec), extend_spec_meaning, doers_list_exact_raised (failing enter inside extend: exactly the doers entered before it are listed), extend_present_noop, extend_queues_right_of_marker + extend_enters_now + cycle_resumes_only_left_of_marker + extend_runs_next_cycle (new doers are entered at the current tyme, queued right of the marker, not resumed in this cycle), remove_closes_before_return + close_is_cease_exit + removed_never_recurs + remove_doers + cycle_skips_removed, self_remove_no_lifecycle_event + self_remove_keeps_running. That the new deed IS resumed in the next cycle: due_head_recurs, due_deed_recurs, extended_doer_recurs_next_cycle (any later cycle with now <= now2, unless the cycle raised or the deed was removed in it) and extended_doer_recurs_next_doist_cycle (at now + tock, under the LawfulTyme laws of HioModel/Sched/TimeDefs.lean and 0 <= tock; Float satisfying them is an assumption). F05/F06/F04 were repaired on fix/sched.')
    level_note = ('Trusted: as C01.  The ordered-set reference oracle replays the ops announced by each recur against the snapshots the real scheduler left.')
    profiles = ("ops", "ops", "ops", "mixed", "lastop", "closeops")

    def generate(self, rng, n, tier):
        yield from super().generate(rng, n, tier)
        # removing an IDLE DoDoer(always=True) (all its doers completed, done True, still scheduled) from a sibling
        y = ([], ("yield", 0.0))
        for _ in range(max(10, n // 50)):
            t = rng.choice(S.TOCKS)
            kids = [("leaf", 11 + q, rng.choice(S.SHAPES), "ok", [y] * rng.choice([0, 1, 2])) for q in range(rng.choice([0, 1, 2, 3]))]
            g = ("group", 10, rng.choice([0.0, 0.0, t]), True, kids, [])
            pre = rng.choice([3, 4, 5])
            x = ("leaf", 20, rng.choice(S.SHAPES), "ok", [y] * pre + [([("remove", [10] + ([20] if rng.random() < 0.2 else []))], ("yield", 0.0))] + [y] * rng.choice([2, 4]))
            other = [("leaf", 30, rng.choice(S.SHAPES), "ok", [y] * 9)] if rng.random() < 0.5 else []
            specs = [g, x] if rng.random() < 0.6 else [x, g]
            yield ("run", t, rng.choice(S.STARTS), rng.choice([None, 12 * t]), [], other + specs)

    def corpus(self):
        y = ([], ("yield", 0.0))
        # boss removes [worker, helper]; worker's exit hook removes its helper and itself; and a hook that re-adds
        extra = [("run", 1.0, 0.0, 5.0, [], [("leaf", 1, "doify", "ok", [y, ([("remove", [2, 3])], ("yield", 0.0)), y, y]),
                                             ("leaf", 2, "plain", "ok", [y] * 6 + [([("remove", [3, 2])], "onexit")]),
                                             ("leaf", 3, "bound", "ok", [y] * 6)]),
                 ("run", 1.0, 0.0, 5.0, [("leaf", 7, "doify", "ok", [y] * 3)],
                  [("group", 9, 0.0, True, [("leaf", 1, "doify", "ok", [y, ([("remove", [3, 2])], ("yield", 0.0)), y, y]),
                                            ("leaf", 2, "genrecur", "ok", [y] * 6 + [([("remove", [2])], "oncease"), ([("extend", [0])], "onexit")]),
                                            ("leaf", 3, "doize", "ok", [y] * 6)], [("leaf", 8, "bound", "ok", [y] * 2)])])]
        return super().corpus() + extra
    rule = ("as C01 with the op-heavy profile: extend/remove issued from inside running doers on their own scheduler (Doist, DoDoer, DoDoer(always)), targets = self, earlier/later siblings, "
            "completed, absent, pool doers, duplicates, out-of-range pool index, several ops per step, failing enter inside extend.  non-trivial = at least one op returned and >=12 events; distinct by request line")

    def exhaustive(self, tier):
        if tier != "thorough":
            return [], None
        return S.exhaustive_scope(), S.EXH_NAME

    def nontrivial(self, case, obs):
        return len(obs.d["trace"]) >= 12 and any(e[1] == "doers" for e in obs.d["trace"])

    def oracle(self, case, obs):
        case = S.expand_star(case)
        if S.model3(case):
            return clauses_nested(case, obs.d)
        return clauses(case, obs.d)


CHECK = C06()
