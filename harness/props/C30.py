"""C30 — running a Doist under asyncio (Doist.ado) gives the same schedule as the blocking loop (Doist.do), non-real-time mode."""
from .. import core, sx
from ..areas import sched as S
from ..areas import schedt as T
from ..extract import sched_skeleton as XS


class C30(S.SchedCheck):
    pid = "C30"
    props_mod = "HioModel.Props.C30"
    design_ref = "DESIGN.md §5 C30"
    quick_n = 400
    thorough_n = 12000
    workers = 1
    technique = ("adoLoop written from Doist.ado's own loop (extra await where arbitrary other tasks act on a disjoint world) proved equal to doLoop for every program; "
                 "translator: statement skeletons of Doist.do and Doist.ado extracted from the AST on every run, `decide`d equal modulo the await and the AsyncTimer/MonoTimer identification; "
                 "correspondence + oracle: the same program through doist.do() and through asyncio's run_until_complete(doist.ado()) on a SelectorEventLoop")
    level_text = ("ado_eq_do: for every time type, program (ops, faults, nesting), pool, tock, start, limit, fuel, and every behaviour of other asyncio tasks at the await, "
                  "doistAdo returns exactly doistDo's Final (events, done, tyme, raised, doers, cycles); ado_leaves_world_to_env: the world is env applied once per completed cycle; "
                  "ado_cancelled_is_stopped_do: an ado task cancelled at its (j+1)-th await leaves the trace/tyme/cycles of doistDo with fuel j+1 and done False (so every for-all-fuel theorem of C01/C02 applies).  "
                  "skeleton_ado_matches_do / skeleton_do_is_modelled / ado_timer_is_init_timer are `decide`d over Gen/DoSkeleton.lean, regenerated from src/hio/base/doing.py: "
                  "reordering the deeds-empty / limit checks, moving the await, or changing either loop's statements breaks the build.")
    level_note = "real-time mode (AsyncTimer pacing) is not modelled (C07 covers pacing for do()); KeyboardInterrupt delivered by the event loop itself (not raised by a doer) is not modelled"
    profiles = ("mixed", "ops", "faults", "time", "plain")
    trusted_base = S.SchedCheck.trusted_base + [
        "translator harness/extract/sched_skeleton.py (Python ast of Doist.do / Doist.ado / Doist.__init__ -> token lists)",
        "oracle: equality of the observations of two REAL runs (do / ado) of the same program"]
    assumptions = ["real = False",
                   "other asyncio tasks cannot reach scheduler state (they act on a disjoint world in the model; none are scheduled in the harness run)",
                   "asyncio.SelectorEventLoop, CPython 3.12"] + S.SchedCheck.assumptions
    rule = ("all profiles of the family (mixed ops faults time plain: extend/remove ops, raise/kbint/failing enter, nesting, limits incl. 0/negative/non-multiples) + timing profiles of C03 "
            "+ family corpus; every case is run twice on the real code (do, ado); ~a quarter of the cases reach the program through a history / other entry point (schedt.run_var variants), ~12% are points of the constructor x call-argument GRID (temp None/False/True on both sides, limit/tyme given or defaulted incl. 0, doers at construction or at the call, real, a doer re-setting Doist.limit in mid run) run with doers that log the injected temp / tock / tymth (oracle only); ~18% are HISTORIES of 2-3 runs on ONE Doist object (limit given as an argument or not at all — sticky —, new doers= / none, tyme= or continuing, stale deeds from a hand-made enter() without exit()), executed all-through-do, all-through-ado, with all ado coroutine objects built ahead and awaited later in order, and alternating, every run compared pairwise (oracle only, driver answers (unmodelled)); another quarter additionally fix a cycle j at whose await a second asyncio task cancels the ado task.  non-trivial = as C01 or >= 10 recur events; distinct by request line")

    focus = ()

    def extract(self):
        out = XS.extract()
        self.focus = tuple(T.skeleton_focus())      # non-empty only when ado's skeleton no longer normalises to do's
        return out

    def grid_case(self, rng):
        f = rng.choice(self.focus) if self.focus and rng.random() < 0.8 else None
        g = dict(T.gen_grid(rng, f))
        if f == "temp":          # the full constructor x call grid of the temp flag, doers without a temp of their own
            g["c_temp"], g["a_temp"] = rng.choice([None, False, True]), rng.choice(["omit", None, False, True])
            g["doers"] = [(d[0], rng.choice([None, None, False]), d[2], d[3]) for d in g["doers"]]
        elif f == "limit":
            g["c_limit"] = rng.choice([None, 0, 2 * g["tock"], 0.5])
            g["a_limit"] = rng.choice(["omit", None, 0, 3 * g["tock"], 0.3])
            g["c_tyme"] = rng.choice([0.0, 0.4, 0.3])
        elif f == "tyme":
            g["a_tyme"] = rng.choice(["omit", 0, 0.0, 0.4, 2.5])
        elif f == "doers":
            g["c_doers"], g["a_doers"] = True, rng.random() < 0.5
        return ("grid", tuple(sorted(g.items())))

    # a case is a run case ("run", ...), ("cancel", j, <run case>): the same program with the ado task cancelled at its (j+1)-th await,
    # or ("seq", (start1, limit1), <run case>): the doer objects were run before under another Doist; the SECOND runs (do / ado) are observed
    @staticmethod
    def base(case):
        if case[0] == "grid":
            return ("run", dict(case[1])["tock"], 0.0, None, [], [])
        return T.compile_waiters(case[2] if case[0] in ("cancel", "seq", "var", "hist") else case)

    def generate(self, rng, n, tier):
        for _ in range(n):
            k0 = rng.random()
            if k0 < 0.04:
                c = T.gen_degenerate(rng)
            elif k0 < 0.3:
                c = T.gen_timed(rng, rng.choice(["flat", "nested", "hetero", "f46"]))
            else:
                c = S.gen_case(rng, rng.choice(self.profiles))
            k = rng.random()
            if rng.random() < (0.5 if self.focus else 0.12):
                yield self.grid_case(rng)
                continue
            if k > 0.82 and len(c) == 6 and not S.has_always(list(c[5]) + list(c[4])):
                yield ("hist", T.gen_steps(rng, c), c)
            elif k < 0.25 and not S.unmodelled(c):
                yield ("cancel", rng.choice([0, 0, 1, 1, 2, 3, 5, 8]), c)
            elif k < 0.5 and len(c) == 6 and not S.unmodelled(c) and (c[3] is not None or not S.has_always(list(c[5]))):
                yield ("var", T.gen_var(rng, c), c)
            else:
                yield c

    def corpus(self):
        cs = list(S.CORPUS) + list(T.TIMING_CORPUS)
        return cs + [("cancel", j, c) for j in (0, 2) for c in cs[:6] + list(T.TIMING_CORPUS)[:5] if not S.unmodelled(c)] \
            + [("seq", (float(c[2]) + 5.0, 2.5 * float(c[1])), c) for c in T.TIMING_CORPUS] \
            + [("hist", [tuple(st) for st in steps], c) for steps in self.HIST_CORPUS_STEPS
               for c in (T.F46_WITNESS, T.TIMING_CORPUS[4], ("run", 1.0, 0.0, None, [], [T._lf(1, [0.0] * 9), T._lf(2, [0.0] * 9, "plain"), T._lf(3, [2.0] * 4, "genrecur")]))] \
            + self.grid_corpus() \
            + [("var", v, c) for c in (T.F46_WITNESS, T.TIMING_CORPUS[3], T.DEGENERATE_CORPUS[0]) for v in
               (("same", (5.0, 2.5, 2.0)), ("faulted-first", (5.0, 4.0)), ("wound", (50.0,)), ("ints",), ("iter",), ("init",), ("call",), ("manual",), ("opts",))]

    HIST_CORPUS_STEPS = (
        [("all", 3.0, None, None), ("all", None, 0.0, None)],                  # the limit given to run 0 is sticky: run 1 passes none
        [("all", 2.5, None, None), ("keep", None, None, None), ("first", 7.0, 0.0, None)],
        [("all", 3.0, None, None), ("rest", None, 0.0, "enter")],               # stale deeds: enter() by hand, no exit(), then doers=
        [("first", None, None, "enter-recur"), ("all", 4.0, None, None)],
    )

    def grid_corpus(self):
        base = dict(tock=0.1, real=False, c_tyme=0.0, c_limit=None, c_temp=None, c_doers=False, a_doers=True, a_limit="omit", a_tyme="omit",
                    a_temp="omit", doers=[("doer", None, 3, 0.0), ("fn", None, 2, 0.0), ("group", None, 2, 0.0)], setlimit=None)
        out = []
        for ct in (None, False, True):             # full constructor x call grid of temp
            for at in ("omit", None, False, True):
                out.append(dict(base, c_temp=ct, a_temp=at))
        long = [("fn", None, 40, 0.0), ("doer", None, 40, 0.0)]
        out.append(dict(base, c_limit=0.5, setlimit=(2, 1.0), doers=long))       # a doer re-sets Doist.limit in mid run: later,
        out.append(dict(base, c_limit=1.0, setlimit=(2, 0.3), doers=long))       # earlier,
        out.append(dict(base, a_limit=0.3, a_tyme=0.4, setlimit=(1, None), doers=long))   # or to None
        out.append(dict(base, tock=0.3, a_limit=0.6, a_tyme=0.3))    # non-dyadic limit boundary away from tyme 0
        out.append(dict(base, c_doers=True, a_doers=False, c_limit=0, a_limit="omit"))
        out.append(dict(base, tock=0.001, real=True, a_limit=0.004, doers=[("fn", None, 2, 0.0)]))
        return [("grid", tuple(sorted(g.items()))) for g in out]

    def request(self, case):
        if case[0] in ("hist", "grid"):
            return ("unmodelled",)
        if case[0] == "cancel":
            return T.request_head("adocancel", self.base(case), ("cancel", case[1]))
        return T.request_head("doado", self.base(case))

    def run_impl(self, case):
        with T.waiters():
            return self._run_impl(case)

    def _run_impl(self, case):
        T.settle_heap()
        if case[0] == "grid":
            return T.GridObs(T.run_grid(case[1], "do"), T.run_grid(case[1], "ado"))
        if case[0] == "hist":
            steps, c = case[1], case[2]
            n = len(steps)
            alt = ["do" if k % 2 == 0 else "ado" for k in range(n)]
            return T.HistObs({"all-do": T.run_hist(c, steps, ["do"] * n), "all-ado": T.run_hist(c, steps, ["ado"] * n),
                              "ado-coroutines-built-ahead": T.run_hist_prebuilt(c, steps),
                              "do-ado-alternating": T.run_hist(c, steps, alt),
                              "ado-do-alternating": T.run_hist(c, steps, ["ado" if m == "do" else "do" for m in alt])})
        if case[0] == "cancel":
            return T.CancelObs(S.run_program(case[2], "do"), T.run_cancelled(case[2], case[1]))
        if case[0] in ("seq", "var"):
            v = ("seq", case[1]) if case[0] == "seq" else case[1]
            return T.PairObs(T.run_var(case[2], v, "do"), T.run_var(case[2], v, "ado"))
        return T.PairObs(S.run_program(case, "do"), S.run_program(case, "ado"))

    def shrink(self, case):
        if case[0] == "cancel":
            for j in range(case[1]):
                yield ("cancel", j, case[2])
            for c in super().shrink(case[2]):
                yield ("cancel", case[1], c)
        elif case[0] == "grid":
            g = dict(case[1])
            simpler = dict(c_tyme=0.0, c_limit=None, c_temp=None, c_doers=False, a_doers=True, a_limit="omit", a_tyme="omit", a_temp="omit",
                           setlimit=None, real=False)
            for k, v in simpler.items():
                if g[k] != v and not (k == "a_doers" and not g["c_doers"]):
                    g2 = dict(g)
                    g2[k] = v
                    if g2["c_doers"] or g2["a_doers"]:
                        yield ("grid", tuple(sorted(g2.items())))
            if len(g["doers"]) > 1:
                for k in range(len(g["doers"])):
                    g2 = dict(g)
                    g2["doers"] = g["doers"][:k] + g["doers"][k + 1:]
                    yield ("grid", tuple(sorted(g2.items())))
            for k, d in enumerate(g["doers"]):
                if d[0] != "fn" or d[2] > 1 or d[3] != 0.0:
                    g2 = dict(g)
                    g2["doers"] = g["doers"][:k] + [("fn", d[1], 1, 0.0)] + g["doers"][k + 1:]
                    yield ("grid", tuple(sorted(g2.items())))
        elif case[0] == "hist":
            steps = list(case[1])
            for k in range(len(steps)):
                if len(steps) > 1:
                    yield ("hist", steps[:k] + steps[k + 1:], case[2])
            for k, st in enumerate(steps):
                if st[3] is not None:
                    yield ("hist", steps[:k] + [(st[0], st[1], st[2], None)] + steps[k + 1:], case[2])
                if st[2] is not None:
                    yield ("hist", steps[:k] + [(st[0], st[1], None, st[3])] + steps[k + 1:], case[2])
            for c in super().shrink(case[2]):
                if not S.has_always(list(c[5]) + list(c[4])):
                    yield ("hist", steps, c)
        elif case[0] in ("seq", "var"):
            yield case[2]
            for c in super().shrink(case[2]):
                if T.var_ok(("seq", case[1]) if case[0] == "seq" else case[1], c):
                    yield (case[0], case[1], c)
        else:
            yield from super().shrink(case)

    def mutate(self, rng, case):
        if case[0] in ("hist", "grid"):
            return [self.grid_case(rng) for _ in range(40)] if self.focus else []
        if case[0] in ("seq", "var"):
            return [(case[0], case[1], c) for c in super().mutate(rng, case[2]) if T.var_ok(("seq", case[1]) if case[0] == "seq" else case[1], c) and not S.unmodelled(c)]
        if case[0] == "cancel":
            return [("cancel", case[1], c) for c in super().mutate(rng, case[2]) if not S.unmodelled(c)]
        return super().mutate(rng, case)

    def nontrivial(self, case, obs):
        return super().nontrivial(self.base(case), obs) or sum(1 for e in obs.a["trace"] if e[1] == "recur") >= 10

    def features(self, case, obs):
        f = super().features(self.base(case), obs)
        if case[0] == "cancel":
            f.append("cancel:" + ("delivered" if obs.b["raised"] == "cancelled" else "run-ended-first"))
        if case[0] in ("seq", "var"):
            f.append("variant:" + ("seq" if case[0] == "seq" else case[1][0]))
        if case[0] == "grid":
            g = dict(case[1])
            f += ["grid", "grid:c_temp=%r,a_temp=%r" % (g["c_temp"], g["a_temp"]), "grid:real=%r" % g["real"],
                  "grid:limit ctor=%s call=%s" % ("none" if g["c_limit"] is None else "set", g["a_limit"] if g["a_limit"] in ("omit", None) else "set"),
                  "grid:doers ctor=%r call=%r" % (g["c_doers"], g["a_doers"])]
            if g["setlimit"]:
                f.append("grid:doer-resets-doist-limit-in-mid-run")
        if case[0] == "hist":
            f.append("history:%d-runs" % len(case[1]))
            if any(st[3] for st in case[1]):
                f.append("history:stale-deeds")
            if any(st[1] is None for st in case[1][1:]) and any(st[1] is not None for st in case[1]):
                f.append("history:sticky-limit")
        return f

    def oracle(self, case, obs):
        if case[0] == "grid":
            return T.c30_grid_clauses(obs.a, obs.b)
        if case[0] == "hist":
            return T.c30_hist_clauses(obs.runs)
        if case[0] == "cancel":
            return T.c30_cancel_clauses(case[2], case[1], obs.a, obs.b)
        return T.c30_clauses(obs.a, obs.b)


CHECK = C30()
