"""C30 — running a Doist under asyncio (Doist.ado) gives the same schedule as the blocking loop (Doist.do), non-real-time mode."""
from .. import core, sx
from ..areas import sched as S
from ..areas import schedt as T
from ..extract import sched_skeleton as XS


class C30(S.SchedCheck):
    pid = "C30"
    props_mod = "HioModel.Props.C30"
    design_ref = "DESIGN.md §5 C30"
    quick_n = 400
    thorough_n = 12000
    workers = 1
    technique = ("adoLoop written from Doist.ado's own loop (extra await where arbitrary other tasks act on a disjoint world) proved equal to doLoop for every program; "
                 "translator: statement skeletons of Doist.do and Doist.ado extracted from the AST on every run, `decide`d equal modulo the await and the AsyncTimer/MonoTimer identification; "
                 "correspondence + oracle: the same program through doist.do() and through asyncio's run_until_complete(doist.ado()) on a SelectorEventLoop")
    level_text = ("ado_eq_do: for every time type, program (ops, faults, nesting), pool, tock, start, limit, fuel, and every behaviour of other asyncio tasks at the await, "
                  "doistAdo returns exactly doistDo's Final (events, done, tyme, raised, doers, cycles); ado_leaves_world_to_env: the world is env applied once per completed cycle.  "
                  "skeleton_ado_matches_do / skeleton_do_is_modelled / ado_timer_is_init_timer are `decide`d over Gen/DoSkeleton.lean, regenerated from src/hio/base/doing.py: "
                  "reordering the deeds-empty / limit checks, moving the await, or changing either loop's statements breaks the build.")
    level_note = "real-time mode (AsyncTimer pacing) is not modelled (C07 covers pacing for do()); KeyboardInterrupt delivered by the event loop itself (not raised by a doer) is not modelled"
    profiles = ("mixed", "ops", "faults", "time", "plain")
    trusted_base = S.SchedCheck.trusted_base + [
        "translator harness/extract/sched_skeleton.py (Python ast of Doist.do / Doist.ado / Doist.__init__ -> token lists)",
        "oracle: equality of the observations of two REAL runs (do / ado) of the same program"]
    assumptions = ["real = False",
                   "other asyncio tasks cannot reach scheduler state (they act on a disjoint world in the model; none are scheduled in the harness run)",
                   "asyncio.SelectorEventLoop, CPython 3.12"] + S.SchedCheck.assumptions
    rule = ("all profiles of the family (mixed ops faults time plain: extend/remove ops, raise/kbint/failing enter, nesting, limits incl. 0/negative/non-multiples) + timing profiles of C03 "
            "+ family corpus; every case is run twice on the real code (do, ado).  non-trivial = as C01 or >= 10 recur events; distinct by request line")

    def extract(self):
        return XS.extract()

    def corpus(self):
        return list(S.CORPUS) + list(T.TIMING_CORPUS)

    def generate(self, rng, n, tier):
        for _ in range(n):
            if rng.random() < 0.3:
                yield T.gen_timed(rng, rng.choice(["flat", "nested", "hetero", "f46"]))
            else:
                yield S.gen_case(rng, rng.choice(self.profiles))

    def request(self, case):
        return T.request_head("doado", case)

    def run_impl(self, case):
        T.settle_heap()
        return T.PairObs(S.run_program(case, "do"), S.run_program(case, "ado"))

    def nontrivial(self, case, obs):
        return super().nontrivial(case, obs) or sum(1 for e in obs.a["trace"] if e[1] == "recur") >= 10

    def oracle(self, case, obs):
        return T.c30_clauses(obs.a, obs.b)


CHECK = C30()
