"""C22 — memo receivers survive arbitrary datagrams and accept only authentic memos (Memoer.wiff/pick/verify, _serviceOneReceived, fuse)."""
from .. import core, sx
from ..areas import memo as A
from ..extract import memo as xmemo


def _text(rng, n):
    alph = ["a", "b", "z", " ", "é", "ß", "ж", "中", "𝄞", "\n", "0", "_", "-", "\x00", "\x7f", "\x80", "ÿ", "\u2028", "\ufeff", "😀", "=", "\r"]
    return "".join(rng.choice(alph) for _ in range(n)).encode()


def build_memo(code, curt, mid, text, ki, zb, nb, vk=None):
    """the genuine grams of one memo with body sizes zb (zeroth) / nb (others), by the reference builder; signed with key ki,
    claiming the vid of key vk (default: its own)"""
    parts = [text[:zb]] + [text[i:i + nb] for i in range(zb, len(text), nb)]
    gs = [A.ref_gram(code, curt, mid, len(parts), parts[0], ki=ki, vid_in_gram=A.key(vk)["vid"] if vk is not None and code in A.SIGNED else None)]
    for n, b in enumerate(parts[1:], 1):
        gs.append(A.ref_gram(A.PAIR[code], curt, mid, n, b, ki=ki))
    return gs


class C22(core.Check):
    pid = "C22"
    pkg = "Memo"
    props_mod = "HioModel.Props.C22"
    design_ref = "DESIGN.md §5 C22, §7 F36"
    technique = ("Lean 4 theorems over a model of Memoer.pick / _serviceOneReceived / fuse / _serviceOnceRxGrams with every raising operation "
                 "carrying its exception class and the except-clause class sets regenerated from the source; signature verification abstract; "
                 "differential fuzz (all truncations, single-byte mutations, structured malformed grams, random bytes) against the real Memoer with real pysodium")
    level_text = ("Proved for ALL datagram byte strings, ALL receiver states, ALL histories of service calls and ALL verify functions V (unbounded): "
                  "rx_total / service_total / history_total (nothing raises out of _serviceOneReceived, serviceAllRx, or any history, provided V itself "
                  "raises only classes the except clause stops — hypothesis VSafe, checked on every sampled call), parse_classes_caught (decide over the "
                  "regenerated except-clause class sets), rx_invalid_dropped (a rejected gram leaves the state unchanged), authentic (authic, from the empty "
                  "state, any history: every delivered memo has a vid and its text is a concatenation of bodies each lying in a signed part that passed V under "
                  "that vid; same for every stored gram; needs V [] _ _ != ok), authic_requires_verified, tampered_dropped (a datagram whose signed pair verifies "
                  "under no vid leaves the receiver unchanged) with signed_pair_determines_gram (so every single-byte mutation has a different signed pair: "
                  "dropped under unforgeability). WHICH KEY (Memoer.verify itself is now modelled, verifyM over the receiver's keep; only Base64 material "
                  "decoding and the ed25519 check stay parameters): verify_key_authority (acceptance means the check passed under the key embedded in the id "
                  "for non-transferable 'B' ids ONLY, otherwise under the key the keep holds for the id), verify_unknown_id_rejected ('D'/'E' id absent from "
                  "the keep), verify_retired_key_rejected (rotated id: a signature good only under the embedded, retired key is refused), verifyM_safe, "
                  "authentic_keyed (authentic with the key spelled out); KEY MANAGEMENT BETWEEN PASSES (model runKeyed: batches and keep updates, verify over "
                  "the keep current at each step): verify_depends_only_on_current_keep (no key state besides the keep), setKeep_lookup, "
                  "verify_after_rotation (after keep[vid] := q2 only the key of q2 counts, whatever was verified before), keyed_history_total. Nothing is _partial; unforgeability of ed25519 and the internals of Memoer.verify are hypotheses, "
                  "exercised by the correspondence with real pysodium.")
    level_note = ("Trusted: Lean kernel + propext/Classical.choice/Quot.sound; translator harness/extract/memo.py; the decoding of qualified Base64 material and the ed25519 check inside "
                  "Memoer.verify are parameters of the model, tabulated by an independent reference in the harness (stdlib base64 + pysodium) for every "
                  "(vid, sig, ser) the real run asked about and every candidate key; the key choice / keep lookup is model code compared with the real run; CPython utf-8 decoding modelled by a validity predicate. "
                  "Pre-finding F36 (seven escaping exception classes/sites) reproduced and repaired (fix/memo aaacb0a, 1ba99d0).")
    quick_n = 700
    thorough_n = 12000
    rule = ("service calls are serviceAllRx / service() / serviceAllRxOnce / serviceReceives+serviceRxGrams with close / reopen in between, on a Memoer, an AuthMemoer or the real udp / uxd PeerMemoer.receive over a scripted socket, next to a neighbour instance; cases: 1..3 genuine memos (4 zeroth codes, both encodings, keys with 'B' and 'D' vids) built by the reference builder, delivered in 1..4 "
            "batches with one of: single-byte mutation at a random/structural position, truncation, structured malformed grams (unknown/ack codes, bad "
            "Base64 digits, non-UTF-8 code/mid/vid/body, gram number >= count, count 0, wrong-key / swapped / foreign signatures, unsigned grams when "
            "authic, attacker zeroth gram first, empty datagram), random bytes (biased to pass wiff); signers include strangers (a 'D' id absent "
            "from the keep) and a ROTATED 'D' identifier (keep holds key 6 for the id of key 7): memos signed with the retired key, and with the current one; "
            "a quarter of the cases CHANGE the keep between service passes (rotate / revoke / restore the key of a 'D' id already heard from) and go on.  non-trivial = at least one datagram is not a "
            "genuine gram; distinct by request line")
    trusted_base = ["translator harness/extract/memo.py (Sizes, codexes, except-clause class sets)",
                    "correspondence harness/props/C22.py: compiled model vs real Memoer (echo transport, real pysodium)",
                    "reference verify / gram parser in harness/areas/memo.py (oracle side)"]
    assumptions = ["Memoer.verify raises only MemoerError, MemoerVerifyError, UnicodeDecodeError or binascii.Error (checked on every sampled call)",
                   "ed25519: a (msg, sig) pair not produced by the key holder does not verify (hypothesis of tampered_dropped, exercised with real pysodium)"]

    def __init__(self):
        self._tab = {}

    def extract(self):
        return xmemo.extract()

    # ---- cases: ("rx", authic, batches, note) ; batches: list of list of (datagram, src)
    def corpus(self):
        m = A.mid_of(4)
        z = A.ref_gram("bAAA", False, m, 2, b"ab")
        sg = build_memo("bAAC", False, A.mid_of(5), b"hello world", 0, 6, 50)
        sgb = build_memo("bAAG", True, A.mid_of(6), "héllo wörld".encode(), 1, 5, 4)
        sg2 = build_memo("bAAC", False, A.mid_of(17), b"three gram signed memo", 0, 6, 8)[:3] if False else build_memo("bAAC", False, A.mid_of(17), b"abcdefghijklmnopq", 0, 6, 6)
        sgb2 = build_memo("bAAG", True, A.mid_of(18), b"abcdefghijklmnopq", 3, 6, 6)
        bad = bytearray(sg[0]); bad[40] = ord("!")
        bads = bytearray(sg[0]); bads[-5] = ord("!")
        badf = bytearray(sg[0]); badf[40] = 0xff
        return [
            ("rx", False, [[(b"bZZZ" + b"A" * 40, 1)]], "unknown code"),
            ("rx", False, [[(b"bAAA" + b"!!!!" + m.encode() + b"body", 1)]], "bad b64 digit"),
            ("rx", False, [[(b"bAAA" + "A\u00e9A".encode() + m.encode() + b"body", 1)]], "neck holds a valid 2-byte utf-8 sequence"),
            ("rx", False, [[(b"bAAB" + "\u4e2dA".encode() + m.encode() + b"body", 1), (b"bAAA" + "\U0001F600".encode() + m.encode() + b"body", 2)]], "3- and 4-byte sequences in the neck"),
            ("rx", True, [[(b"bAAC" + "AA\u00e9".encode() + m.encode() + A.key(0)["vid"].encode() + b"body" + b"0B" + b"A" * 86, 1)]], "neck utf-8, signed code"),
            ("rx", False, [[(b"b\xff\xfe\xfd" + b"A" * 40, 1)]], "non utf-8 code"),
            ("rx", False, [[(b"bAABAAAB" + b"\xff" * 24 + b"x", 1)]], "non utf-8 mid"),
            ("rx", False, [[(b"bAAIAAAA" + m.encode(), 1)]], "ack"),
            ("rx", True, [[(A.ref_gram("bAAC", False, m, 1, b"x", ki=0)[:4].replace(b"C", b"J") + A.ref_gram("bAAC", False, m, 1, b"x", ki=0)[4:], 1)]], "ackauth"),
            ("rx", False, [[(bytes([0x6f, 0xff, 0xff]) + b"A" * 40, 1)]], "b2 unknown code"),
            ("rx", False, [[(z, 1), (A.ref_gram("bAAB", False, m, 5, b"cd"), 1)]], "gram number >= count"),
            ("rx", False, [[(A.ref_gram("bAAA", False, m, 1, b"\xff\xfe"), 1)], [(z, 1)]], "memo not utf-8, then service again"),
            ("rx", False, [[(A.ref_gram("bAAA", False, m, 0, b"zz"), 1)]], "count 0"),
            ("rx", False, [[(A.ref_gram("bAAA", False, A.mid_of(30), 1, b"good memo"), 1), (A.ref_gram("bAAA", False, A.mid_of(31), 1, b"\xff\xfe not text"), 2)]], "non-text memo fuses right after a good one"),
            ("rx", False, [[(A.ref_gram("bAAE", True, A.mid_of(32), 2, b"good "), 3), (A.ref_gram("bAAE", True, A.mid_of(33), 1, b"\xc3("), 3), (A.ref_gram("bAAF", True, A.mid_of(32), 1, b"memo"), 3)]], "… same source, b2"),
            ("rx", True, [[(bytes(bad), 1)], [(bytes(bads), 1)], [(bytes(badf), 1)]], "junk in vid / sig"),
            ("rx", True, [[(g, 1) for g in sg]], "genuine signed"),
            ("rx", True, [[(g, 2) for g in sgb]], "genuine signed b2, D vid"),
            ("rx", True, [[(sg[0], 1), (b"", 1), (sg[0], 1)], []], "empty datagram stops the loop"),
            ("rx", True, [[(z, 1), (A.ref_gram("bAAB", False, m, 1, b"cd"), 1)]], "unsigned when authic"),
            # downgrade: the zeroth gram of a signed memo is accepted, then a later gram with the UNSIGNED code names its mid, before the genuine one
            ("rx", True, [[(sg2[0], 1), (A.ref_gram("bAAB", False, A.mid_of(17), 1, b"EVIL!"), 1), (sg2[1], 1), (sg2[2], 1)]], "downgraded later gram, b64"),
            ("rx", True, [[(sgb2[0], 3)], [(A.ref_gram("bAAF", True, A.mid_of(18), 2, b"EVIL!"), 3), (sgb2[1], 3)], [(sgb2[2], 3)]], "downgraded later gram, b2"),
            ("rx", True, [[(sg2[0], (1)), (A.ref_gram("bAAF", False, A.mid_of(17), 2, b"EVIL!"), 1), (sg2[1], 1)]], "downgraded, genuine one never comes"),
            ("rx", True, [[(g, 1) for g in build_memo("bAAC", False, A.mid_of(8), b"retired key signs", 7, 6, 50)]], "rotated 'D' vid, retired key: rejected"),
            ("rx", True, [[(g, 1) for g in build_memo("bAAC", False, A.mid_of(9), b"current key signs", 6, 6, 50, 7)]], "rotated 'D' vid, current key: delivered"),
            ("rx", True, [[(g, 1) for g in build_memo("bAAG", True, A.mid_of(10), b"stranger D vid", 5, 6, 50)]], "'D' vid absent from the keep: rejected"),
            # key rotation BETWEEN service passes: memo 1 under key 1 delivered, keep[vid 1] := key 6, memo 2 under key 6 must be delivered,
            # a memo still signed with retired key 1 refused
            ("rx", True, [("all", [(g, 1) for g in build_memo("bAAC", False, A.mid_of(11), b"before rotation", 1, 6, 50)]), ("keep", 1, 6),
                          ("all", [(g, 1) for g in build_memo("bAAC", False, A.mid_of(12), b"after rotation", 6, 6, 50, 1)]),
                          ("all", [(g, 1) for g in build_memo("bAAG", True, A.mid_of(13), b"retired key", 1, 6, 50)])], "rotation history"),
            ("rx", True, [("all", [(g, 2) for g in build_memo("bAAG", True, A.mid_of(14), b"known", 3, 6, 50)]), ("keep", 3, None),
                          ("all", [(g, 2) for g in build_memo("bAAG", True, A.mid_of(15), b"revoked", 3, 6, 50)]), ("keep", 3, 3),
                          ("once", [(g, 2) for g in build_memo("bAAC", False, A.mid_of(16), b"restored", 3, 3, 50)][:1]), ("all", [])], "revoked then restored"),
        ]

    def exhaustive(self, tier):
        sg = build_memo("bAAC", False, A.mid_of(5), b"hello world", 0, 6, 50)
        sb = build_memo("bAAG", True, A.mid_of(6), b"hello world", 2, 6, 50)
        ug = build_memo("bAAA", False, A.mid_of(7), b"hello world", None, 6, 50)
        cs = []
        step = 1 if tier == "thorough" else 7
        for gs, au in ((sg, True), (sb, True), (ug, False)):
            for k in (0, 1):
                g = gs[k]
                for cut in range(0, len(g), step):                       # every truncation
                    b = [(gs[0], 1), (gs[1], 1)]
                    b[k] = (g[:cut], 1)
                    cs.append(("rx", au, [b[:1], b[1:]], "trunc"))
                for pos in range(0, len(g), step):                       # a single-byte mutation at every position
                    for x in ((0x01, 0x80) if tier == "thorough" else (0x01,)):
                        m = bytearray(g); m[pos] ^= x
                        b = [(gs[0], 1), (gs[1], 1)]
                        b[k] = (bytes(m), 1)
                        cs.append(("rx", au, [b], "mut1"))
        # header fields overwritten with VALID multi-byte UTF-8 (2-, 3-, 4-byte sequences): the field still decodes, to characters no table knows
        seqs = ["é".encode(), "中".encode(), "😀".encode()]
        for gs, au in ((sg, True), (ug, False), (sb, True)):
            for k in (0, 1):
                g = gs[k]
                head = min(len(g), 4 + 4 + 24 + (44 if (k == 0 and au) else 0))
                spots = list(range(0, head)) + ([] if not au else list(range(len(g) - 88, len(g)))) if gs is not sb else list(range(0, min(len(g), 60)))
                for pos in spots:
                    if not (pos < 12 or tier == "thorough" or pos % 5 == 0):      # code and neck at every offset, the long fields sampled in quick
                        continue
                    for q_ in seqs:
                        if pos + len(q_) <= len(g):
                            m = bytearray(g); m[pos:pos + len(q_)] = q_
                            b = [(gs[0], 1), (gs[1], 1)]
                            b[k] = (bytes(m), 1)
                            cs.append(("rx", au, [b], "utf8-overwrite"))
        return cs, ("every truncation and a single-byte mutation at every position (xor 0x01, 0x80) of both grams of a signed b64, a signed b2 and an "
                    "unsigned memo; every header / signature offset overwritten with a valid 2-, 3-, 4-byte UTF-8 sequence" if tier == "thorough" else
                    "every 7th truncation / mutation position of three two-gram memos; code and neck at every offset (other header fields every 5th) "
                    "overwritten with a valid 2-, 3-, 4-byte UTF-8 sequence")

    def generate(self, rng, n, tier):
        for _ in range(n):
            authic = rng.random() < 0.6
            memos = []
            for j in range(rng.choice([1, 1, 2, 3])):
                code = rng.choice(A.ZCODES if not authic or rng.random() < 0.15 else ["bAAC", "bAAG"])
                curt = rng.random() < 0.5
                ki = rng.choice([0, 1, 2, 3, 4, 5, 6, 7, 7]) if code in A.SIGNED else None   # 4, 5 strangers (5: 'D' vid not in the keep);
                #   7: signs with the RETIRED key of the rotated 'D' identifier; 6: the current key of that identifier (claims vid 7 below)
                text = _text(rng, rng.choice([1, 2, 5, 12, 30, rng.randrange(1, 120)]))
                zb, nb = rng.choice([0, 1, 2, 3, 7, 20, 200]), rng.choice([1, 2, 5, 9, 33, 200])      # zb = 0: a zeroth gram with an empty body
                vk = A.ROTATED[0] if (ki == A.ROTATED[1] and rng.random() < 0.7) else None   # current key signing for the rotated identifier
                memos.append((build_memo(code, curt, A.mid_of(rng.randrange(1, 50)), text, ki, zb, nb, vk), rng.randrange(1, 4), code, curt, ki))
            stream = []
            for gs, src, code, curt, ki in memos:
                order = list(range(len(gs)))
                if rng.random() < 0.25:
                    rng.shuffle(order)
                for i in order:
                    stream.append((gs[i], src))
            # DOWNGRADE: after the zeroth gram of a signed memo, a later gram under the UNSIGNED sibling code names the same mid, before the genuine one
            for gs, src, code, curt, ki in memos:
                if code in A.SIGNED and len(gs) >= 2 and rng.random() < 0.6:
                    mid = A.ref_parse(gs[0])["mid"]
                    gn = rng.randrange(1, len(gs))
                    forged = A.ref_gram({"bAAC": "bAAB", "bAAG": "bAAF"}[code] if rng.random() < 0.8 else rng.choice(["bAAB", "bAAF"]), curt, mid, gn, b"EVIL" + bytes([48 + gn % 10]))
                    if (gs[0], src) in stream:
                        at = stream.index((gs[0], src)) + 1
                        stream.insert(at, (forged, rng.choice([src, src, rng.randrange(1, 4)])))
            # a header field overwritten with valid multi-byte UTF-8 (still decodable text, but no code / Base64 digit / id any table knows)
            for gs, src, code, curt, ki in memos:
                if rng.random() < 0.5:
                    g = rng.choice(gs)
                    q_ = rng.choice(["é", "ß", "中", "€", "😀", "𝄞"]).encode()
                    fld = rng.choice(["code", "neck", "neck", "mid", "vid", "sig"])
                    lo, hi = {"code": (0, 4), "neck": (4, 8), "mid": (8, 32), "vid": (32, 76), "sig": (max(0, len(g) - 88), len(g))}[fld]
                    if curt:
                        lo, hi = (3 * lo // 4, 3 * hi // 4) if fld != "sig" else (max(0, len(g) - 66), len(g))
                    pos = rng.randrange(lo, max(lo + 1, min(hi, len(g)) - len(q_) + 1))
                    if pos + len(q_) <= len(g):
                        m = bytearray(g); m[pos:pos + len(q_)] = q_
                        d = bytes(m)
                        if rng.random() < 0.5 and (g, src) in stream:
                            stream[stream.index((g, src))] = (d, src)
                        else:
                            stream.insert(rng.randrange(0, len(stream) + 1), (d, src))
            # malformed / hostile additions
            for _ in range(rng.choice([1, 1, 2, 3, 5])):
                gs, src, code, curt, ki = rng.choice(memos)
                g = rng.choice(gs)
                k = rng.random()
                pos = rng.randrange(0, len(stream) + 1)
                if k < 0.3:      # single-byte mutation (replace or insert before the genuine one)
                    m = bytearray(g)
                    where = rng.choice([rng.randrange(len(m)), rng.randrange(min(8, len(m))), len(m) - 1 - rng.randrange(min(66, len(m)))])
                    m[where] = rng.choice([m[where] ^ (1 << rng.randrange(8)), rng.randrange(256), 0xff, 0x21, 0x3d])
                    d = bytes(m)
                    if rng.random() < 0.6 and (g, src) in stream:
                        stream[stream.index((g, src))] = (d, src)
                    else:
                        stream.insert(pos, (d, src))
                elif k < 0.42:   # truncation
                    d = g[:rng.randrange(0, len(g))]
                    if rng.random() < 0.5 and (g, src) in stream:
                        stream[stream.index((g, src))] = (d, src)
                    else:
                        stream.insert(pos, (d, src))
                elif k < 0.55:   # random bytes, biased to pass wiff
                    ln = rng.choice([1, 2, 3, 4, 8, 31, 32, 33, 60, 120, 170, rng.randrange(1, 200)])
                    d = bytes(rng.randrange(256) for _ in range(ln))
                    if rng.random() < 0.8:
                        d = rng.choice([b"b", b"bAA", b"bAA" + bytes([rng.randrange(65, 76)]), bytes([0x6c]), bytes([0x6c, 0, rng.randrange(0, 16)]),
                                        bytes([0x60 + rng.randrange(4)]), bytes([0x6c + rng.randrange(4)])]) + d
                    stream.insert(pos, (d, rng.randrange(1, 4)))
                elif k < 0.63:   # gram number beyond the count / absurd count
                    mid = A.ref_parse(gs[0])["mid"]
                    if rng.random() < 0.5:
                        d = A.ref_gram(A.PAIR[code], curt, mid, len(gs) + rng.choice([0, 1, 5, 2 ** 24 - 1 - len(gs)]), b"xx", ki=ki)
                    else:
                        d = A.ref_gram(code, curt, mid, rng.choice([0, 1, len(gs) - 1, len(gs) + 1, 2 ** 24 - 1]), b"yy", ki=ki)
                    stream.insert(rng.choice([0, pos]), (d, src))
                elif k < 0.75:   # signature games: other key, swapped signature, attacker zeroth first
                    mid = A.ref_parse(gs[0])["mid"]
                    ak = rng.choice([0, 1, 2, 3, 4, 5])
                    m = rng.random()
                    if m < 0.35:     # attacker signs a non-zeroth gram of the victim's memo with its own key
                        d = A.ref_gram(A.PAIR[code] if code in A.SIGNED else "bAAD", curt, mid, rng.randrange(1, len(gs) + 1), b"EVIL", ki=ak)
                        stream.insert(pos, (d, src))
                    elif m < 0.6:    # attacker's own zeroth gram for the same mid, before everything
                        d = A.ref_gram(code if code in A.SIGNED else "bAAC", curt, mid, rng.choice([1, len(gs)]), b"EVIL", ki=ak)
                        stream.insert(rng.choice([0, pos]), (d, src))
                    elif m < 0.8 and code in A.SIGNED and len(gs) > 1:   # genuine body with the signature of another gram
                        p, q = A.ref_parse(gs[0]), A.ref_parse(gs[1])
                        d = A.ref_gram(code, curt, mid, p["num"], p["body"], ki=ki, sig=q["sig"])
                        stream.insert(rng.choice([0, pos]), (d, src))
                    else:            # zeroth gram claiming another vid than the signer's
                        d = A.ref_gram(code if code in A.SIGNED else "bAAC", curt, mid, len(gs), b"EVIL", ki=ak, vid_in_gram=A.key((ak + 2) % 6)["vid"])
                        stream.insert(rng.choice([0, pos]), (d, src))
                elif k < 0.85:   # structural: unknown / ack code, bad digit, non utf-8 parts
                    m = bytearray(g)
                    j = rng.random()
                    if j < 0.3 and not curt:
                        m[3] = rng.choice([ord("I"), ord("J"), ord("K"), ord("Z"), 0xc3, 0xff])
                    elif j < 0.4 and curt:
                        m[2] = rng.choice([8, 9, 10, 63, 0xff])
                    elif j < 0.6 and not curt:
                        m[4 + rng.randrange(4)] = rng.choice([ord("!"), ord("="), 0xe9, 0xff, ord("+")])
                    elif j < 0.8 and not curt:
                        m[8 + rng.randrange(24)] = rng.choice([0xff, 0xc3, 0x80])
                    else:
                        bodypos = len(m) - 1 - (66 if curt else 88) * (code in A.SIGNED)
                        m[max(0, bodypos)] = rng.choice([0xff, 0xc3, 0x80])
                    d = bytes(m)
                    if rng.random() < 0.5 and (g, src) in stream:
                        stream[stream.index((g, src))] = (d, src)
                    else:
                        stream.insert(pos, (d, src))
                elif k < 0.92:   # duplicates / replays
                    stream.insert(pos, (g, rng.randrange(1, 4)))
                else:            # empty datagram
                    stream.insert(pos, (b"", src))
            nb = rng.choice([1, 1, 2, 3, 4])
            cuts = sorted(rng.randrange(0, len(stream) + 1) for _ in range(nb - 1))
            batches, prev = [], 0
            for c in cuts + [len(stream)]:
                batches.append(stream[prev:c])
                prev = c
            if rng.random() < 0.3:
                batches.append([])
            # entry points and life cycle: serviceAllRx / service() / serviceAllRxOnce (one datagram, one memo per call), close / reopen in between
            ops = []
            style = rng.random()
            for b in batches:
                if style < 0.2:          # the non-greedy entry point: one call per datagram, then calls that only drain
                    ops += [("once", [x]) for x in b] or [("once", [])]
                else:
                    ops.append((rng.choice(["all", "all", "all", "svc", "once", "rxg"]), b))
                if rng.random() < 0.12:
                    ops += ["close", (rng.choice(["all", "once"]), [rng.choice(stream)] if stream and rng.random() < 0.6 else []), "reopen"]
            if style < 0.35:
                ops += [("once", [])] * rng.randrange(1, 5) + [("all", [])]
            if rng.random() < 0.25:     # key management between service passes: a transferable id heard before, its key rotated / revoked, heard again
                v = rng.choice([1, 3, 7])
                old = {1: 1, 3: 3, 7: 6}[v]
                new = rng.choice([6, 2, 4, None, old])
                code = rng.choice(["bAAC", "bAAG"])
                cu = rng.random() < 0.5
                mk = lambda k_, t_: [(g, 1) for g in build_memo(code, cu, A.mid_of(rng.randrange(100, 200)), t_, k_, rng.choice([1, 4, 50]), rng.choice([3, 50]), v)]
                first = ("all", mk(old, _text(rng, 8)))
                later = [("keep", v, new)]
                if new is not None:
                    later.append((rng.choice(["all", "svc", "once"]), mk(new, _text(rng, 9))))
                later.append((rng.choice(["all", "once"]), mk(old, _text(rng, 7))))                      # still signed with the previous key
                if rng.random() < 0.3:
                    later += [("keep", v, old), ("all", mk(old, _text(rng, 6)))]                           # rotated back
                pos = rng.randrange(len(ops) + 1)
                ops = ops[:pos] + [first] + ops[pos:] + later + [("once", []), ("all", [])]
            flavor = rng.choice(["memoer", "memoer", "memoer", "auth", "udp", "uxd"])
            greedy = all(isinstance(o, tuple) and (o[0] == "keep" or (o[0] in ("all", "svc") and all(g for g, _s in o[1]))) for o in ops)
            if greedy and rng.random() < 0.6:
                flavor = "shared"       # two instances sharing the application's reassembly dicts and keep, serviced alternately
            yield ("rx", authic, ops, "gen", flavor)

    # ---- running
    def _run(self, case):
        k = repr(case)
        if k not in self._tab:
            if len(self._tab) > 20000:
                self._tab.clear()
            authic, ops, flavor = case[1], case[2], (case[4] if len(case) > 4 else "memoer")
            self._tab[k] = A.run_rx(authic, ops, flavor)
        return self._tab[k]

    def run_impl(self, case):
        return self._run(case)[0]

    def request(self, case):
        authic = case[1]
        vtab = self._run(case)[1]
        ops = []
        for op in A.norm_ops(case[2]):
            if isinstance(op, str):
                ops.append(op)
            elif op[0] == "keep":
                ops.append(("keep", A.key(op[1])["vid"].encode(), A.key(op[2])["qvk"].encode() if op[2] is not None else None))
            else:
                ops.append((op[0] if op[0] in ("once", "rxg") else "all", tuple((bytes(g), s) for g, s in op[1])))
        return ("rx", ("authic", bool(authic))) + tuple(vtab) + (("batches",) + tuple(ops),)

    # ---- the property
    def oracle(self, case, obs):
        try:
            return self._oracle(case, obs)
        except Exception as ex:       # an observation this predicate cannot account for is a violation, never a crash
            return ["observation-not-accountable:" + type(ex).__name__]

    def _oracle(self, case, obs):
        authic = case[1]
        ops = [op for op in A.norm_ops(case[2])]
        bad = []
        states = A.keep_states(case[2])          # what the keep holds after 0, 1, … key management steps
        kidx = 0
        srcs = []                                # ((datagram, source id), parsed | None) of everything fed so far
        seen = []                                # (parsed datagram, index of the keep state in force when it arrived)
        extra = [o for o in obs if o and isinstance(o[0], str) and o[0] not in ("escape",)]
        if extra:
            return sorted({o[0] for o in extra})
        it = iter(obs)
        nsvc = 0
        opened, qlen = True, 0
        for op in ops:
            if isinstance(op, str):
                opened = (op == "reopen")
                continue
            if op[0] == "keep":
                kidx += 1
                continue
            nsvc += 1
            o = next(it, None)
            if o is None:
                bad.append("observation-shape")
                return bad
            if o[0] == "escape":
                bad.append("receive-servicing-raised:" + o[1])
                return bad
            for g, _s in op[1]:
                p_ = A.ref_parse(g)
                srcs.append(((g, _s), p_))
                if p_:
                    p_["k0"] = kidx
                    seen.append(p_)
            parsed = seen
            delivered, entries = o[0][1:], o[1][1:]
            qnow = o[2][1]
            if not opened and qnow != qlen + len(op[1]):
                bad.append("datagram-taken-while-closed")
            if opened and op[0] == "once" and qnow < qlen + len(op[1]) - 1:
                bad.append("once-took-more-than-one-datagram")
            qlen = qnow
            if op[0] == "once" and len(delivered) > 1:
                bad.append("once-delivered-more-than-one-memo")
            if op[0] == "rxg" and delivered:
                bad.append("memo-in-inbox-without-servicing-memos")
            for e in entries:
                if not any(p["mid"].encode() == e[0] for p in parsed):
                    bad.append("state-from-malformed-datagram")
            for text, _src, vid in delivered:
                if authic and vid is None:
                    bad.append("unsigned-memo-delivered-when-signed-required")
                    continue
                vids = [vid.decode()] if vid is not None else None
                ok = False
                okmids = set()
                for z in parsed:
                    if not z["zeroth"]:
                        continue
                    if authic and not (z["signed"] and z["vid"] == vids[0]):
                        continue
                    cand = vids if vids is not None else sorted({q["vid"] for q in parsed if q["zeroth"] and q["signed"] and q["mid"] == z["mid"]})

                    def good(p):
                        # verifies under a keep that was in force between the arrival of the datagram and now (it may have waited in the transport)
                        if not p["signed"]:
                            return not authic
                        return any(A.ref_verify({v_: (q_, None) for v_, q_ in states[k].items()}, v, p["sig"], p["fore"]) == "ok"
                                   for k in range(p["k0"], kidx + 1) for v in ([p["vid"]] if p["zeroth"] else cand))
                    zs = [q for q in parsed if q["zeroth"] and q["mid"] == z["mid"] and q["num"] == z["num"] and good(q)]
                    zs0 = zs + [q for q in parsed if not q["zeroth"] and q["mid"] == z["mid"] and q["num"] == 0 and good(q)]   # a later-code gram numbered 0
                    if not zs:
                        continue
                    if z["num"] == 0:
                        if bytes(text) == b"":
                            ok = True
                            okmids.add(z["mid"])
                        continue
                    parts = [list({q["body"] for q in zs0})]
                    for gn in range(1, z["num"]):
                        if gn > 4096:
                            parts = None
                            break
                        opts = {p["body"] for p in parsed if not p["zeroth"] and p["mid"] == z["mid"] and p["num"] == gn and good(p)}
                        if gn == 0:
                            pass
                        if not opts:
                            parts = None
                            break
                        parts.append(list(opts))
                    if parts is not None and A.can_assemble(bytes(text), parts):
                        ok = True
                        okmids.add(z["mid"])
                if not ok:
                    bad.append("delivered-memo-not-covered-by-valid-signatures" if authic else "delivered-memo-not-assembled-from-received-grams")
                elif _src not in {s_ for (g_, s_), p_ in srcs if p_ and p_["mid"] in okmids}:
                    bad.append("memo-delivered-under-a-source-none-of-its-grams-came-from")
            # exactly once per completion: one call cannot deliver the same record more often than zeroth grams have arrived so far
            for rec in set(delivered):
                n_ = list(delivered).count(rec)
                if n_ > 1:
                    mids_ = [p_["mid"] for (g_, s_), p_ in srcs if p_ and p_["zeroth"]]      # every zeroth datagram received so far (a memo that arrives again completes again: F33)
                    if n_ > len(mids_):
                        bad.append("memo-delivered-more-often-than-completed")
        if len(obs) != nsvc:
            bad.append("observation-shape")
        return bad

    def nontrivial(self, case, obs):
        try:
            return self._nontrivial(case, obs)
        except Exception:
            return True

    def _nontrivial(self, case, obs):
        return case[3] != "genuine" and any(not isinstance(op, str) and op[0] != "keep" and op[1] for op in A.norm_ops(case[2]))

    def features(self, case, obs):
        try:
            return self._features(case, obs)
        except Exception as ex:
            return ["features-failed:" + type(ex).__name__]

    def _features(self, case, obs):
        ops = A.norm_ops(case[2])
        svc = [op for op in ops if not isinstance(op, str) and op[0] != "keep"]
        f = ["authic" if case[1] else "open", f"calls~{min(len(svc), 9) // 3 * 3}", "flavor:" + (case[4] if len(case) > 4 else "memoer")]
        f += sorted({"entry:" + op[0] for op in svc}) + (["close/reopen"] if any(isinstance(op, str) for op in ops) else []) + (
            ["keep-changed-between-passes"] if any(not isinstance(op, str) and op[0] == "keep" for op in ops) else [])
        n = sum(len(op[1]) for op in svc)
        f.append(f"datagrams~{min(n, 12) // 3 * 3}")
        und = sum(1 for op in svc for g, _ in op[1] if A.ref_parse(g) is None)
        if any(len(o) > 3 and o[0] != "escape" and o[3][1] for o in obs if isinstance(o[0], tuple)):
            f.append("memo-pending-in-rxms")
        f.append("unparseable=" + ("0" if und == 0 else "1+" ))
        if any(isinstance(o[0], str) for o in obs):
            f += sorted({o[0] for o in obs if isinstance(o[0], str)})
        else:
            f.append(f"delivered={min(sum(len(o[0]) - 1 for o in obs), 3)}")
            f.append(f"left-entries={min(len(obs[-1][1]) - 1, 3)}" if obs else "no-batches")
        parts = {x[0]: x[1:] for x in self._run(case)[1]}
        f.append(f"verify-sigs~{min(len(parts['dsgn']), 8) // 2 * 2}")
        keepv = {v for v, _q in parts["keep"]}
        rot = A.key(A.ROTATED[0])["vid"].encode()
        for vid, r in parts["dvid"]:
            if r[0] == "ok":
                f.append("vid:" + chr(r[2]) + (":rotated" if vid == rot else (":in-keep" if vid in keepv else ":not-in-keep")))
            else:
                f.append("vid-undecodable:" + r[1])
        for _s, r in parts["dsgn"]:
            if r[0] != "ok":
                f.append("sig-undecodable:" + r[1])
        for _k, _s, _m, ok in parts["chk"]:
            f.append("ed25519:" + ("ok" if ok else "fail"))
        return f

    def shrink(self, case):
        authic, note, flavor = case[1], case[3], (case[4] if len(case) > 4 else "memoer")
        ops = A.norm_ops(case[2])
        mk = lambda o: ("rx", authic, o, note, flavor)
        for i in range(len(ops)):
            if len(ops) > 1:
                yield mk(ops[:i] + ops[i + 1:])
            if not isinstance(ops[i], str) and ops[i][0] != "keep":
                for j in range(len(ops[i][1])):
                    yield mk(ops[:i] + [(ops[i][0], ops[i][1][:j] + ops[i][1][j + 1:])] + ops[i + 1:])
                if ops[i][0] != "all":
                    yield mk(ops[:i] + [("all", ops[i][1])] + ops[i + 1:])
        if flavor != "memoer":
            yield ("rx", authic, ops, note, "memoer")

    def mutate(self, rng, case):
        authic, note, flavor = case[1], case[3], (case[4] if len(case) > 4 else "memoer")
        ops = A.norm_ops(case[2])
        out = list(self.shrink(case))
        out.append(("rx", not authic, ops, note, flavor))
        for i, op in enumerate(ops):
            if isinstance(op, str) or op[0] == "keep":
                continue
            for j, (g, s) in enumerate(op[1]):
                if g:
                    m = bytearray(g)
                    p = rng.randrange(len(m))
                    m[p] ^= 1 << rng.randrange(8)
                    out.append(("rx", authic, ops[:i] + [(op[0], op[1][:j] + [(bytes(m), s)] + op[1][j + 1:])] + ops[i + 1:], note, flavor))
        return out


CHECK = C22()
