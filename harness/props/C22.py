"""C22 — memo receivers survive arbitrary datagrams and accept only authentic memos (Memoer.wiff/pick/verify, _serviceOneReceived, fuse)."""
from .. import core, sx
from ..areas import memo as A
from ..extract import memo as xmemo


def _text(rng, n):
    alph = ["a", "b", "z", " ", "é", "ß", "ж", "中", "𝄞", "\n", "0", "_", "-"]
    return "".join(rng.choice(alph) for _ in range(n)).encode()


def build_memo(code, curt, mid, text, ki, zb, nb):
    """the genuine grams of one memo with body sizes zb (zeroth) / nb (others), by the reference builder"""
    parts = [text[:zb]] + [text[i:i + nb] for i in range(zb, len(text), nb)]
    gs = [A.ref_gram(code, curt, mid, len(parts), parts[0], ki=ki)]
    for n, b in enumerate(parts[1:], 1):
        gs.append(A.ref_gram(A.PAIR[code], curt, mid, n, b, ki=ki))
    return gs


class C22(core.Check):
    pid = "C22"
    pkg = "Memo"
    props_mod = "HioModel.Props.C22"
    design_ref = "DESIGN.md §5 C22, §7 F36"
    technique = ("Lean 4 theorems over a model of Memoer.pick / _serviceOneReceived / fuse / _serviceOnceRxGrams with every raising operation "
                 "carrying its exception class and the except-clause class sets regenerated from the source; signature verification abstract; "
                 "differential fuzz (all truncations, single-byte mutations, structured malformed grams, random bytes) against the real Memoer with real pysodium")
    level_text = ("Proved for ALL datagram byte strings, ALL receiver states, ALL histories of service calls and ALL verify functions V (unbounded): "
                  "rx_total / service_total / history_total (nothing raises out of _serviceOneReceived, serviceAllRx, or any history, provided V itself "
                  "raises only classes the except clause stops — hypothesis VSafe, checked on every sampled call), parse_classes_caught (decide over the "
                  "regenerated except-clause class sets), rx_invalid_dropped (a rejected gram leaves the state unchanged), authentic (authic, from the empty "
                  "state, any history: every delivered memo has a vid and its text is a concatenation of bodies each lying in a signed part that passed V under "
                  "that vid; same for every stored gram; needs V [] _ _ != ok), authic_requires_verified, tampered_dropped (a datagram whose signed pair verifies "
                  "under no vid leaves the receiver unchanged) with signed_pair_determines_gram (so every single-byte mutation has a different signed pair: "
                  "dropped under unforgeability). Nothing is _partial; unforgeability of ed25519 and the internals of Memoer.verify are hypotheses, "
                  "exercised by the correspondence with real pysodium.")
    level_note = ("Trusted: Lean kernel + propext/Classical.choice/Quot.sound; translator harness/extract/memo.py; Memoer.verify (pysodium, stdlib base64) is a "
                  "parameter of the model: its outcome per (vid, sig, ser) is taken from an independent reference implementation in the harness and the "
                  "real run is compared against it by the correspondence; CPython utf-8 decoding modelled by a validity predicate. "
                  "Pre-finding F36 (seven escaping exception classes/sites) reproduced and repaired (fix/memo aaacb0a, 1ba99d0).")
    quick_n = 700
    thorough_n = 12000
    rule = ("cases: 1..3 genuine memos (4 zeroth codes, both encodings, keys with 'B' and 'D' vids) built by the reference builder, delivered in 1..4 "
            "batches with one of: single-byte mutation at a random/structural position, truncation, structured malformed grams (unknown/ack codes, bad "
            "Base64 digits, non-UTF-8 code/mid/vid/body, gram number >= count, count 0, wrong-key / swapped / foreign signatures, unsigned grams when "
            "authic, attacker zeroth gram first, empty datagram), random bytes (biased to pass wiff).  non-trivial = at least one datagram is not a "
            "genuine gram; distinct by request line")
    trusted_base = ["translator harness/extract/memo.py (Sizes, codexes, except-clause class sets)",
                    "correspondence harness/props/C22.py: compiled model vs real Memoer (echo transport, real pysodium)",
                    "reference verify / gram parser in harness/areas/memo.py (oracle side)"]
    assumptions = ["Memoer.verify raises only MemoerError, MemoerVerifyError, UnicodeDecodeError or binascii.Error (checked on every sampled call)",
                   "ed25519: a (msg, sig) pair not produced by the key holder does not verify (hypothesis of tampered_dropped, exercised with real pysodium)"]

    def __init__(self):
        self._tab = {}

    def extract(self):
        return xmemo.extract()

    # ---- cases: ("rx", authic, batches, note) ; batches: list of list of (datagram, src)
    def corpus(self):
        m = A.mid_of(4)
        z = A.ref_gram("bAAA", False, m, 2, b"ab")
        sg = build_memo("bAAC", False, A.mid_of(5), b"hello world", 0, 6, 50)
        sgb = build_memo("bAAG", True, A.mid_of(6), "héllo wörld".encode(), 1, 5, 4)
        bad = bytearray(sg[0]); bad[40] = ord("!")
        bads = bytearray(sg[0]); bads[-5] = ord("!")
        badf = bytearray(sg[0]); badf[40] = 0xff
        return [
            ("rx", False, [[(b"bZZZ" + b"A" * 40, 1)]], "unknown code"),
            ("rx", False, [[(b"bAAA" + b"!!!!" + m.encode() + b"body", 1)]], "bad b64 digit"),
            ("rx", False, [[(b"b\xff\xfe\xfd" + b"A" * 40, 1)]], "non utf-8 code"),
            ("rx", False, [[(b"bAABAAAB" + b"\xff" * 24 + b"x", 1)]], "non utf-8 mid"),
            ("rx", False, [[(b"bAAIAAAA" + m.encode(), 1)]], "ack"),
            ("rx", True, [[(A.ref_gram("bAAC", False, m, 1, b"x", ki=0)[:4].replace(b"C", b"J") + A.ref_gram("bAAC", False, m, 1, b"x", ki=0)[4:], 1)]], "ackauth"),
            ("rx", False, [[(bytes([0x6f, 0xff, 0xff]) + b"A" * 40, 1)]], "b2 unknown code"),
            ("rx", False, [[(z, 1), (A.ref_gram("bAAB", False, m, 5, b"cd"), 1)]], "gram number >= count"),
            ("rx", False, [[(A.ref_gram("bAAA", False, m, 1, b"\xff\xfe"), 1)], [(z, 1)]], "memo not utf-8, then service again"),
            ("rx", False, [[(A.ref_gram("bAAA", False, m, 0, b"zz"), 1)]], "count 0"),
            ("rx", True, [[(bytes(bad), 1)], [(bytes(bads), 1)], [(bytes(badf), 1)]], "junk in vid / sig"),
            ("rx", True, [[(g, 1) for g in sg]], "genuine signed"),
            ("rx", True, [[(g, 2) for g in sgb]], "genuine signed b2, D vid"),
            ("rx", True, [[(sg[0], 1), (b"", 1), (sg[0], 1)], []], "empty datagram stops the loop"),
            ("rx", True, [[(z, 1), (A.ref_gram("bAAB", False, m, 1, b"cd"), 1)]], "unsigned when authic"),
        ]

    def exhaustive(self, tier):
        sg = build_memo("bAAC", False, A.mid_of(5), b"hello world", 0, 6, 50)
        sb = build_memo("bAAG", True, A.mid_of(6), b"hello world", 2, 6, 50)
        ug = build_memo("bAAA", False, A.mid_of(7), b"hello world", None, 6, 50)
        cs = []
        step = 1 if tier == "thorough" else 7
        for gs, au in ((sg, True), (sb, True), (ug, False)):
            for k in (0, 1):
                g = gs[k]
                for cut in range(0, len(g), step):                       # every truncation
                    b = [(gs[0], 1), (gs[1], 1)]
                    b[k] = (g[:cut], 1)
                    cs.append(("rx", au, [b[:1], b[1:]], "trunc"))
                for pos in range(0, len(g), step):                       # a single-byte mutation at every position
                    for x in ((0x01, 0x80) if tier == "thorough" else (0x01,)):
                        m = bytearray(g); m[pos] ^= x
                        b = [(gs[0], 1), (gs[1], 1)]
                        b[k] = (bytes(m), 1)
                        cs.append(("rx", au, [b], "mut1"))
        return cs, ("every truncation and a single-byte mutation at every position (xor 0x01, 0x80) of both grams of a signed b64, a signed b2 and an "
                    "unsigned memo" if tier == "thorough" else "every 7th truncation / mutation position of three two-gram memos")

    def generate(self, rng, n, tier):
        for _ in range(n):
            authic = rng.random() < 0.6
            memos = []
            for j in range(rng.choice([1, 1, 2, 3])):
                code = rng.choice(A.ZCODES if not authic or rng.random() < 0.15 else ["bAAC", "bAAG"])
                curt = rng.random() < 0.5
                ki = rng.randrange(0, 6) if code in A.SIGNED else None      # keys 4, 5 are not in the keep (5 has a 'D' vid)
                text = _text(rng, rng.choice([1, 2, 5, 12, 30, rng.randrange(1, 120)]))
                zb, nb = rng.choice([1, 2, 3, 7, 20, 200]), rng.choice([1, 2, 5, 9, 33, 200])
                memos.append((build_memo(code, curt, A.mid_of(rng.randrange(1, 50)), text, ki, zb, nb), rng.randrange(1, 4), code, curt, ki))
            stream = []
            for gs, src, code, curt, ki in memos:
                order = list(range(len(gs)))
                if rng.random() < 0.25:
                    rng.shuffle(order)
                for i in order:
                    stream.append((gs[i], src))
            # malformed / hostile additions
            for _ in range(rng.choice([1, 1, 2, 3, 5])):
                gs, src, code, curt, ki = rng.choice(memos)
                g = rng.choice(gs)
                k = rng.random()
                pos = rng.randrange(0, len(stream) + 1)
                if k < 0.3:      # single-byte mutation (replace or insert before the genuine one)
                    m = bytearray(g)
                    where = rng.choice([rng.randrange(len(m)), rng.randrange(min(8, len(m))), len(m) - 1 - rng.randrange(min(66, len(m)))])
                    m[where] = rng.choice([m[where] ^ (1 << rng.randrange(8)), rng.randrange(256), 0xff, 0x21, 0x3d])
                    d = bytes(m)
                    if rng.random() < 0.6 and (g, src) in stream:
                        stream[stream.index((g, src))] = (d, src)
                    else:
                        stream.insert(pos, (d, src))
                elif k < 0.42:   # truncation
                    d = g[:rng.randrange(0, len(g))]
                    if rng.random() < 0.5 and (g, src) in stream:
                        stream[stream.index((g, src))] = (d, src)
                    else:
                        stream.insert(pos, (d, src))
                elif k < 0.55:   # random bytes, biased to pass wiff
                    ln = rng.choice([1, 2, 3, 4, 8, 31, 32, 33, 60, 120, 170, rng.randrange(1, 200)])
                    d = bytes(rng.randrange(256) for _ in range(ln))
                    if rng.random() < 0.8:
                        d = rng.choice([b"b", b"bAA", b"bAA" + bytes([rng.randrange(65, 76)]), bytes([0x6c]), bytes([0x6c, 0, rng.randrange(0, 16)]),
                                        bytes([0x60 + rng.randrange(4)]), bytes([0x6c + rng.randrange(4)])]) + d
                    stream.insert(pos, (d, rng.randrange(1, 4)))
                elif k < 0.63:   # gram number beyond the count / absurd count
                    mid = A.ref_parse(gs[0])["mid"]
                    if rng.random() < 0.5:
                        d = A.ref_gram(A.PAIR[code], curt, mid, len(gs) + rng.choice([0, 1, 5, 2 ** 24 - 1 - len(gs)]), b"xx", ki=ki)
                    else:
                        d = A.ref_gram(code, curt, mid, rng.choice([0, 1, len(gs) - 1, len(gs) + 1, 2 ** 24 - 1]), b"yy", ki=ki)
                    stream.insert(rng.choice([0, pos]), (d, src))
                elif k < 0.75:   # signature games: other key, swapped signature, attacker zeroth first
                    mid = A.ref_parse(gs[0])["mid"]
                    ak = rng.choice([0, 1, 2, 3, 4, 5])
                    m = rng.random()
                    if m < 0.35:     # attacker signs a non-zeroth gram of the victim's memo with its own key
                        d = A.ref_gram(A.PAIR[code] if code in A.SIGNED else "bAAD", curt, mid, rng.randrange(1, len(gs) + 1), b"EVIL", ki=ak)
                        stream.insert(pos, (d, src))
                    elif m < 0.6:    # attacker's own zeroth gram for the same mid, before everything
                        d = A.ref_gram(code if code in A.SIGNED else "bAAC", curt, mid, rng.choice([1, len(gs)]), b"EVIL", ki=ak)
                        stream.insert(rng.choice([0, pos]), (d, src))
                    elif m < 0.8 and code in A.SIGNED and len(gs) > 1:   # genuine body with the signature of another gram
                        p, q = A.ref_parse(gs[0]), A.ref_parse(gs[1])
                        d = A.ref_gram(code, curt, mid, p["num"], p["body"], ki=ki, sig=q["sig"])
                        stream.insert(rng.choice([0, pos]), (d, src))
                    else:            # zeroth gram claiming another vid than the signer's
                        d = A.ref_gram(code if code in A.SIGNED else "bAAC", curt, mid, len(gs), b"EVIL", ki=ak, vid_in_gram=A.key((ak + 2) % 6)["vid"])
                        stream.insert(rng.choice([0, pos]), (d, src))
                elif k < 0.85:   # structural: unknown / ack code, bad digit, non utf-8 parts
                    m = bytearray(g)
                    j = rng.random()
                    if j < 0.3 and not curt:
                        m[3] = rng.choice([ord("I"), ord("J"), ord("K"), ord("Z"), 0xc3, 0xff])
                    elif j < 0.4 and curt:
                        m[2] = rng.choice([8, 9, 10, 63, 0xff])
                    elif j < 0.6 and not curt:
                        m[4 + rng.randrange(4)] = rng.choice([ord("!"), ord("="), 0xe9, 0xff, ord("+")])
                    elif j < 0.8 and not curt:
                        m[8 + rng.randrange(24)] = rng.choice([0xff, 0xc3, 0x80])
                    else:
                        bodypos = len(m) - 1 - (66 if curt else 88) * (code in A.SIGNED)
                        m[max(0, bodypos)] = rng.choice([0xff, 0xc3, 0x80])
                    d = bytes(m)
                    if rng.random() < 0.5 and (g, src) in stream:
                        stream[stream.index((g, src))] = (d, src)
                    else:
                        stream.insert(pos, (d, src))
                elif k < 0.92:   # duplicates / replays
                    stream.insert(pos, (g, rng.randrange(1, 4)))
                else:            # empty datagram
                    stream.insert(pos, (b"", src))
            nb = rng.choice([1, 1, 2, 3, 4])
            cuts = sorted(rng.randrange(0, len(stream) + 1) for _ in range(nb - 1))
            batches, prev = [], 0
            for c in cuts + [len(stream)]:
                batches.append(stream[prev:c])
                prev = c
            if rng.random() < 0.3:
                batches.append([])
            yield ("rx", authic, batches, "gen")

    # ---- running
    def _run(self, case):
        k = repr(case)
        if k not in self._tab:
            if len(self._tab) > 20000:
                self._tab.clear()
            _, authic, batches, _ = case
            self._tab[k] = A.run_rx(authic, batches)
        return self._tab[k]

    def run_impl(self, case):
        return self._run(case)[0]

    def request(self, case):
        _, authic, batches, _ = case
        vtab = self._run(case)[1]
        return ("rx", ("authic", bool(authic)), ("vtab",) + tuple(vtab), ("batches",) + tuple(tuple((bytes(g), s) for g, s in b) for b in batches))

    # ---- the property
    def oracle(self, case, obs):
        _, authic, batches, _ = case
        bad = []
        kp = A._kp()
        seen = []
        for b, o in zip(batches, obs):
            if o[0] == "escape":
                bad.append("receive-servicing-raised:" + o[1])
                return bad
            seen += [A.ref_parse(g) for g, _s in b]
            parsed = [p for p in seen if p]
            delivered, entries = o[0][1:], o[1][1:]
            for e in entries:
                if not any(p["mid"].encode() == e[0] for p in parsed):
                    bad.append("state-from-malformed-datagram")
            if authic:
                for text, _src, vid in delivered:
                    if vid is None:
                        bad.append("unsigned-memo-delivered-when-signed-required")
                        continue
                    vid = vid.decode()
                    ok = False
                    for z in parsed:
                        if z["zeroth"] and z["signed"] and z["vid"] == vid and A.ref_verify(kp, vid, z["sig"], z["fore"]) == "ok":
                            parts = [[z["body"]]]
                            for gn in range(1, z["num"]):
                                if gn > 4096:
                                    break
                                parts.append(list({p["body"] for p in parsed if not p["zeroth"] and p["signed"] and p["mid"] == z["mid"]
                                                   and p["num"] == gn and A.ref_verify(kp, vid, p["sig"], p["fore"]) == "ok"}))
                                if not parts[-1]:
                                    break
                            else:
                                if z["num"] >= 1 and A.can_assemble(bytes(text), parts):
                                    ok = True
                                    break
                            if z["num"] == 0 and bytes(text) == b"":
                                ok = True
                                break
                    if not ok:
                        bad.append("delivered-memo-not-covered-by-valid-signatures")
        if len(obs) != len(batches):
            bad.append("observation-shape")
        return bad

    def nontrivial(self, case, obs):
        return case[3] != "genuine" and any(b for b in case[2])

    def features(self, case, obs):
        f = ["authic" if case[1] else "open", f"batches={len(case[2])}"]
        n = sum(len(b) for b in case[2])
        f.append(f"datagrams~{min(n, 12) // 3 * 3}")
        und = sum(1 for b in case[2] for g, _ in b if A.ref_parse(g) is None)
        f.append("unparseable=" + ("0" if und == 0 else "1+" ))
        if any(o[0] == "escape" for o in obs):
            f.append("escape")
        else:
            f.append(f"delivered={min(sum(len(o[0]) - 1 for o in obs), 3)}")
            f.append(f"left-entries={min(len(obs[-1][1]) - 1, 3)}" if obs else "no-batches")
        f.append(f"verify-calls~{min(len(self._run(case)[1]), 8) // 2 * 2}")
        for o in {x[3] for x in self._run(case)[1]}:
            f.append("verify:" + o)
        return f

    def shrink(self, case):
        _, authic, batches, note = case
        for i in range(len(batches)):
            if len(batches) > 1:
                yield ("rx", authic, batches[:i] + batches[i + 1:], note)
            for j in range(len(batches[i])):
                yield ("rx", authic, batches[:i] + [batches[i][:j] + batches[i][j + 1:]] + batches[i + 1:], note)
        if len(batches) > 1:
            yield ("rx", authic, [sum(batches, [])], note)

    def mutate(self, rng, case):
        _, authic, batches, note = case
        out = list(self.shrink(case))
        out.append(("rx", not authic, batches, note))
        for i, b in enumerate(batches):
            for j, (g, s) in enumerate(b):
                if g:
                    m = bytearray(g)
                    p = rng.randrange(len(m))
                    m[p] ^= 1 << rng.randrange(8)
                    out.append(("rx", authic, batches[:i] + [b[:j] + [(bytes(m), s)] + b[j + 1:]] + batches[i + 1:], note))
        return out


CHECK = C22()
