"""C01 — every doer runs a well-formed lifecycle on every exit path (hio.base.doing)."""
from .. import core, sx
from ..areas import sched as S

TERM = ("clean", "cease", "abort")


def lifecycle_clauses(case, d):
    """the automaton (enter recur* (clean|cease|abort) exit)*, run per doer on the REAL trace"""
    bad = []
    ids = set(S.all_ids(case))
    state = {i: "idle" for i in ids}
    enters = {i: 0 for i in ids}
    doubled = set()
    for e in d["trace"]:
        i, k = e[0], e[1]
        if i in doubled and k in S.LIFE:
            continue        # two generators of this doer run at once; their events interleave, nothing more to check
        if k == "recurBad":
            bad.append("recur-tyme-differs-from-tymth")
            k = "recur"
        if k not in S.LIFE:
            continue
        if i not in ids:
            bad.append("event-of-unknown-doer")
            continue
        s = state[i]
        if k == "enter":
            enters[i] += 1
            nxt = "live" if s == "idle" else None
            if s == "live":
                bad.append("entered-again-while-still-running")
                doubled.add(i)
                nxt = "idle"
            elif s != "idle":
                bad.append("enter-while-not-exited")
        elif k == "recur":
            nxt = "live" if s == "live" else None
            if s != "live":
                bad.append("recur-after-exit" if s == "idle" else "recur-after-terminal")
        elif k in TERM:
            nxt = "closing" if s == "live" else None
            if s != "live":
                bad.append("second-terminal" if s == "closing" else "terminal-without-enter")
        else:  # exit
            if s == "closing":
                nxt = "idle"
            elif s == "live":
                nxt = "idle"
                bad.append("missing-terminal")      # exit without clean/cease/abort
            else:
                nxt = None
                bad.append("exit-twice-or-without-enter")
        state[i] = nxt if nxt is not None else "bad"
    for i, s in state.items():
        if s not in ("idle",) and i not in doubled:
            bad.append("not-exited-when-do-returned" if s in ("live", "closing") else "malformed")
    r = d["raised"]
    if r in ("cancelled", "closed") and S.extras_of(case, "cancel"):
        r = "-"
    if r.startswith("other:"):
        bad.append("unexpected-exception-from-do:" + r.split(":")[-1])
    elif r in ("kbint", "sysexit"):
        # KeyboardInterrupt leaves do() only when raised by an enter; SystemExit when a doer raised it
        specs = [x for x, _, _ in S.all_specs(case) if x[0] == "leaf"]
        ok = any(x[3] == r for x in specs) or (r == "sysexit" and any(o == "sysexit" for x in specs for _, o in x[4]))
        if not ok:
            bad.append("unexpected-exception-from-do:" + r)
    if d["late"]:
        bad.append("exited-only-by-garbage-collector-after-do-returned")
    # a doer that can never be extended again is entered at most once
    spec, par, pools, kids = S.spec_index(case)
    poolids = {i for l in pools.values() for i in l}
    desc = S.descendants(case)
    under_pool = set(poolids)
    for g in poolids:
        under_pool |= desc.get(g, set())
    for i, n in enters.items():
        if n > 1 and i not in under_pool:
            bad.append("entered-twice")
    return sorted(set(bad))


class C01(S.SchedCheck):
    pid = "C01"
    ways = True
    props_mod = "HioModel.Props.C01"
    design_ref = "DESIGN.md §5 C01, Appendix A.1"
    technique = ("Lean 4 theorems over an executable model of Doist/DoDoer/Doer (nested generator scheduler, deque+marker as zipper), "
                 "tied to hio.base.doing by a seeded differential run of the compiled model; lifecycle automaton as independent oracle on the real trace")
    level_text = ('Lean theorems, for every time type, every program (forest of doers incl. nested DoDoers with own extend pools), every tock/start/limit and every fuel: lifecycle_wf (strict automaton enter.recur*.(clean|cease|abort).exit per doer id, restartable after exit, final state idle; extend and remove allowed; hypotheses: all ids of the program distinct, no pool doer removes itself, no script raises KeyboardInterrupt), lifecycle_wf_weak (same without the KeyboardInterrupt hypothesis for the automaton that also accepts exit straight from running), lifecycle_wf_partial / lifecycle_wf_weak_partial (no-extend programs, only the entered ids distinct). The strict property is proved to FAIL with KeyboardInterrupt (lifecycle_kbint_skips_abort, decide) = known finding C01-K1 (pre-finding F01). The hypothesis that no pool doer removes itself is necessary: lifecycle_fails_when_pool_doer_removes_itself (decide) = known finding C01-K2, reproduced on the real code (a self-removed doer keeps running and a later extend() enters it a second time). Second generation (Model2: exception kinds Exception/KeyboardInterrupt/SystemExit at every step and in every enter - Doist.enter, DoDoer.enter, enter inside extend - and clean actions that raise): lifecycle_wf2 (strict; hypotheses as lifecycle_wf with only-Exception kinds), lifecycle_wf2_weak (any kinds), witnesses lifecycle2_sysexit_skips_abort and lifecycle2_kbint_in_enter_skips_abort (C01-K1 in its new forms). model2_is_model_on_old_scripts and model3_is_model2_without_close_ops tie the generations. For Model3 (ops issued from cease/exit actions, re-entrant forced shutdown): lifecycle_wf3_partial / lifecycle_wf3_weak_partial under the extra static guard closeOpsRemoveNonPool3 (close-time ops are removes of non-pool doers; close-time extend, close-time remove of pool doers and self-removal from an exit action are NOT covered by the theorem - correspondence + oracle only) and starved=false (the model close fuel sufficed). All exit paths named by the property (completion, limit, raise at any step, removal, failing enter in do() and inside extend(), KeyboardInterrupt) are cases of the one universally quantified theorem. The hand-written model is tied to hio.base.doing by the differential run (string equality of the whole trace incl. observed tymes, flags, done, tyme, raised, doers).')
    level_note = ('Trusted: Lean kernel + propext/Classical.choice/Quot.sound; that the sampled correspondence (five Python doer shapes, random forests + regression corpus + exhaustive single-fault scope in thorough) is representative; F04 (enter failing inside extend) and F05/F06 (duplicates) were repaired on fix/sched and the model follows the repaired code; KeyboardInterrupt inside enter and CPython GC finalisation are not modelled (the adapter reports GC-only exits as `late`).')
    rule = ("random doer forests (depth<=3, <=~12 doers, scripts<=6 steps, five Python doer shapes, yields None/0/fractions and multiples of the tock, "
            "DoDoer tock 0/non-zero/always, per-scheduler extend pools, extend/remove ops, raise/kbint/failing enter planted per step, limits incl. 0/negative/non-multiples) "
            "+ regression corpus (F01-F07) + thorough: exhaustive single-fault scope.  non-trivial = >=12 events and (do() raised or a forced close / remove / extend happened); distinct by request line")

    def corpus(self):
        return list(S.CORPUS) + list(S.CORPUS_SELFRM) + list(S.CORPUS_BEXC) + list(S.CORPUS_R2) + list(S.CORPUS_ENTERLOOP)

    def exhaustive(self, tier):
        if tier != "thorough":
            return [], None
        return S.exhaustive_scope(), S.EXH_NAME

    def oracle(self, case, obs):
        return lifecycle_clauses(case, obs.d)

    profiles = ("mixed", "ops", "faults", "time", "selfrm", "bexc", "closeops", "benter", "actfault", "xext", "lastop", "superv", "oddtock", "cancel")

    def known(self, case, obs, clauses):
        # C01-K1 (pre-finding F01): KeyboardInterrupt raised by a doer -> neither clean, cease nor abort runs for it
        # and for the DoDoers above it.
        # C01-K2: a pool doer removed ITSELF while running (it leaves .doers but keeps running, as documented) and is
        # then extended again: extend() enters it a second time while its first generator is still scheduled.
        # Everything else must be well formed.
        MT, EA = "missing-terminal", "entered-again-while-still-running"
        if not clauses or not set(clauses) <= {MT, EA}:
            return None
        spec, par, pools, kids = S.spec_index(case)
        d = obs.d
        if MT in clauses:
            hist = {}
            for e in d["trace"]:
                if e[1] in S.LIFE:
                    hist.setdefault(e[0], []).append(e[1])
            for i, h in hist.items():
                inc, cur = [], []
                for k in h:
                    cur.append(k)
                    if k == "exit":
                        inc.append(cur)
                        cur = []
                for c in inc:
                    if not any(k in TERM for k in c) and c.count("enter") == 1:
                        if i not in spec:
                            return None
                        # the BaseException comes from the doer itself / from below it, or from the enter of a
                        # pool doer inside an extend() this leaf issues
                        via_extend = spec[i][0] == "leaf" and S.has_op(spec[i], "extend") and any(S.enter_bexc(spec[j]) for j in pools.get(par[i], ()))
                        if not (S.raises_bexc(spec[i]) or via_extend):
                            return None
        if EA in clauses:
            live = set()
            for e in d["trace"]:
                i, k = e[0], e[1]
                if k == "enter":
                    if i in live:
                        s = spec.get(i)
                        selfrm = s is not None and s[0] == "leaf" and any(op[0] == "remove" and i in op[1] for ops, _ in s[4] for op in ops)
                        if not (selfrm and i in pools.get(par[i], ())):
                            return None
                    live.add(i)
                elif k == "exit":
                    live.discard(i)
            return "C01-K2"
        return "C01-K1"


CHECK = C01()
