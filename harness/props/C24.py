"""C24 — keyed durable stores (Suber / IoSuber / IoSetSuber on lmdb) match a dictionary model for all keys."""
import itertools

from .. import core, sx
from ..areas import store as st
from ..extract import store as xstore

MUT = {"plain": ("put", "pin", "rem", "trim"), "io": ("add", "put", "pin", "pop", "rem", "trim"), "ioset": ("add", "put", "pin", "pop", "rem", "remv", "trim")}


def base_kind(kind):
    return kind.split("@")[0]


def is_custom(kind):
    return "@" in kind



def legal(kind, k):
    return (0 < len(k) <= st.MAXKEY) if kind == "plain" else (len(k) + 1 + st.W <= st.MAXKEY)


def dedup(vs):
    out = []
    for v in vs:
        if v not in out:
            out.append(v)
    return out


def reference(kind, ops, keys):
    """the property's right-hand side: a dict of values / lists / ordered sets.  Returns per op
    (expected result or ANY, expected snapshot)."""
    d = {}
    ANY = reference.ANY
    out = []
    kind = base_kind(kind)
    for op in ops:
        name = op[0]
        k = op[1] if len(op) > 1 else None
        exp = ANY
        if name == "items":
            if kind == "plain":
                exp = tuple(sorted(d.items()))
            else:
                exp = ("items", {kk: tuple(vv) for kk, vv in d.items() if vv})
        elif name in ("itemstop", "fullitems"):
            top = op[1]
            if kind == "plain":
                exp = tuple(sorted((kk, vv) for kk, vv in d.items() if kk.startswith(top)))
            elif name == "itemstop" and top == b"":
                exp = ("items", {kk: tuple(vv) for kk, vv in d.items() if vv})
            else:
                exp = ANY          # a non-empty branch of SUFFIXED keys / the suffixed keys themselves: not a dictionary notion
        elif name == "trim":
            top = op[1]
            if kind == "plain":
                gone = [kk for kk in d if kk.startswith(top)]
                exp = bool(gone)
                for kk in gone:
                    del d[kk]
            else:               # generated with the empty top only (everything goes)
                exp = any(d.values())
                d.clear()
        elif name == "cnt" and len(op) == 1:
            exp = len(d) if kind == "plain" else sum(len(v) for v in d.values())
        elif name in ("badadd", "badput", "badpin") and legal(kind, k):
            exp = ("raise", "TypeError")   # a value that is not str/bytes is refused by lmdb: the call must have no effect
        elif not legal(kind, k):
            exp = ANY                      # outside the key space of the store: only "nothing else changes" is checked
        elif kind == "plain":
            if name == "put":
                exp = k not in d
                d.setdefault(k, op[2])
            elif name == "pin":
                d[k] = op[2]
                exp = True
            elif name == "get":
                exp = d.get(k)
            elif name == "rem":
                exp = k in d
                d.pop(k, None)
        else:
            cur = d.get(k, [])
            if name == "add":
                if kind == "ioset" and op[2] in cur:
                    exp = False
                else:
                    d[k] = cur + [op[2]]
                    exp = True
            elif name == "put":
                new = list(op[2]) if kind == "io" else [v for v in dedup(op[2]) if v not in cur]
                d[k] = cur + new
                exp = bool(new)
            elif name == "pin":
                new = list(op[2]) if kind == "io" else dedup(op[2])
                d[k] = new
                exp = bool(new)
            elif name in ("get", "iter"):
                exp = tuple(cur)
            elif name == "first":
                exp = cur[0] if cur else None
            elif name == "last":
                exp = cur[-1] if cur else None
            elif name == "pop":
                exp = cur[0] if cur else None
                d[k] = cur[1:]
            elif name == "rem" or (name == "remv" and not op[2]):    # documented: empty val means remove all
                exp = bool(cur)
                d[k] = []
            elif name == "remv":
                exp = op[2] in cur
                d[k] = [v for v in cur if v != op[2]]
            elif name == "cnt":
                exp = len(cur)
        if kind == "plain":
            snap = tuple(d.get(kk) if legal(kind, kk) else ANY for kk in keys)
        else:
            snap = tuple(tuple(d.get(kk, [])) for kk in keys)
        out.append((exp, snap))
    return out


reference.ANY = object()

SUBKIND = {"cans": "plain", "drqs": "io", "dsqs": "ioset"}


def sub_plain_ops(ops):
    """subery ops -> per store, the equivalent ops of the single-suber language with values as serialisations"""
    tab = st.c23_table()
    out = []
    for o in ops:
        store, name = o[0], o[1]
        if name in ("add", "remv") or (store == "cans" and name in ("put", "pin")):
            out.append((store, (name, o[2], tab[o[3]][1])))
        elif name in ("put", "pin"):
            out.append((store, (name, o[2], [tab[i][1] for i in o[3]])))
        elif name == "cnt" and store == "cans":
            out.append((store, ("cnt",)))
        else:
            out.append((store, (name, o[2])))
    return out


def sub_reference(ops, keys):
    """three independent dictionaries: per op (expected result, expected get of every key in every store)"""
    pops = sub_plain_ops(ops)
    per = {}
    for store in st.SUBSTORES:
        mine = [o for s_, o in pops if s_ == store]
        per[store] = iter(reference(SUBKIND[store], mine, keys))
    cur = {"cans": tuple(None for _ in keys), "drqs": tuple(() for _ in keys), "dsqs": tuple(() for _ in keys)}
    out = []
    for store, o in pops:
        exp, snap = next(per[store])
        cur[store] = snap
        out.append((exp, tuple(cur[s_] for s_ in st.SUBSTORES)))
    return out



class C24(core.Check):
    pid = "C24"
    pkg = "Store"
    props_mod = "HioModel.Props.C24"
    design_ref = "DESIGN.md §5 C24, Appendix A.3, §7 F39"
    technique = ("Lean 4 model of lmdb as a sorted association list + every Duror/Suber scan as structural recursion; refinement theorems to "
                 "Key -> Val / Key -> List Val / Key -> ordered set; constants regenerated from the source; differential run on real lmdb")
    level_text = ""   # filled below
    level_note = ""
    quick_n = 500
    thorough_n = 9000
    rule = ("kind subery runs histories over ONE Subery with its own subers cans/drqs/dsqs and the same keys in all of them (sub-database isolation clause); "
            "keys and values are handed over in every accepted argument form, chosen by op index (keys: bytes, str, bytearray, memoryview of the whole buffer / of a slice of a larger bytes frame / of a slice of a bytearray, tuple of str parts, list of mixed str|bytes parts, tuple of bytes parts; values: str, bytes, the three memoryview forms), returned lists are mutated by the caller, writes with a non-bytes value at any "
            "batch position are interleaved, kinds <class>@<n> use a custom sep / ionsep from st.SEPCFG (ASCII, non-ASCII 2-4 byte, multi-char, str and bytes; oracle only), a sentinel sub-db in the same environment must stay untouched; "
            "case = (kind in plain|io|ioset, op list <= 30 over an adversarial key set of <= 4 keys (prefixes of each other, keys ending in or containing '.', "
            "keys that look like a suffixed key k.<32 hex>, the empty key, neighbours '-' '/' '0' of the separator) and 8 values with duplicates and the empty value); "
            "plus getItemIter/getFullItemIter/trim with a top and cntAll; after every op get() of every key of the case is observed, at the end the raw sub-db. non-trivial = at least 2 keys and 3 mutating ops; distinct by request line")
    trusted_base = ["lmdb modelled as a sorted association list with set_range / iternext / delete / put(overwrite) cursor semantics (exercised by the correspondence on real lmdb)",
                    "translator harness/extract/store.py (SuffixSize, MaxSuffix, IonSep, Sep, lmdb max key size, suffix() probe)",
                    "correspondence harness/props/C24.py: compiled model driver vs hio.base.during on the same op lists, including the raw sub-db content",
                    "Python str<->utf-8 bytes of keys and values, OrderedSet as an insertion-ordered duplicate-free list"]
    assumptions = ["lmdb orders keys bytewise (no custom comparator), one writer, every op in its own committed transaction",
                   "ordinals stay below 16^32 (a history would need that many adds)"]

    def extract(self):
        return xstore.extract()

    # ---- cases
    def witnesses(self):
        """replays of the recorded known findings (theorems refines_dict_fails_without_guard / getLast_fails_without_guard);
        appended at the END of the generated cases so that a new violation on a clean case is the one reported first"""
        k = b"k"
        k2 = k + b"." + st.hexw(0)
        return [
            ("io", [("add", k, b"v0"), ("add", k, b"v1"), ("add", k, b"v2"), ("add", k2, b"w0"), ("get", k), ("cnt", k),
                    ("add", k, b"v3"), ("get", k), ("items",)]),
            ("ioset", [("put", k, [b"v0", b"v1", b"v2"]), ("add", k2, b"w0"), ("add", k, b"v1"), ("get", k), ("last", k), ("rem", k), ("items",)]),
            ("io", [("add", k, b"a"), ("add", k, b"b"), ("pop", k), ("add", k2, b"w"), ("get", k), ("first", k), ("pop", k)]),
            ("io", [("add", b"a", b"1"), ("add", b"a.b", b"2"), ("last", b"a")]),
            # K3: pin with a non-bytes element destroys the old values and raises
            ("io", [("put", b"k", [b"a", b"b"]), ("badpin", b"k", [b"c", 7]), ("get", b"k")]),
            ("ioset", [("put", b"k", [b"a", b"b"]), ("badpin", b"k", [7]), ("get", b"k")]),
            # K4: custom ordinal separator, getFirst / getLast / pop
            ("io@0", [("add", b"k", b"a"), ("add", b"k", b"b"), ("first", b"k"), ("last", b"k"), ("pop", b"k"), ("get", b"k")]),
        ]

    def corpus(self):
        k = b"k"
        h1 = k + b"." + st.hexw(1)
        many = [("put", k, [b"v%d" % (3 * i + j) for j in range(3)]) for i in range(7)]
        cs = [
            # relatives of the F39 key shape that are harmless
            ("io", [("add", b"a", b"1"), ("add", b"a-b", b"2"), ("add", b"a.", b"3"), ("add", b"", b"4"), ("add", b"a-", b"5"), ("add", b"a/", b"6"),
                    ("get", b"a"), ("last", b"a/"), ("last", b""), ("pop", b"a"), ("last", b"a-"), ("rem", b"a."), ("items",)]),
            ("io", [("put", k, [b"x", b"x", b"y"]), ("pin", k, [b"z"]), ("put", h1, []), ("pin", h1, []), ("cnt", k), ("last", k), ("first", k), ("iter", k),
                    ("pin", k, []), ("get", k), ("last", k)]),
            ("ioset", [("put", k, [b"x", b"x", b"y"]), ("add", k, b"x"), ("remv", k, b"x"), ("add", k, b"x"), ("get", k), ("remv", k, b""), ("get", k),
                       ("pin", k, [b"q", b"q", b"r"]), ("put", k, [b"r", b"s", b"s"]), ("get", k), ("remv", k, b"nope"), ("add", k, b"q"), ("add", k, b"s"), ("add", k, b"t")]),
            # more than 16 values at one key: the ordinal carries into the next hex digit
            ("io", many + [("get", k), ("cnt", k), ("last", k), ("pop", k), ("add", k, b"z"), ("get", k)]),
            ("ioset", many + [("get", k), ("remv", k, b"v16"), ("add", k, b"v16"), ("last", k), ("get", k)]),
            ("plain", [("put", b"a", b"1"), ("put", b"a", b"2"), ("pin", b"a.b", b"3"), ("get", b"a"), ("rem", b"a"), ("rem", b"a"), ("get", b"a.b"), ("cnt",), ("items",)]),
            # branches of the key space: getItemIter(top) / getFullItemIter(top) / trim(top)
            ("plain", [("put", b"a", b"1"), ("put", b"a.b", b"2"), ("put", b"ab", b"3"), ("put", b"b", b"4"), ("itemstop", b"a"), ("itemstop", b"a."), ("fullitems", b""),
                       ("itemstop", b"c"), ("trim", b"a."), ("items",), ("trim", b"a"), ("cnt",), ("trim", b"a"), ("trim", b""), ("cnt",)]),
            ("io", [("add", b"a", b"1"), ("add", b"a", b"2"), ("add", b"a-b", b"3"), ("cnt",), ("itemstop", b"a"), ("itemstop", b"a."), ("fullitems", b"a."), ("fullitems", b""),
                    ("itemstop", b""), ("trim", b""), ("cnt",), ("get", b"a"), ("trim", b"")]),
            ("ioset", [("put", b"k", [b"x", b"y"]), ("add", b"kk", b"z"), ("cnt",), ("itemstop", b"k"), ("fullitems", b"kk"), ("trim", b""), ("items",)]),
            # rejected writes (a value that is not str/bytes, at every position of a batch) have no effect; many key/value forms
            ("io", [("put", b"k", [b"a", b"b"]), ("badadd", b"k"), ("badput", b"k", [7, b"c"]), ("badput", b"k", [b"c", 7]), ("badput", b"k", [b"c", 7, b"d"]),
                    ("get", b"k"), ("add", b"a.b", b"x"), ("add", b"a.b", b"y"), ("get", b"a.b"), ("iter", b"a.b"), ("cnt", b"a.b"), ("pop", b"a.b")]),
            ("plain", [("put", b"k", b"v"), ("badput", b"k"), ("badpin", b"k"), ("get", b"k"), ("badput", b"n"), ("get", b"n")]),
            ("ioset@0", [("put", b"k", [b"a", b"b", b"a"]), ("add", b"k." + st.hexw(0), b"w"), ("add", b"k", b"c"), ("get", b"k"), ("remv", b"k", b"a"),
                        ("cnt", b"k"), ("pin", b"k", [b"z"]), ("rem", b"k." + st.hexw(0)), ("items",)]),
            # 300 values at one key: the ordinal carries twice (0x100)
            ("io", [("put", k, [b"w%d" % (60 * i + j) for j in range(60)]) for i in range(5)] + [("cnt", k), ("last", k), ("pop", k), ("add", k, b"z"), ("last", k), ("cnt",)]),
            # the library's own wiring: the same key in all three stores of one Subery - an op on one never shows in another
            ("subery", [("drqs", "add", b"q", 0), ("drqs", "add", b"q", 1), ("dsqs", "add", b"q", 2), ("cans", "put", b"q", 3), ("dsqs", "get", b"q"), ("dsqs", "cnt", b"q"),
                        ("dsqs", "pop", b"q"), ("drqs", "get", b"q"), ("drqs", "rem", b"q"), ("dsqs", "get", b"q"), ("cans", "get", b"q"), ("cans", "cnt"), ("dsqs", "add", b"q", 2),
                        ("drqs", "pin", b"q", [4, 4]), ("dsqs", "remv", b"q", 4), ("drqs", "last", b"q"), ("cans", "rem", b"q"), ("drqs", "pop", b"q"), ("dsqs", "first", b"q")]),
            # outside the key space: error branches of the model (correspondence only)
            ("plain", [("put", b"", b"v"), ("get", b""), ("rem", b""), ("pin", b"x" * 512, b"v"), ("get", b"x" * 512), ("rem", b"x" * 512), ("put", b"x" * 511, b"v"), ("get", b"x" * 511)]),
            ("io", [("add", b"x" * 479, b"v"), ("add", b"x" * 478, b"v"), ("get", b"x" * 478), ("get", b"x" * 479), ("put", b"x" * 479, [b"a"]), ("pin", b"x" * 479, [b"a"])]),
        ]
        return cs

    def exhaustive(self, tier):
        if tier != "thorough":
            return [], None
        out = []
        keys = [b"k", b"k." + st.hexw(0), b"k."]
        vals = [b"v0", b"v1"]
        for kind in ("io", "ioset"):
            alpha = []
            for k in keys:
                alpha += [("add", k, v) for v in vals]
                alpha += [("put", k, [b"v0", b"v1"]), ("pin", k, [b"v1"]), ("pop", k), ("rem", k)]
                if kind == "ioset":
                    alpha.append(("remv", k, b"v0"))
            for n in (1, 2, 3):
                for h in itertools.product(alpha, repeat=n):
                    out.append((kind, list(h)))
        keys = [b"a", b"a.", b"a.b"]
        alpha = [(o, k, v) for o in ("put", "pin") for k in keys for v in vals] + [("rem", k) for k in keys]
        for n in (1, 2, 3):
            for h in itertools.product(alpha, repeat=n):
                out.append(("plain", list(h)))
        return out, "io/ioset: every history of <= 3 mutating ops over keys {k, k.<hex 0>, 'k.'} x values {v0,v1}; plain: every history of <= 3 ops over {a, 'a.', a.b}"

    def generate(self, rng, n, tier):
        for case in self._generate(rng, n, tier):
            yield case
        for case in self.witnesses():
            yield case

    def _long(self, rng):
        """one or two keys, enough values that ordinals pass 16 (hex carry), pops from the front in between"""
        kind = rng.choice(["io", "ioset"])
        keys = [rng.choice([b"k", b"a.b", b"", b"0"])] + ([b"kk"] if rng.random() < 0.3 else [])
        ops, c = [], 0
        while len(ops) < 26:
            k = keys[0] if rng.random() < 0.85 else keys[-1]
            r = rng.random()
            if r < 0.6:
                m = rng.choice([2, 3, 4, 5])
                ops.append(("put", k, [b"w%d" % (c + j) for j in range(m)]))
                c += m
            elif r < 0.75:
                ops.append(("add", k, b"w%d" % c))
                c += 1
            elif r < 0.9:
                ops.append(("pop", k))
            else:
                ops.append((rng.choice(["last", "cnt", "first"]), k))
        ops += [("get", keys[0]), ("last", keys[0]), ("cnt", keys[0]), ("pop", keys[0])]
        return (kind, ops)

    def _subery(self, rng):
        """the library's own wiring: one Subery, its three subers (cans plain, drqs list, dsqs set), the SAME keys in all of them"""
        keys = rng.sample([b"q", b"r", b"a_b", b"q.x", b"dsqs.", b"k"], rng.choice([1, 2, 2, 3]))
        dom = st.CLEAN[:rng.choice([2, 3, 5])] if rng.random() < 0.8 else st.MARKERS
        ops = []
        for _ in range(rng.choice([4, 8, 12, 20, 30])):
            store = rng.choice(st.SUBSTORES)
            k = rng.choice(keys)
            v = rng.choice(dom)
            if store == "cans":
                name = rng.choice(["put", "put", "pin", "get", "rem", "cnt"])
                ops.append((store, name, k, v) if name in ("put", "pin") else (store, name, k) if name != "cnt" else (store, name))
            else:
                names = ["add"] * 5 + ["put", "pin", "get", "first", "last", "pop", "pop", "rem", "cnt"] + (["remv", "remv"] if store == "dsqs" else [])
                name = rng.choice(names)
                if name in ("add", "remv"):
                    ops.append((store, name, k, v))
                elif name in ("put", "pin"):
                    ops.append((store, name, k, [rng.choice(dom) for _ in range(rng.choice([0, 1, 2, 3]))]))
                else:
                    ops.append((store, name, k))
        return ("subery", ops)

    def _custom_sep(self, rng):
        """Suber / IoSuber / IoSetSuber built with a custom sep and/or ionsep (st.SEPCFG: ASCII, 2-, 3-, 4-byte UTF-8
        characters, multi-character mixes, str and bytes): every method must hand the separators down and split stored keys
        by BYTES.  Keys never contain the ordinal separator of their configuration; they may contain the part separator."""
        n = rng.randrange(len(st.SEPCFG))
        sep, ionsep = st.SEPCFG[n]
        base = rng.choice(["io", "io", "ioset", "ioset", "plain"])
        kind = f"{base}@{n}"
        sp = (sep or ".").encode()
        pool = [b"k", b"kk", b"k.", b"k." + st.hexw(0), b"a.b", b"k-", b"0", b"k" + sp + b"x", b"a" + sp + b"b" + sp + b"c", "k\u00e9".encode()]
        if base != "plain":
            pool.append(b"")
            isb = ionsep if isinstance(ionsep, bytes) else (ionsep or ".").encode()
            pool = [k for k in pool if isb not in k] or [b"k"]
        else:
            pool = [k for k in pool if k]
        keys = rng.sample(pool, min(len(pool), rng.choice([1, 2, 3, 4])))
        vals = st.VALS24[:rng.choice([2, 3, 8])]
        ops = []
        for _ in range(rng.choice([3, 6, 10, 20])):
            k = rng.choice(keys)
            if base == "plain":
                name = rng.choice(["put", "put", "pin", "pin", "get", "rem", "cnt", "items", "itemstop"])
                ops.append((name, k, rng.choice(vals)) if name in ("put", "pin") else (name, k) if name in ("get", "rem") else
                           (name, rng.choice([b"", k[:1], k])) if name == "itemstop" else (name,))
                continue
            names = ["add"] * 5 + ["put", "put", "pin", "get", "iter", "first", "last", "pop", "pop", "rem", "cnt", "items"] + (["remv", "remv"] if base == "ioset" else [])
            name = rng.choice(names)
            if name in ("add", "remv"):
                ops.append((name, k, rng.choice(vals)))
            elif name in ("put", "pin"):
                ops.append((name, k, [rng.choice(vals) for _ in range(rng.choice([0, 1, 2, 3]))]))
            elif name == "items":
                ops.append((name,))
            else:
                ops.append((name, k))
        return (kind, ops)

    def _generate(self, rng, n, tier):
        for _ in range(n):
            if rng.random() < 0.08:
                yield self._long(rng)
                continue
            kind = rng.choice(["io", "io", "ioset", "ioset", "plain"])
            if rng.random() < 0.15:
                yield self._custom_sep(rng)
                continue
            if rng.random() < 0.08:
                yield self._subery(rng)
                continue
            keys = [k for k in st.adversarial_keys(rng, rng.choice([1, 2, 3, 3, 4, 4])) if legal(kind, k)] or [b"k"]
            if rng.random() < 0.05:      # exactly at / one past the key size limit of the store (illegal ones: only "nothing else changes")
                lim = st.MAXKEY if kind == "plain" else st.MAXKEY - 1 - st.W
                keys.append(rng.choice([b"L", b"k.", b"\xc3\xa9"]) * lim)
                keys[-1] = keys[-1][:lim] if rng.random() < 0.7 else keys[-1][:lim + 1]
                try:
                    keys[-1].decode()
                except UnicodeDecodeError:
                    keys[-1] = b"L" * len(keys[-1])
            vals = st.VALS24[:rng.choice([2, 3, 8])]
            nops = rng.choice([3, 6, 10, 15, 20, 30])
            ops = []
            for _ in range(nops):
                k = rng.choice(keys)
                v = rng.choice(vals)
                r = rng.random()
                if r < 0.06:
                    top = rng.choice([b"", k, k[:1], k + b".", k[:-1]]) if kind == "plain" else b""
                    nm = rng.choice(["itemstop", "fullitems", "trim"])
                    if kind != "plain" and nm != "trim":
                        top = rng.choice([b"", k, k + b".", k[:1]])
                    ops.append((nm, top))
                    continue
                if r > 0.97:          # a value (or one element of a batch, at any position) that is not str/bytes
                    if not legal(kind, k):     # which refusal wins (key or value) depends on lmdb's argument order: not modelled
                        k = next((kk for kk in keys if legal(kind, kk)), b"k")
                    if kind == "plain":
                        ops.append((rng.choice(["badput", "badpin"]), k))
                    else:
                        batch = [rng.choice(vals) for _ in range(rng.choice([0, 1, 2, 3]))]
                        batch.insert(rng.randrange(len(batch) + 1), 7)
                        nm = rng.choice(["badadd", "badput", "badput", "badpin"])
                        ops.append((nm, k) if nm == "badadd" else (nm, k, batch))
                    continue
                if kind == "plain":
                    name = rng.choice(["put", "put", "pin", "pin", "get", "rem", "rem", "cnt", "items"])
                    ops.append((name, k, v) if name in ("put", "pin") else (name, k) if name in ("get", "rem") else (name,))
                else:
                    names = ["add"] * 6 + ["put", "put", "pin", "get", "iter", "first", "last", "last", "pop", "pop", "rem", "cnt", "items", "cntall"]
                    if kind == "ioset":
                        names += ["remv", "remv", "remv"]
                    name = rng.choice(names)
                    if name in ("add", "remv"):
                        ops.append((name, k, v))
                    elif name in ("put", "pin"):
                        ops.append((name, k, [rng.choice(vals) for _ in range(rng.choice([0, 1, 2, 3, 3, 5]))]))
                    elif name == "items":
                        ops.append((name,))
                    elif name == "cntall":
                        ops.append(("cnt",))
                    else:
                        ops.append((name, k))
            yield (kind, ops)

    # ---- both sides
    def request(self, case):
        kind, ops = case
        if kind == "subery":
            return ("subery", ("keys",) + st.c24sub_keys(ops), ("ops",) + tuple((s_,) + tuple(o) for s_, o in sub_plain_ops(ops)))
        rops = tuple(("badput", o[1]) if o[0] in ("badadd", "badput") else ("badpin", o[1]) if o[0] == "badpin" else tuple(o) for o in ops)
        if is_custom(kind):       # custom separators: not in the Lean model, these cases are carried by the oracle alone
            return ("oracleonly", kind.replace("@", ":"), ("ops",) + tuple(tuple(x if not isinstance(x, list) else tuple(x) for x in o) for o in ops))
        return (kind, ("keys",) + st.c24_keys(ops), ("ops",) + rops)

    def compare_view(self, case, obs):
        return "oracle-only" if is_custom(case[0]) else sx.dumps(obs)

    def run_impl(self, case):
        return st.c24sub_run(case) if case[0] == "subery" else st.c24_run(case)

    def oracle_subery(self, case, obs):
        _, ops = case
        keys = st.c24sub_keys(ops)
        ANY = reference.ANY
        bad = []
        for (exp, snaps), (res, got), op in zip(sub_reference(ops, keys), obs[0], ops):
            if exp is not ANY and res != exp:
                bad.append(f"{op[0]}-{op[1]}-result-differs-from-dict")
            for store, want, seen in zip(st.SUBSTORES, snaps, got):
                if want != seen:
                    bad.append("get-differs-from-dict" if store == op[0] else "other-suber-of-the-same-duror-changed")
        return sorted(set(bad))

    def oracle(self, case, obs):
        kind, ops = case
        if kind == "subery":
            return self.oracle_subery(case, obs)
        keys = st.c24_keys(ops)
        steps, dump = obs
        ANY = reference.ANY
        bad = []
        if len(steps) != len(ops):
            bad.append("neighbouring-subdb-changed")
            steps = steps[:len(ops)]
        for (exp, snap), (res, got), op in zip(reference(kind, ops, keys), steps, ops):
            if exp is not ANY:
                if isinstance(exp, tuple) and exp and exp[0] == "items":
                    proj = {}
                    ok = isinstance(res, tuple) and not (res and res[0] == "raise")
                    if ok:
                        for kk, vv in res:
                            proj.setdefault(kk, []).append(vv)
                    if not ok or {a: tuple(b) for a, b in proj.items()} != exp[1]:
                        bad.append("items-differ-from-dict")
                elif res != exp:
                    bad.append(f"{op[0]}-result-differs-from-dict")
            for kk, e, g in zip(keys, snap, got):
                if e is not ANY and e != g:
                    bad.append("get-differs-from-dict" if (len(op) > 1 and kk == op[1]) else "other-key-changed")
        return sorted(set(bad))

    def known(self, case, obs, clauses):
        kind, ops = case
        if kind == "subery":
            return None
        if is_custom(kind):
            return None           # custom separators: nothing is known to be wrong (C24-K4 is repaired in the tree)
        if kind not in ("io", "ioset"):
            return None
        if any(o[0] == "badpin" for o in ops) and not xstore.PIN_ATOMIC.get("v", False):
            # K3: pin with a non-bytes value removes the old values in a transaction of its own, then raises
            hit = [c for c in clauses if c.startswith("badpin")] or any(c in clauses for c in ("get-differs-from-dict", "other-key-changed"))
            if hit and not st.f39_pairs(st.c24_keys(ops), st.c24_nvals(ops)):
                return "C24-K3"
        if any(isinstance(sn, tuple) and sn[:1] == ("raise",) and sn[1] not in ("TypeError", "BadValsizeError", "KeyError") for step in obs[0] for sn in (step[0],) + tuple(step[1])):
            return None          # no finding ever makes a method raise (TypeError / BadValsizeError / KeyError are lmdb refusing a value or a key it cannot store)
        keys = st.c24_keys(ops)
        if [c for c in clauses if c != "last-result-differs-from-dict"]:
            # K1: a foreign key's entries can sort between ordinal 0 and a reachable ordinal of k
            return "C24-K1" if st.f39_pairs(keys, st.c24_nvals(ops)) else None
        # only getLast is wrong: K2 needs a foreign key anywhere below suffix(k, MaxSuffix), for a k that getLast was asked about
        asked = {o[1] for o in ops if o[0] == "last"}
        if any(a in asked for a, _ in st.f39_pairs(keys, 16 ** st.W - 1)):
            return "C24-K2"
        return None

    def nontrivial(self, case, obs):
        kind, ops = case
        if kind == "subery":
            return len({o[0] for o in ops}) >= 2 and len(ops) >= 4
        return len(st.c24_keys(ops)) >= 2 and sum(1 for o in ops if o[0] in MUT[base_kind(kind)]) >= 3

    def features(self, case, obs):
        kind, ops = case
        if kind == "subery":
            return ["subery", f"subery:stores={len({o[0] for o in ops})}"] + sorted({f"subery:{o[0]}:{o[1]}" for o in ops})
        keys = st.c24_keys(ops)
        f = [kind, f"{kind}:ops~{(len(ops) + 4) // 5 * 5}", f"keys={len(keys)}"]
        f += sorted({f"{kind}:{o[0]}" for o in ops})
        if any(a != b and b.startswith(a + st.SEP) for a in keys for b in keys):
            f.append("keyset:sep-prefix-pair")
        if any(a != b and b.startswith(a) for a in keys for b in keys):
            f.append("keyset:prefix-pair")
        if st.f39_pairs(keys, st.c24_nvals(ops)):
            f.append("keyset:F39-interleaving-possible")
        if any(isinstance(s[0], tuple) and s[0][:1] == ("raise",) for s in obs[0]):
            f.append("raised")
        return f

    def shrink(self, case):
        kind, ops = case
        if kind == "subery":
            for i in range(len(ops)):
                yield (kind, ops[:i] + ops[i + 1:])
            return
        keys = st.c24_keys(ops)
        simple = [b"a", b"b", b"c", b"d", b"e", b"f"]
        if len(keys) <= len(simple) and any(k not in simple for k in keys):
            ren = dict(zip(keys, simple))
            yield (kind, [((o[0], ren.get(o[1], o[1])) + tuple(o[2:])) if len(o) > 1 else o for o in ops])
        for i in range(len(ops)):
            yield (kind, ops[:i] + ops[i + 1:])
        for i, o in enumerate(ops):
            if o[0] in ("put", "pin") and kind != "plain" and len(o[2]) > 1:
                for j in range(len(o[2])):
                    yield (kind, ops[:i] + [(o[0], o[1], o[2][:j] + o[2][j + 1:])] + ops[i + 1:])

    def mutate(self, rng, case):
        kind, ops = case
        if kind == "subery":
            return list(self.shrink(case))[:40]
        out = list(self.shrink(case))[:40]
        keys = st.c24_keys(ops) or (b"k",)
        for _ in range(20):
            k = rng.choice(keys)
            extra = [("add", k, b"v9")] if kind != "plain" else [("put", k, b"v9")]
            i = rng.randrange(len(ops) + 1)
            out.append((kind, ops[:i] + extra + ops[i:] + [("get", k)]))
        return out


C24.level_text = (
    "Lean theorems, all unbounded: suffix_order, unsuffix_suffix_id; plain Suber at full strength (plain_refines_dict, plain_getItemIter_spec, plain_cntAll_is_size, plain_trim_is_prefix_delete); "
    "IoSuber / IoSetSuber under the EXACT guard ExactAt (no other key has its ordinal-0 entry between suffix(k,0) and suffix(k,B), B = ordinals the history consumes, B = MaxSuffix for keys getLast is asked "
    "about = the complement of the known-finding triggers K1/K2): io_refines_dict_partial, ioset_refines_dict_partial (add put pin get iter getFirst getLast pop rem rem(val) cnt), "
    "other_key_unchanged_partial, getLast_partial, contiguous_under_exact_guard, scan_sees_all_under_guard; the guard is NECESSARY: exact_guard_is_necessary (a violated pair yields a 3-op history on which "
    "store and dictionary differ, within N+2 ordinals), exact_guard_is_necessary_last, scan_short_without_contiguity; io_refines_dict_sepfree is the corollary for the simple guard. "
    "rejected_write_is_identity (non-bytes value at any batch position; io-kind pin only where the probed flag Gen.pinAtomic holds - known finding C24-K3 otherwise). With NO guard: reachable_inv, reachable_no_valueError, io_items_cntAll_spec (getItemIter()/cntAll of the whole sub-db), io_trim_all_empties. Witnesses by decide: refines_dict_fails_without_guard (F39), "
    "getLast_fails_without_guard, f39_keys_not_exact. Correspondence only: getItemIter(top)/getFullItemIter(top)/trim(top) of the io kinds with a non-empty top (they select by the suffixed key, not a "
    "dictionary notion; modelled). Tie: regenerated constants + suffix/unsuffix probe table (gen_* theorems) and a differential run on real lmdb that also compares the raw sub-db.")
C24.level_note = ("Trusted: Lean kernel + propext/Classical.choice/Quot.sound; the sorted-list model of lmdb; the translator; that the sampled correspondence is representative. "
                  "Decided OUTSIDE the quantifier: keys lmdb cannot store (empty, or longer than max_key_size 511; 478 for the io kinds) - the plain Suber maps lmdb's refusal to KeyError, the io kinds let the raw "
                  "lmdb.BadValsizeError through; no value is lost or confused, the dictionary model is claimed over lmdb-legal keys only (modelled, exercised by 2 corpus cases, no oracle clause). "
                  "Custom ionsep is exercised by oracle-only cases (kinds <class>@<n>: 14 sep/ionsep configurations incl. non-ASCII and multi-character separators, str and bytes, on all three classes; not in the Lean model); C24-K4 is repaired. Kind subery checks the library's own wiring (one Subery, cans/drqs/dsqs, same keys): three sub-db models composed in the driver + isolation clause.")

CHECK = C24()
