"""C28 — hio.help.doming data objects: serialise to dict / JSON / CBOR / MessagePack and back gives an equal object of the same class."""
from .. import core, sx
from ..areas import dom as D

ROUTES = ("dict", "json", "cbor", "mgpk")


def _res(fn):
    try:
        return ("ok", fn())
    except Exception as ex:
        # _fromX raises ValueError when datify did not produce an instance of the class; anything else is
        # reported as it is (the model only ever predicts ValueError)
        return ("raise", type(ex).__name__)


class C28(core.Check):
    pid = "C28"
    pkg = "Dom"
    props_mod = "HioModel.Props.C28"
    design_ref = "DESIGN.md §5 C28, §7 F45"
    technique = ("Lean 4 structural-induction proof on an executable model of dictify/datify over value trees and run-time schemas, "
                 "codecs as a lawful parameter; differential run of the compiled model against fresh run-time subclasses of the real Dom bases "
                 "through the real json/cbor2/msgpack; independent equality oracle on the real objects")
    level_text = ("Lean theorems for every schema, class, instance and nesting depth (unbounded): fromdict_asdict_partial (datify (dictify x)) = x for every instance whose nested "
                  "data objects sit directly in fields annotated with the class itself or Optional[class] / class | None (the latter after fix commit), other values plain; "
                  "roundtrip_any_lawful_codec_partial lifts it through ANY codec with decode (encode v) = v on the representable trees (the codec is a parameter, never an axiom); "
                  "asdict_is_plain (what is handed to a codec never contains an object). _partial because datify does not rebuild objects inside list[Dom] / dict[str, Dom] / "
                  "string ('from __future__ import annotations') / Any annotated fields (witness theorems, known finding C28-K1) and turns a plain dict that fits a class-annotated "
                  "field into an instance (witness, known finding C28-K2). That json/cbor2/msgpack are lawful on the generated domain is carried by the correspondence run only.")
    level_note = ("Trusted: Lean kernel + propext/Classical.choice/Quot.sound; dataclasses.asdict / dataclass __init__ / typing introspection as modelled; "
                  "json, cbor2, msgpack as lawful codecs on the common domain (exercised, not proved); representativeness of the sampled correspondence.")
    quick_n = 4000
    thorough_n = 30000
    rule = ("rt cases: random schema of 1-5 fresh run-time dataclasses over RawDom/RegDom/TymeDom/Ice*/MapDom bases, fields annotated Any / builtin / class / Optional[class] / "
            "class|None / list[class] / dict[str,class] / 'class' (string), defaults or required; instance of depth <= 4 with 64-bit ints, non-NaN floats incl. inf and -0.0, "
            "unicode strings, empty containers, str keys; 30% 'dirty' (objects / plain dicts in places datify does not handle). load cases: cls._fromdict on arbitrary plain trees "
            "(missing / unknown keys, defaults, empty list/str). non-trivial = instance holds a nested object or a container, or a load that exercises defaults / rejection; distinct by request line")
    trusted_base = ["correspondence harness/props/C28.py + harness/areas/dom.py: compiled model driver vs the real doming classes and the real json/cbor2/msgpack",
                    "modelled: dataclasses.asdict, dataclass keyword construction with defaults, typing.get_origin/get_args on Optional"]
    assumptions = ["json / cbor2 / msgpack decode(encode(v)) == v (type-exact) for None, bool, 64-bit int, non-NaN float, unicode str without surrogates, list, str-keyed dict"]

    def corpus(self):
        P = ("raw", [("x", ("any",), ("d", ("int", 0))), ("y", ("any",), ("d", ("null",)))])
        Q = ("raw", [("x", ("any",), None), ("y", ("any",), ("d", ("null",)))])

        def L(ann):
            return ("raw", [("a", ann, ("d", ("null",))), ("g", ("any",), ("d", ("null",)))])
        p12 = ("obj", 0, [("int", 1), ("int", 2)])
        cs = []
        for ann in (("dom", 0), ("opt", 0), ("union", 0), ("strann", 0), ("any",)):
            cs.append(("rt", [P, L(ann)], ("obj", 1, [p12, ("list", [("int", 1), ("dict", [("z", ("null",))])])])))
        cs.append(("rt", [P, L(("list", 0))], ("obj", 1, [("list", [p12]), ("null",)])))
        cs.append(("rt", [P, L(("dictof", 0))], ("obj", 1, [("dict", [("k", p12)]), ("null",)])))
        # plain values in a class-annotated field
        for v in (("dict", []), ("list", []), ("str", ""), ("dict", [("x", ("int", 1))]), ("dict", [("q", ("int", 1))]), ("null",), ("str", "x"), ("list", [("str", "x")])):
            cs.append(("rt", [P, L(("dom", 0))], ("obj", 1, [v, ("null",)])))
            cs.append(("rt", [Q, L(("dom", 0))], ("obj", 1, [v, ("null",)])))
        for base in D.ALL_BASES:
            inner = (base, [("x", ("any",), ("d", ("int", 0)))])
            outer = (base, [("a", ("dom", 0), ("d", ("null",))), ("b", ("any",), ("d", ("str", "é")))])
            cs.append(("rt", [inner, outer], ("obj", 1, [("obj", 0, [("float", sx.fbits(-0.0))]), ("int", -2 ** 63)])))
        for t in (("dict", []), ("dict", [("x", ("int", 1))]), ("dict", [("y", ("int", 1))]), ("dict", [("x", ("int", 1)), ("q", ("int", 2))]), ("list", []), ("str", ""), ("null",), ("int", 3)):
            cs.append(("load", [P], 0, t))
            cs.append(("load", [Q], 0, t))
        cs.append(("load", [P, L(("dom", 0))], 1, ("dict", [("a", ("dict", [("x", ("int", 5))]))])))
        cs.append(("load", [P, L(("opt", 0))], 1, ("dict", [("a", ("dict", [("x", ("int", 5))]))])))
        cs.append(("load", [P, L(("list", 0))], 1, ("dict", [("a", ("list", [("dict", [("x", ("int", 5))])]))])))
        return cs

    def generate(self, rng, n, tier):
        for _ in range(n):
            yield D.gen_rt(rng) if rng.random() < 0.75 else D.gen_load(rng)

    def request(self, case):
        if case[0] == "rt":
            return ("rt", D.wire_schema(case[1]), D.wire_tree(case[2]))
        return ("load", D.wire_schema(case[1]), case[2], D.wire_tree(case[3]))

    def run_impl(self, case):
        classes = D.build_classes(case[1])
        if case[0] == "load":
            cls = classes[case[2]]
            d = D.to_py(case[3], classes)
            r = _res(lambda: cls._fromdict(d))
            return (("ok", D.canon(r[1], classes)) if r[0] == "ok" else r,)
        x = D.to_py(case[2], classes)
        cls = type(x)
        orig = D.canon(x, classes)
        try:
            asd = D.canon(x._asdict(), classes)
        except Exception as ex:
            asd = ("raise", type(ex).__name__)
        routes = ["dict"] + (["json", "cbor", "mgpk"] if hasattr(cls, "_asjson") else [])
        out = []
        eqs = []
        for r in routes:
            try:
                ser = getattr(x, "_as" + r)()
            except Exception as ex:
                out.append((r, ("raise-serialize", type(ex).__name__)))
                eqs.append(False)
                continue
            if r != "dict" and not isinstance(ser, bytes):
                out.append((r, ("foreign", "notbytes")))
                eqs.append(False)
                continue
            res = _res(lambda: getattr(cls, "_from" + r)(ser))
            if res[0] == "ok":
                y = res[1]
                eqs.append(bool(y == x) and type(y) is cls)
                res = ("ok", D.canon(y, classes))
            else:
                eqs.append(False)
            out.append((r, res))
        return (orig, asd, tuple(out), tuple(eqs))

    def compare_view(self, case, obs):
        if case[0] == "load":
            return sx.dumps(obs[0])
        results = {r for _, r in obs[2]}
        if len(results) == 1:
            return sx.dumps((obs[1], next(iter(results))))
        return sx.dumps((obs[1], obs[2]))      # routes disagree among themselves: cannot match the model's single answer

    def oracle(self, case, obs):
        if case[0] == "load":
            return []
        orig, asd, routes, eqs = obs
        bad = []
        for (r, res), eq in zip(routes, eqs):
            if res[0] != "ok":
                bad.append(f"{r}-raised")
            elif not eq:
                bad.append(f"{r}-not-equal-or-other-class")
            elif res[1] != orig:
                bad.append(f"{r}-value-type-changed")
        return bad

    def known(self, case, obs, clauses):
        if case[0] != "rt":
            return None
        if not all(c.endswith("-not-equal-or-other-class") for c in clauses):
            return None
        if len({r for _, r in obs[2]}) != 1:
            return None
        if D.misplaced_obj(case[1], case[2]):
            return "C28-K1"
        if D.upgraded_plain(case[1], case[2]):
            return "C28-K2"
        return None

    def nontrivial(self, case, obs):
        if case[0] == "load":
            return case[3][0] == "dict" and len(case[3][1]) > 0
        return any(v[0] in ("obj", "list", "dict") for v in case[2][2])

    def features(self, case, obs):
        f = [case[0]]
        if case[0] == "load":
            f.append("load:" + obs[0][0])
            return f
        schema, t = case[1], case[2]
        f.append(f"classes:{len(schema)}")
        f.append(f"base:{schema[t[1]][0]}")
        anns = {a[0] for _, flds in schema for _, a, _ in flds}
        f += [f"ann:{a}" for a in sorted(anns)]

        def depth(t):
            if t[0] == "obj":
                return 1 + max([depth(x) for x in t[2]] or [0])
            if t[0] == "list":
                return max([depth(x) for x in t[1]] or [0])
            if t[0] == "dict":
                return max([depth(x) for _, x in t[1]] or [0])
            return 0
        f.append(f"objdepth:{depth(t)}")
        f.append("guard:" + ("K1" if D.misplaced_obj(schema, t) else "K2" if D.upgraded_plain(schema, t) else "clean"))
        f.append("rt:" + ("equal" if all(obs[3]) else "differs"))
        return f

    def shrink(self, case):
        if case[0] == "load":
            t = case[3]
            if t[0] == "dict":
                for i in range(len(t[1])):
                    yield ("load", case[1], case[2], ("dict", t[1][:i] + t[1][i + 1:]))
            return
        schema, t = case[1], case[2]

        def variants(t):
            if t[0] == "obj":
                for i, x in enumerate(t[2]):
                    for y in variants(x):
                        yield ("obj", t[1], t[2][:i] + [y] + t[2][i + 1:])
            elif t[0] == "list":
                for i, x in enumerate(t[1]):
                    yield ("list", t[1][:i] + t[1][i + 1:])
                    for y in variants(x):
                        yield ("list", t[1][:i] + [y] + t[1][i + 1:])
                yield ("null",)
            elif t[0] == "dict":
                for i, (k, x) in enumerate(t[1]):
                    yield ("dict", t[1][:i] + t[1][i + 1:])
                    for y in variants(x):
                        yield ("dict", t[1][:i] + [(k, y)] + t[1][i + 1:])
                yield ("null",)
            elif t[0] != "null":
                yield ("null",)
                if t[0] == "int" and t[1] not in (0, 1):
                    yield ("int", 1)
                if t[0] == "str" and len(t[1]) > 1:
                    yield ("str", t[1][:1])
        for v in variants(t):
            yield ("rt", schema, v)
        # replace a nested object by null
        def nulls(t):
            if t[0] == "obj":
                for i, x in enumerate(t[2]):
                    if x[0] == "obj":
                        yield ("obj", t[1], t[2][:i] + [("null",)] + t[2][i + 1:])
                    for y in nulls(x):
                        yield ("obj", t[1], t[2][:i] + [y] + t[2][i + 1:])
        for v in nulls(t):
            yield ("rt", schema, v)

    def mutate(self, rng, case):
        return list(self.shrink(case))[:60]


CHECK = C28()
