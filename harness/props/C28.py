"""C28 — hio.help.doming data objects: serialise to dict / JSON / CBOR / MessagePack and back gives an equal object of the same class."""
from .. import core, sx
from ..areas import dom as D

ROUTES = ("dict", "json", "cbor", "mgpk")


def _res(fn):
    try:
        return ("ok", fn())
    except Exception as ex:
        # _fromX raises ValueError when datify did not produce an instance of the class; anything else is
        # reported as it is (the model only ever predicts ValueError)
        return ("raise", type(ex).__name__)


class C28(core.Check):
    pid = "C28"
    pkg = "Dom"
    props_mod = "HioModel.Props.C28"
    design_ref = "DESIGN.md §5 C28, §7 F45"
    technique = ("Lean 4 structural-induction proof on an executable model of dictify/datify over value trees and run-time schemas, "
                 "codecs as a lawful parameter; differential run of the compiled model against fresh run-time subclasses of the real Dom bases "
                 "through the real json/cbor2/msgpack; independent equality oracle on the real objects")
    level_text = ("Lean theorems for every schema, class, instance and nesting depth (unbounded): fromdict_asdict_partial (datify (dictify x)) = x for every instance whose nested "
                  "data objects sit directly in fields annotated with their class or with a union (Optional[C], C | None, A | B | None, Optional[Union[A, B]]) in which every member tried "
                  "EARLIER lacks one of the object's field names (guard wt; datify over a union tries the members in order and keeps the first that accepts), other values plain; "
                  "roundtrip_any_lawful_codec_partial / roundtrip_lawful_on_domain_partial lift it through ANY codec with decode (encode v) = v on the tree handed to it (the codec is a parameter, never an axiom); "
                  "asdict_is_plain; union_second_member_roundtrips. _partial because of three characterised sets, each with a witness theorem and a known finding: objects inside list[Dom] / dict[str, Dom] / "
                  "string-annotated / Any fields (C28-K1), a plain dict that fits a class-annotated field (C28-K2), union members that the field names do not distinguish (union_ambiguous_members_fail, C28-K3). "
                  "In the model every call is a function of its argument only; that the real functions are too (no state shared between calls, no aliasing between results) and that json/cbor2/msgpack are "
                  "lawful on the generated domain is carried by the correspondence and the oracle over call HISTORIES (failed serialisations in between, the same bytes loaded twice with the first result scribbled on).")
    level_note = ("Trusted: Lean kernel + propext/Classical.choice/Quot.sound; dataclasses.asdict / dataclass __init__ / typing introspection as modelled; "
                  "json, cbor2, msgpack as lawful codecs on the common domain (exercised, not proved); representativeness of the sampled correspondence.")
    quick_n = 1200
    thorough_n = 30000
    rule = ("rt cases: random schema of 1-5 fresh run-time dataclasses over RawDom/RegDom/TymeDom/Ice*/MapDom bases or subclasses of earlier generated classes (inheritance depth >= 2, redeclared fields), field names incl. leading/trailing/double underscore and unicode identifiers, fields annotated Any / builtin / class / Optional[class] / "
            "class|None / unions of 2-3 classes in either spelling (values of EVERY member) / list[class] / dict[str,class] / 'class' (string), defaults or required; instance of depth <= 4 with 64-bit ints, "
            "non-NaN floats incl. inf and -0.0, unicode strings, empty containers, str keys; 30% 'dirty'. Every raw route also loads the same bytes a second time after every list/dict of the first result was "
            "changed in place. load cases: cls._fromdict on arbitrary plain trees. seq cases (30%): 2-6 calls in one freshly imported module: round trips (also of the same instance again), loads, and "
            "serialisations of a record holding an unserialisable object that must be refused, interleaved. non-trivial = some step holds a nested object or a container, or a load of a non-empty dict; distinct by request line")
    trusted_base = ["correspondence harness/props/C28.py + harness/areas/dom.py: compiled model driver vs the real doming classes and the real json/cbor2/msgpack",
                    "modelled: dataclasses.asdict, dataclass keyword construction with defaults, typing.get_origin/get_args on Optional"]
    assumptions = ["json / cbor2 / msgpack decode(encode(v)) == v (type-exact) for None, bool, 64-bit int, non-NaN float, unicode str without surrogates, list, str-keyed dict"]

    def corpus(self):
        P = ("raw", [("x", ("any",), ("d", ("int", 0))), ("y", ("any",), ("d", ("null",)))])
        Q = ("raw", [("x", ("any",), None), ("y", ("any",), ("d", ("null",)))])

        def L(ann):
            return ("raw", [("a", ann, ("d", ("null",))), ("g", ("any",), ("d", ("null",)))])
        p12 = ("obj", 0, [("int", 1), ("int", 2)])
        cs = []
        for ann in (("dom", 0), ("opt", 0), ("union", 0), ("strann", 0), ("any",)):
            cs.append(("rt", [P, L(ann)], ("obj", 1, [p12, ("list", [("int", 1), ("dict", [("z", ("null",))])])])))
        cs.append(("rt", [P, L(("list", 0))], ("obj", 1, [("list", [p12]), ("null",)])))
        cs.append(("rt", [P, L(("dictof", 0))], ("obj", 1, [("dict", [("k", p12)]), ("null",)])))
        # plain values in a class-annotated field
        for v in (("dict", []), ("list", []), ("str", ""), ("dict", [("x", ("int", 1))]), ("dict", [("q", ("int", 1))]), ("null",), ("str", "x"), ("list", [("str", "x")])):
            cs.append(("rt", [P, L(("dom", 0))], ("obj", 1, [v, ("null",)])))
            cs.append(("rt", [Q, L(("dom", 0))], ("obj", 1, [v, ("null",)])))
        for base in ("raw", "reg", "tyme", "iceraw", "icereg", "icetyme", "map", "icemap"):
            inner = (base, [("x", ("any",), ("d", ("int", 0)))])
            outer = (base, [("a", ("dom", 0), ("d", ("null",))), ("b", ("any",), ("d", ("str", "é")))])
            cs.append(("rt", [inner, outer], ("obj", 1, [("obj", 0, [("float", sx.fbits(-0.0))]), ("int", -2 ** 63)])))
        for t in (("dict", []), ("dict", [("x", ("int", 1))]), ("dict", [("y", ("int", 1))]), ("dict", [("x", ("int", 1)), ("q", ("int", 2))]), ("list", []), ("str", ""), ("null",), ("int", 3)):
            cs.append(("load", [P], 0, t))
            cs.append(("load", [Q], 0, t))
        cs.append(("load", [P, L(("dom", 0))], 1, ("dict", [("a", ("dict", [("x", ("int", 5))]))])))
        cs.append(("load", [P, L(("opt", 0))], 1, ("dict", [("a", ("dict", [("x", ("int", 5))]))])))
        cs.append(("load", [P, L(("list", 0))], 1, ("dict", [("a", ("list", [("dict", [("x", ("int", 5))])]))])))
        # unions of several data-object classes: a value of every member, distinguishable and not
        Ci = ("raw", [("r", ("any",), ("d", ("int", 0)))])
        Sq = ("raw", [("s", ("any",), ("d", ("int", 0)))])
        Bx = ("raw", [("r", ("any",), ("d", ("int", 1)))])
        for kind in ("opt", "union"):
            for j, v in ((0, ("obj", 0, [("float", sx.fbits(1.5))])), (1, ("obj", 1, [("float", sx.fbits(3.0))])), (None, ("null",))):
                cs.append(("rt", [Ci, Sq, L((kind, [0, 1]))], ("obj", 2, [v, ("null",)])))
                cs.append(("rt", [Ci, Sq, L((kind, [1, 0]))], ("obj", 2, [v, ("null",)])))
            cs.append(("rt", [Ci, Bx, L((kind, [0, 1]))], ("obj", 2, [("obj", 1, [("int", 3)]), ("null",)])))      # ambiguous: C28-K3
        # adversarial field names (leading / trailing / double underscore, unicode) at top level and in a nested object
        U = ("raw", [("_", ("any",), None), ("_seq", ("any",), ("d", ("int", 0))), ("__d", ("any",), ("d", ("null",))), ("x_", ("any",), ("d", ("str", ""))), ("_é", ("any",), ("d", ("int", 1)))])
        uobj = ("obj", 0, [("str", "u"), ("int", 7), ("list", [("int", 1)]), ("str", "t"), ("int", 2)])
        for base in ("raw", "iceraw", "tyme", "icereg"):
            Ub = (base, [(f, a, d if d is not None or base not in ("tyme",) else ("d", ("null",))) for f, a, d in U[1]])
            cs.append(("rt", [Ub], uobj))
            cs.append(("rt", [Ub, (base, [("_in", ("dom", 0), ("d", ("null",))), ("g", ("any",), ("d", ("null",)))])], ("obj", 1, [uobj, ("null",)])))
        # inheritance, depth 2: the nested object sits in a field declared in the BASE class; a redeclared field
        A0 = ("raw", [("inner", ("dom", 0), ("d", ("null",))), ("n", ("any",), ("d", ("int", 0)))])
        A1 = (("sub", 1), [("m", ("any",), ("d", ("null",)))])
        A2 = (("sub", 2), [("n", ("any",), ("d", ("int", 5))), ("_k", ("opt", [0]), ("d", ("null",)))])
        cs.append(("rt", [P, A0, A1, A2], ("obj", 3, [p12, ("int", 9), ("str", "m"), ("obj", 0, [("int", 3), ("int", 4)])])))
        cs.append(("rt", [P, A0, A1, A2], ("obj", 2, [p12, ("int", 9), ("list", [])])))
        cs.append(("load", [P, A0, A1, A2], 3, ("dict", [("inner", ("dict", [("x", ("int", 1))])), ("_k", ("dict", []))])))
        # union members that validate in __post_init__: the earlier member REJECTS the stored later member's dict
        for exc in D.EXCS:
            for kind in ("opt", "union"):
                Pc = (("chk", "raw", "n", 0, 100, exc), [("n", ("any",), ("d", ("int", 0)))])
                Ct = ("raw", [("n", ("any",), ("d", ("int", 0)))])
                Lv = ("raw", [("level", (kind, [0, 1]), ("d", ("null",))), ("g", ("any",), ("d", ("null",)))])
                cs.append(("rt", [Pc, Ct, Lv], ("obj", 2, [("obj", 1, [("int", 500)]), ("null",)])))       # Count(500): Percent rejects, Count takes it
                cs.append(("rt", [Pc, Ct, Lv], ("obj", 2, [("obj", 0, [("int", 50)]), ("null",)])))
                cs.append(("rt", [Pc, Ct, Lv], ("obj", 2, [("obj", 1, [("int", 50)]), ("null",)])))        # ambiguous: K3
        cs.append(("load", [(("chk", "iceraw", "n", 0, 100, "Rejected"), [("n", ("any",), ("d", ("int", 500)))])], 0, ("dict", [])))
        cs.append(("load", [(("chk", "iceraw", "n", 0, 100, "Rejected"), [("n", ("any",), ("d", ("int", 5)))])], 0, ("dict", [("n", ("int", 101))])))
        # sizes around the limits libraries put on what they unpack (msgpack < 1.0 defaults): 2^15 map items, 2^17 array items, 2^20 bytes of str
        G = ("raw", [("g", ("any",), ("d", ("null",)))])
        cs += self._limit_cases(1)          # one above each limit always; exactly at the limits in the thorough tier (exhaustive())
        # inheritance over the library's decorated bases with every decorator combination on the child that ADDS fields
        for root in ("tyme", "icetyme", "bag", "icebag", "reg", "raw", "iceraw"):
            for d1 in ("nr", "r", "n", ""):
                for d2 in ("r", "", "nr"):
                    if root in ("raw", "iceraw") and ("r" in d1 or "r" in d2):
                        continue
                    K0 = (("dec", root, d1), [("aa", ("any",), ("d", ("int", 1)))])
                    K1 = (("dec", ("sub", 0), d2), [("bb", ("any",), ("d", ("null",))), ("cc", ("any",), ("d", ("str", "c")))])
                    K2 = (("sub", 1), [("dd", ("opt", [0]), ("d", ("null",)))])
                    vals1 = ([("null",)] if root in ("bag", "icebag") else []) + [("int", 2), ("list", [("int", 3)]), ("str", "x")]
                    cs.append(("rt", [K0, K1, K2], ("obj", 1, vals1)))
                    cs.append(("rt", [K0, K1, K2], ("obj", 2, vals1 + [("obj", 0, ([("str", "v")] if root in ("bag", "icebag") else []) + [("int", 9)])])))
        # classes that define the _dictify / _datify hook pair: on every family, frozen and mutable, top level and nested, inherited
        for root in ("raw", "iceraw", "reg", "icereg", "tyme", "icetyme", "map", "icemap", "bag"):
            for kind in ("rename", "wrap"):
                H0 = (("hook", root, kind), [("level", ("any",), ("d", ("int", 0))), ("tags", ("any",), ("d", ("null",)))])
                H1 = (("sub", 0), [("more", ("any",), ("d", ("str", "m")))])
                Ho = (root if root != "bag" else "raw", [("inner", ("dom", 0), ("d", ("null",))), ("g", ("any",), ("d", ("null",)))])
                pre_ = [("null",)] if root == "bag" else []
                cs.append(("rt", [H0, H1, Ho], ("obj", 0, pre_ + [("float", sx.fbits(1.5)), ("list", [("int", 5)])])))
                cs.append(("rt", [H0, H1, Ho], ("obj", 1, pre_ + [("list", [("int", 1), ("int", 2)]), ("dict", [("k", ("int", 1))]), ("str", "x")])))
                cs.append(("rt", [H0, H1, Ho], ("obj", 2, [("obj", 0, pre_ + [("int", 3), ("null",)]), ("null",)])))          # nested: C28-K5
                cs.append(("load", [H0, H1, Ho], 0, ("dict", [("level", ("int", 1))])))
                cs.append(("load", [H0, H1, Ho], 0, ("dict", [("h_level", ("int", 1))])))
                cs.append(("load", [H0, H1, Ho], 0, ("dict", [("level", ("list", [("int", 1)]))])))
        # histories in one process: a failed serialisation must not change what comes after it; the same bytes load twice
        good = ("obj", 1, [p12, ("list", [("int", 1), ("dict", [("z", ("list", []))])])])
        for base in ("raw", "iceraw", "icetyme", "reg"):
            Pb = (base, P[1])
            Lb = (base, L(("dom", 0))[1])
            cs.append(("seq", [Pb, Lb], [("rt", good), ("bad", "raw"), ("rt", good), ("bad", "iceraw"), ("bad", "raw"), ("rt", good), ("load", 0, ("dict", [("x", ("int", 1))]))]))
        return cs

    @staticmethod
    def _limit_cases(delta):
        G = ("raw", [("g", ("any",), ("d", ("null",)))])
        return [("rt", [G], ("obj", 0, [("dict", [(f"k{i:05d}", ("int", i)) for i in range(2 ** 15 + delta)])])),
                ("rt", [G], ("obj", 0, [("list", [("int", i & 1) for i in range(2 ** 17 + delta)])])),
                ("rt", [("iceraw", G[1])], ("obj", 0, [("list", [("str", "s" * (2 ** 20 + delta)), ("int", 1)])]))]

    def exhaustive(self, tier):
        if tier != "thorough":
            return [], None
        return self._limit_cases(0) + self._limit_cases(2), "records exactly at and two above the unpack limits (2^15 map items, 2^17 array items, 2^20 str bytes)"

    def generate(self, rng, n, tier):
        for _ in range(n):
            r = rng.random()
            yield D.gen_rt(rng) if r < 0.42 else D.gen_rt_validated(rng) if r < 0.5 else D.gen_load(rng) if r < 0.7 else D.gen_seq(rng)

    # ---------------------------------------------------------------- wire
    @staticmethod
    def _steps(case):
        if case[0] == "rt":
            return [("rt", case[2])]
        if case[0] == "load":
            return [("load", case[2], case[3])]
        return list(case[2])

    def request(self, case):
        if case[0] == "rt":
            return ("rt", D.wire_schema(case[1]), D.wire_tree(case[2]))
        if case[0] == "load":
            return ("load", D.wire_schema(case[1]), case[2], D.wire_tree(case[3]))
        steps = []
        for st in case[2]:
            if st[0] == "rt":
                steps.append(("rt", D.wire_tree(st[1])))
            elif st[0] == "load":
                steps.append(("load", st[1], D.wire_tree(st[2])))
            else:
                steps.append(("bad",))
        return ("seq", D.wire_schema(case[1]), tuple(steps))

    # ---------------------------------------------------------------- implementation
    @staticmethod
    def _containers(v, out):
        """ids of every list / dict reachable from v (through data objects too)"""
        import dataclasses
        if isinstance(v, list):
            out.add(id(v))
            for x in v:
                C28._containers(x, out)
        elif isinstance(v, dict):
            out.add(id(v))
            for x in v.values():
                C28._containers(x, out)
        elif dataclasses.is_dataclass(v) and not isinstance(v, type):
            for f in dataclasses.fields(v):
                C28._containers(getattr(v, f.name), out)
        return out

    @staticmethod
    def _scribble(v):
        """change every list / dict reachable from v in place (what a caller may legitimately do with ITS object)"""
        import dataclasses
        if isinstance(v, list):
            for x in v:
                C28._scribble(x)
            v.append("scribbled")
        elif isinstance(v, dict):
            for x in list(v.values()):
                C28._scribble(x)
            v["scribbled"] = True
        elif dataclasses.is_dataclass(v) and not isinstance(v, type):
            for f in dataclasses.fields(v):
                C28._scribble(getattr(v, f.name))

    def _rt_step(self, classes, tree):
        import dataclasses
        from hio.help import doming
        try:
            x = D.to_py(tree, classes)
            cls = type(x)
            orig = D.canon(x, classes)
        except Exception as ex:          # a record of the schema could not even be built
            return ("rt", ("construct-raised", type(ex).__name__), "null", (), ())
        extra = []
        if not dataclasses.fields(cls) or not getattr(cls, "__dataclass_params__").frozen:
            # item-style (re)assignment of every field after construction, in reverse order: the object stays what it was
            try:
                for f in reversed(dataclasses.fields(cls)):
                    x[f.name] = getattr(x, f.name)
                if hasattr(x, "_update"):
                    x._update(**{f.name: getattr(x, f.name) for f in dataclasses.fields(cls)[-1:]})
                if D.canon(x, classes) != orig:
                    extra.append("setitem-changed-value")
            except Exception as ex:
                extra.append("setitem-raised-" + type(ex).__name__)
            if hasattr(x, "_update"):
                try:      # the two positional forms of _update: a mapping, an iterable of pairs
                    x._update({f.name: getattr(x, f.name) for f in dataclasses.fields(cls)[:1]})
                    x._update([(f.name, getattr(x, f.name)) for f in dataclasses.fields(cls)[:2]])
                    if D.canon(x, classes) != orig:
                        extra.append("setitem-changed-value")
                except Exception as ex:
                    extra.append("update-positional-raised-" + type(ex).__name__)
        try:
            # the mapping face of a record: iteration gives the keys of its dict form, item access the field values
            if list(x) != list(x._asdict()) or any(x[f.name] is not getattr(x, f.name) for f in dataclasses.fields(cls)):
                extra.append("mapping-interface-wrong")
        except Exception as ex:
            extra.append("mapping-interface-raised-" + type(ex).__name__)
        try:
            d0 = x._asdict()
            asd = D.canon(d0, classes)
            self._scribble(d0)           # the dict handed out is the caller's: changing it must not reach the record
            if D.canon(x, classes) != orig:
                extra.append("asdict-aliases-the-record")
        except Exception as ex:
            asd = ("raise", type(ex).__name__)
        routes = ["dict", "func"] + (["json", "cbor", "mgpk"] if hasattr(cls, "_asjson") else [])
        out = []
        eqs = []
        for r in routes:
            try:
                ser = doming.dictify(x) if r == "func" else getattr(x, "_as" + r)()
            except Exception as ex:
                out.append((r, ("raise-serialize", type(ex).__name__)))
                eqs.append(False)
                continue
            if r not in ("dict", "func") and not isinstance(ser, bytes):
                out.append((r, ("foreign", "notbytes")))
                eqs.append(False)
                continue

            def load(form=0):
                if r == "func":          # the module-level functions, with the check _fromdict adds
                    y = doming.datify(cls, ser)
                    if not isinstance(y, cls):
                        raise ValueError("datify did not give an instance")
                    return y
                arg = ser
                if form == 1 and r == "json":
                    arg = ser.decode("utf-8")        # _fromjson takes str as well as bytes
                elif form == 1 and r in ("cbor", "mgpk"):
                    arg = bytearray(ser)
                return getattr(cls, "_from" + r)(arg)
            res = _res(load)
            if res[0] == "ok":
                y = res[1]
                eq = bool(y == x) and type(y) is cls
                res = ("ok", D.canon(y, classes))
                if eq and r != "func":
                    # what came back serialises to the very same thing again
                    again_ser = _res(lambda: getattr(y, "_as" + r)())
                    if again_ser != ("ok", ser):
                        res = ("ok-but-reserialises-differently", res[1])
                        eq = False
                if r not in ("dict", "func"):
                    # deserialising the same bytes once more (in the other accepted form), after the caller changed the
                    # containers of the first result, must give the same value again, built from fresh containers
                    first = self._containers(y, set())
                    self._scribble(y)
                    again = _res(lambda: load(1))
                    if again[0] != "ok" or D.canon(again[1], classes) != res[1] or (first & self._containers(again[1], set())):
                        res = ("ok-but-second-load-differs", res[1])
                        eq = False
                eqs.append(eq)
            else:
                eqs.append(False)
            out.append((r, res))
        return ("rt", orig, asd, tuple(out), tuple(eqs)) + ((tuple(extra),) if extra else ())

    def _load_step(self, classes, j, tree):
        """cls._fromdict(d) and, for the same plain tree encoded by the real json / cbor2 / msgpack, cls._fromjson/_fromcbor/_frommgpk"""
        import json
        import cbor2
        import msgpack
        cls = classes[j]

        def one(fn):
            r = _res(fn)
            return ("ok", D.canon(r[1], classes)) if r[0] == "ok" else r
        first = one(lambda: cls._fromdict(D.to_py(tree, classes)))
        others = []
        if hasattr(cls, "_fromjson"):
            plain = D.to_py(tree, classes)
            for r, enc in (("json", lambda v: json.dumps(v, ensure_ascii=False).encode()), ("cbor", cbor2.dumps), ("mgpk", msgpack.dumps)):
                try:
                    raw = enc(plain)
                except Exception:
                    continue
                got = one(lambda: getattr(cls, "_from" + r)(raw))
                if got != first:
                    others.append((r, got))
        return ("load", first) + ((tuple(others),) if others else ())

    def _bad_step(self, base, variant="object"):
        """serialise a record that holds an object no codec can represent: every route must refuse, and nothing may be
        left behind that changes a later call"""
        import dataclasses
        import typing
        from hio.help import doming
        bases = dict(raw=doming.RawDom, reg=doming.RegDom, iceraw=doming.IceRawDom, icetyme=doming.IceTymeDom)
        cls = dataclasses.make_dataclass(f"C28Bad{next(D._counter)}", [("a", typing.Any, dataclasses.field(default=None)),
                                                                        ("x", typing.Any, dataclasses.field(default=None))],
                                         bases=(bases[base],), frozen=base.startswith("ice"))
        if base in ("reg", "icetyme"):
            cls = doming.registerify(cls)
        if base == "icetyme":
            cls = doming.namify(cls)
        rec = cls(a={"k": [1, "two"]}, x=object() if variant == "object" else "lone surrogate \udc80")
        out = []
        for r in ("json", "cbor", "mgpk"):
            try:
                getattr(rec, "_as" + r)()
                out.append((r, "accepted"))
            except Exception:
                out.append((r, "refused"))
            # bytes that are not a serialisation at all, and a truncated one: deserialising must refuse as well
            for junk in (b"\xc1\xff\x00garbage", b'{"a":[1', b""):
                try:
                    getattr(cls, "_from" + r)(junk)
                    out.append((r, "accepted"))
                except Exception:
                    out.append((r, "refused"))
        return ("bad", tuple(out))

    def run_impl(self, case):
        """every case is ONE self-contained history: the module under test is re-imported first, so whatever state it keeps
        between calls (caches, shared encoders, registries) starts clean and a replay of the case alone reproduces it.
        (A forked child per case would isolate more but costs ~0.2 s per case here.)"""
        import importlib
        import warnings
        from hio.help import doming
        with warnings.catch_warnings():
            warnings.simplefilter("ignore")
            importlib.reload(doming)
        return self._run_steps(case)

    def _run_steps(self, case):
        try:
            classes = D.build_classes(case[1])
        except Exception as ex:          # the schema's classes could not even be declared
            return (("rt", ("construct-raised", "declare:" + type(ex).__name__), "null", (), ()),)
        out = []
        for st in self._steps(case):
            if st[0] == "rt":
                out.append(self._rt_step(classes, st[1]))
            elif st[0] == "load":
                out.append(self._load_step(classes, st[1], st[2]))
            else:
                out.append(self._bad_step(*st[1:]))
        return tuple(out)

    def _view(self, so):
        if so[0] == "load":
            return sx.dumps(so[1]) if len(so) == 2 else sx.dumps(so[1:])
        if so[0] == "bad":
            return "(bad)" if all(v == "refused" for _, v in so[1]) else sx.dumps(so)
        results = {r for _, r in so[3]}
        if len(results) == 1:
            return sx.dumps((so[2], next(iter(results))))
        return sx.dumps((so[2], so[3]))      # routes disagree among themselves: cannot match the model's single answer

    def compare_view(self, case, obs):
        if case[0] != "seq":
            return self._view(obs[0])
        return "(" + " ".join(self._view(so) for so in obs) + ")"

    # ---------------------------------------------------------------- oracle
    @staticmethod
    def _step_clauses(so):
        if so[0] == "load":
            return [] if len(so) == 2 else [f"{r}-loads-differently-from-fromdict" for r, _ in so[2]]
        if so[0] == "bad":
            return sorted({f"{r}-accepted-unserializable-or-garbage" for r, v in so[1] if v != "refused"})
        _, orig, asd, routes, eqs = so[:5]
        if isinstance(orig, tuple) and orig[:1] == ("construct-raised",):
            return ["record-could-not-be-built-" + orig[1]]
        bad = list(so[5]) if len(so) > 5 else []
        for (r, res), eq in zip(routes, eqs):
            if res[0] == "ok-but-reserialises-differently":
                bad.append(f"{r}-reserialises-differently")
            elif res[0] == "ok-but-second-load-differs":
                bad.append(f"{r}-second-load-differs-or-shares-containers")
            elif res[0] != "ok":
                bad.append(f"{r}-raised")
            elif not eq:
                bad.append(f"{r}-not-equal-or-other-class")
            elif res[1] != orig:
                bad.append(f"{r}-value-type-changed")
        return bad

    def oracle(self, case, obs):
        bad = []
        for so in obs:
            for c in self._step_clauses(so):
                if c not in bad:
                    bad.append(c)
        return bad

    def known(self, case, obs, clauses):
        ids = set()
        schema = case[1]
        for st, so in zip(self._steps(case), obs):
            cl = self._step_clauses(so)
            if not cl:
                continue
            if st[0] != "rt" or not all(c.endswith("-not-equal-or-other-class") for c in cl):
                return None
            if len({r for _, r in so[3]}) != 1:
                return None
            if D.misplaced_obj(schema, st[1]):
                ids.add("C28-K1")
            elif D.upgraded_plain(schema, st[1]):
                ids.add("C28-K2")
            elif D.ambiguous_union(schema, st[1]):
                ids.add("C28-K3")
            elif D.nested_hooked(schema, st[1]):
                ids.add("C28-K5")
            else:
                return None
        return sorted(ids)[0] if ids else None

    def nontrivial(self, case, obs):
        for st in self._steps(case):
            if st[0] == "load" and st[2][0] == "dict" and len(st[2][1]) > 0:
                return True
            if st[0] == "rt" and any(v[0] in ("obj", "list", "dict") for v in st[1][2]):
                return True
        return False

    def features(self, case, obs):
        f = [case[0]]
        schema = case[1]
        if case[0] == "seq":
            f.append(f"seq:len{len(case[2])}")
            kinds = [st[0] for st in case[2]]
            if any(a == "bad" and b == "rt" for a, b in zip(kinds, kinds[1:])):
                f.append("seq:rt-right-after-failed-serialisation")
        for st, so in zip(self._steps(case), obs):
            if st[0] == "load":
                f.append("load:" + so[1][0])
                continue
            if st[0] == "bad":
                f.append("bad:" + st[1])
                continue
            t = st[1]
            f.append(f"base:{D.base_of(schema, t[1])}")
            if any(isinstance(b, (tuple, list)) for b, _ in schema):
                f.append("schema:has-subclass")
            if any(fn.startswith("_") for k in range(len(schema)) for fn, _, _ in D.fields_of(schema, k)):
                f.append("schema:underscore-field")
            anns = {a[0] + ("-multi" if a[0] in ("opt", "union") and len(D.members(a)) > 1 else "") for _, flds in schema for _, a, _ in flds}
            f += [f"ann:{a}" for a in sorted(anns)]

            def depth(t):
                if t[0] == "obj":
                    return 1 + max([depth(x) for x in t[2]] or [0])
                if t[0] == "list":
                    return max([depth(x) for x in t[1]] or [0])
                if t[0] == "dict":
                    return max([depth(x) for _, x in t[1]] or [0])
                return 0

            def later_member(t, ann=("dom", None)):
                if t[0] != "obj":
                    return False
                ms = D.members(ann) if D.class_ann(ann) and ann[1] is not None else []
                if len(ms) > 1 and t[1] in ms and ms.index(t[1]) > 0:
                    return True
                return any(later_member(x, a) for x, (_, a, _) in zip(t[2], D.fields_of(schema, t[1])))
            f.append(f"objdepth:{depth(t)}")
            if later_member(t):
                f.append("union:value-of-later-member")
            f.append("guard:" + ("K1" if D.misplaced_obj(schema, t) else "K2" if D.upgraded_plain(schema, t) else "K3" if D.ambiguous_union(schema, t) else "K5" if D.nested_hooked(schema, t) else "clean"))
            if D.hook_of(schema, t[1]) is not None:
                f.append("hooked-class:" + D.hook_of(schema, t[1]) + ":" + D.base_of(schema, t[1]))
            f.append("rt:" + ("equal" if so[4] and all(so[4]) else "differs"))
        return f

    def shrink(self, case):
        if case[0] == "seq":
            steps = case[2]
            for i in range(len(steps)):
                yield ("seq", case[1], steps[:i] + steps[i + 1:])
            if len(steps) == 1 and steps[0][0] == "rt":
                yield ("rt", case[1], steps[0][1])
            for i, st in enumerate(steps):
                if st[0] == "rt":
                    for c in self.shrink(("rt", case[1], st[1])):
                        yield ("seq", case[1], steps[:i] + [("rt", c[2])] + steps[i + 1:])
            return
        if case[0] == "load":
            t = case[3]
            if t[0] == "dict":
                for i in range(len(t[1])):
                    yield ("load", case[1], case[2], ("dict", t[1][:i] + t[1][i + 1:]))
            return
        schema, t = case[1], case[2]

        def variants(t):
            if t[0] == "obj":
                for i, x in enumerate(t[2]):
                    for y in variants(x):
                        yield ("obj", t[1], t[2][:i] + [y] + t[2][i + 1:])
            elif t[0] in ("list", "dict") and len(t[1]) > 512:
                # a size-class witness: shrink by halves / by one, not element by element
                yield (t[0], t[1][:len(t[1]) // 2])
                yield (t[0], t[1][:-1])
            elif t[0] == "list":
                for i, x in enumerate(t[1]):
                    yield ("list", t[1][:i] + t[1][i + 1:])
                    for y in variants(x):
                        yield ("list", t[1][:i] + [y] + t[1][i + 1:])
                yield ("null",)
            elif t[0] == "dict":
                for i, (k, x) in enumerate(t[1]):
                    yield ("dict", t[1][:i] + t[1][i + 1:])
                    for y in variants(x):
                        yield ("dict", t[1][:i] + [(k, y)] + t[1][i + 1:])
                yield ("null",)
            elif t[0] != "null":
                yield ("null",)
                if t[0] == "int" and t[1] not in (0, 1):
                    yield ("int", 1)
                if t[0] == "str" and len(t[1]) > 1:
                    yield ("str", t[1][:1])
        for v in variants(t):
            yield ("rt", schema, v)
        # replace a nested object by null
        def nulls(t):
            if t[0] == "obj":
                for i, x in enumerate(t[2]):
                    if x[0] == "obj":
                        yield ("obj", t[1], t[2][:i] + [("null",)] + t[2][i + 1:])
                    for y in nulls(x):
                        yield ("obj", t[1], t[2][:i] + [y] + t[2][i + 1:])
        for v in nulls(t):
            yield ("rt", schema, v)

    def mutate(self, rng, case):
        return list(self.shrink(case))[:60]


CHECK = C28()
