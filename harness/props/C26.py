"""C26 — Base64 integer and code conversions are exact inverses (hio.help.helping)."""
from .. import core, sx
from ..extract import b64 as xb64

B64 = "ABCDEFGHIJKLMNOPQRSTUVWXYZabcdefghijklmnopqrstuvwxyz0123456789-_"


def _res(fn, *a):
    try:
        r = fn(*a)
    except Exception as ex:     # every exception class becomes an observation (never a harness crash)
        return ("raise", type(ex).__name__)
    if isinstance(r, str):
        return ("ok",) + tuple(ord(c) for c in r)
    if isinstance(r, (bytes, bytearray)):
        return ("ok",) + tuple(r)
    return ("ok", r)


def _both(fn, s):
    """call fn on the str and on its utf-8 bytes (the helpers accept both); one result when they agree"""
    r = _res(fn, s)
    try:
        b = s.encode("utf-8")
    except UnicodeEncodeError:   # lone surrogates: only the str form exists
        return (r,)
    rb = _res(fn, b)
    if rb != r:
        return (r, ("bytes-variant-differs",) + rb)
    ra = _res(fn, bytearray(b))
    return (r,) if ra == r else (r, ("bytearray-variant-differs",) + ra)


# calls that RAISE on the unchanged tree (wrong argument types, short or foreign input), some of them only after part of
# the work was done; a later valid call in the same process must not see anything of them (the helpers are pure functions).
# Every entry terminates on the unchanged tree (no negative ints: `while l or i` never ends for them).
BAD = [("intToB64", (4095, 2.0)), ("intToB64", (4095, None)), ("intToB64", (4095, "2")), ("intToB64", (1.5, 1)),
       ("intToB64", (64 ** 5 + 7, 4 / 2)), ("intToB64b", (70000, 2.5)), ("intToB64b", (70000, None)),
       ("b64ToInt", (None,)), ("b64ToInt", (5,)), ("b64ToInt", ("\u00e9A",)), ("b64ToInt", (b"A\xff",)), ("b64ToInt", ("",)),
       ("codeB64ToB2", ("AB=",)), ("codeB64ToB2", (None,)), ("codeB64ToB2", ("",)),
       ("codeB2ToB64", (b"\xff", 5)), ("codeB2ToB64", (b"\xff\xff\xff", 2.5)), ("codeB2ToB64", (None, 1)), ("codeB2ToB64", (b"\xff\xff\xff", None)),
       ("nabSextets", (b"", 3)), ("nabSextets", (b"abc", "2")), ("nabSextets", (None, 1)), ("nabSextets", (b"abcd", 2.5))]

TEXT = [0x41, 0x42, 0x5F, 0x2D, 0x7A, 0x30, 0xE9, 0xF8, 0xC5, 0xA0, 0x20AC, 0x2192, 0x1D11E, 0x10FFFF, 0x80, 0x7FF, 0x800]


def _target(fn, b, l):
    """one helper on a binary target given as bytes, bytearray and — when the bytes are valid utf-8 — as the str they
    encode (the helpers accept both and encode a str first); one result when all agree"""
    r = _res(fn, bytes(b), l)
    out = [r]
    ra = _res(fn, bytearray(b), l)
    if ra != r:
        out.append(("bytearray-variant-differs",) + ra)
    try:
        t = bytes(b).decode("utf-8")
    except UnicodeDecodeError:
        t = None
    if t is not None:
        rs = _res(fn, t, l)
        if rs != r:
            out.append(("str-variant-differs",) + rs)
    return out


class C26(core.Check):
    pid = "C26"
    pkg = "B64"
    props_mod = "HioModel.Props.C26"
    design_ref = "DESIGN.md §5 C26"
    technique = "Lean 4 theorems over a model of the Base64 helpers + regenerated alphabet tables + differential run against hio.help.helping"
    level_text = ("Lean theorems for all n, l, all strings and all byte lists (unbounded): int_roundtrip_partial (all (n,l) != (0,0)), "
                  "digits_count (minimal length), code_roundtrip, code_of_target (arbitrary binary target: l chars, decoding them gives nabSextets), nab_keeps_leading_bits, plus the error branches; the (0,0) point is proved to fail "
                  "(int_roundtrip_fails_at_0_0) and is a recorded known finding. The alphabet tables the proofs use are re-extracted from the module on every run; "
                  "the hand-written model is tied to the code by a seeded differential run (and an exhaustive small scope in thorough).")
    level_note = ("Trusted: Lean kernel + propext/Classical.choice/Quot.sound; the translator harness/extract/b64.py; that the sampled correspondence is representative "
                  "(Python int ops modelled as Nat ops; float ceil in sceil modelled as integer ceiling).")
    quick_n = 3000
    thorough_n = 200000
    rule = ("(b2 b l) codeB2ToB64 and nabSextets on one arbitrary target given as bytes, bytearray and (when valid utf-8, incl. 2-4 byte characters) str; (seq ..) histories may contain calls that raise on the unchanged tree (BAD table: wrong argument types, short/foreign input) between the valid calls; "
            "cases: (int n l) intToB64 then b64ToInt; (code s) codeB64ToB2 then codeB2ToB64; (nab b l) nabSextets; "
            "(codeseq s1 s2 ..) a history of code conversions of related strings in one process (same leading sextets, lengths 4k-1/4k, extensions by A); (dec s) b64ToInt on arbitrary code points.  n mixes 0, 64^k±1 and uniform up to 2^256; l in 0..70; "
            "strings up to 40 chars over the alphabet (dec: also foreign chars).  non-trivial = not (n<64 and l<=1) and not empty string; distinct by request line")
    trusted_base = ["translator harness/extract/b64.py (alphabet tables read from the imported module)",
                    "correspondence harness/props/C26.py: model driver vs hio.help.helping on the same calls",
                    "modelled: Python int arithmetic as Nat, str as code-point list, bytes as list of Nat<256"]
    assumptions = ["CPython int |, <<, >>, to_bytes, from_bytes behave as Lean Nat |||, <<<, >>>, big-endian digits"]

    def extract(self):
        return xb64.extract()

    def corpus(self):
        return [("int", 0, 0), ("int", 5, 0), ("int", 0, 1), ("int", 63, 1), ("int", 64, 1), ("int", 4095, 5),
                ("code", [ord('A')]), ("code", [ord(c) for c in "AAAA"]), ("code", [ord(c) for c in "_-9z"]),
                ("code", []), ("codeseq", [[ord(c) for c in "-BCA"], [ord(c) for c in "-BC"], [ord(c) for c in "-BCAA"]]),
                ("codeseq", [[ord(c) for c in "ABCDEFG"], [ord(c) for c in "ABCDEFGA"]]), ("nab", [255, 255, 255], 3), ("nab", [255], 2), ("nab", [1, 2, 3, 4, 5, 6], 7),
                ("dec", [33]), ("dec", [0x41, 0x100]), ("dec", []),
                ("decb", [0x41, 0xC3, 0xA9]), ("decb", [0xFF]), ("decb", [0x42, 0x5F]),
                ("seq", [("int", 4095, 2), ("int", 4095, 2), ("code", [ord(c) for c in "-BC"]), ("nab", [255, 16, 32], 3), ("dec", [66])]),
                ("b2", [0xC3, 0xB8], 1), ("b2", [0xE2, 0x82, 0xAC], 4), ("b2", [0xE2, 0x82, 0xAC, 0x41], 3), ("b2", [0x41, 0xC3, 0xA9, 0x42], 2),
                ("b2", [0xF0, 0x9D, 0x84, 0x9E, 0x41, 0x42], 8), ("b2", [255, 254], 3), ("b2", [], 0), ("b2", [65], 0),
                ("seq", [("bad", 0), ("int", 5, 2)]), ("seq", [("bad", 4), ("code", [ord(c) for c in "-BC"]), ("bad", 15), ("b2", [1, 2, 3], 4)]),
                ("seq", [("int", 7, 1)] + [x for k in range(len(BAD)) for x in (("bad", k), ("int", 64 + k, 3))])]

    def exhaustive(self, tier):
        if tier != "thorough":
            return [], None
        cs = [("int", n, l) for n in range(0, 1 << 12) for l in range(0, 4)]
        cs += [("code", [ord(a)]) for a in B64] + [("code", [ord(a), ord(b)]) for a in B64 for b in B64]
        return cs, "all (n<4096, l<4); all code strings of length 1 and 2"

    def generate(self, rng, n, tier):
        for _ in range(n):
            k = rng.random()
            if k < 0.4:
                m = rng.random()
                if m < 0.15:
                    v = rng.randrange(0, 64)
                elif m < 0.45:
                    v = max(0, 64 ** rng.randrange(0, 44) + rng.choice([-1, 0, 1]))
                else:
                    v = rng.getrandbits(rng.randrange(1, 257))
                yield ("int", v, rng.choice([0, 1, 1, 2, 3, 4, 5, 8, 22, 43, 44, 64, rng.randrange(0, 71)]))
            elif k < 0.7:
                ln = rng.choice([0, 1, 2, 3, 4, 5, 6, 7, 8, rng.randrange(0, 41)])
                s = [ord(rng.choice(B64 if rng.random() < 0.8 else "AA_-")) for _ in range(ln)]
                yield ("code", s)
            elif k < 0.78:
                # histories of related codes: same leading sextets at lengths around a multiple of 4, prefixes,
                # extensions by 'A' (sextet 0) — equal binary for different lengths
                base = [ord(rng.choice(B64)) for _ in range(rng.choice([2, 3, 3, 4, 6, 7, 7, 8, 11, 12]))]
                fam = [base, base + [ord('A')], base[:-1], base + [ord('A'), ord('A')], base + [ord(rng.choice(B64))]]
                rng.shuffle(fam)
                yield ("codeseq", [f for f in fam[:rng.randrange(2, 6)] if f])
            elif k < 0.84:
                # mixed histories of any calls in one process (purity: no call depends on an earlier one), with
                # FAILING calls in between (BAD): nothing of a failed call may leak into a later one
                sub = []
                for c in self.generate(rng, rng.randrange(2, 5), tier):
                    if c[0] not in ("seq",):
                        if rng.random() < 0.5:
                            sub.append(("bad", rng.randrange(len(BAD))))
                        sub.append(c)
                yield ("seq", sub)
            elif k < 0.88:
                # arbitrary binary targets for the two front-of-primitive helpers; half of them valid utf-8 text
                # (ASCII, 2-, 3-, 4-byte characters) so that the str form of the same target exists
                if rng.random() < 0.5:
                    b = list("".join(chr(rng.choice(TEXT)) for _ in range(rng.randrange(0, 9))).encode("utf-8"))
                else:
                    b = [rng.choice([0, 255, 0xC3, 0xA9, rng.randrange(256)]) for _ in range(rng.randrange(0, 20))]
                yield ("b2", b, rng.choice([0, 1, 2, 3, 4, 5, 7, 8, rng.randrange(0, 28)]))
            elif k < 0.9:
                ln = rng.randrange(0, 10)
                yield ("decb", [rng.choice([ord(rng.choice(B64)), rng.randrange(256), 0xC3, 0xA9, 0xFF]) for _ in range(ln)])
            elif k < 0.94:
                ln = rng.randrange(0, 30)
                b = [rng.choice([0, 255, rng.randrange(256)]) for _ in range(ln)]
                yield ("nab", b, rng.randrange(0, 42))
            else:
                ln = rng.randrange(0, 12)
                s = [rng.choice([ord(rng.choice(B64)), rng.randrange(0, 0x250), ord('='), ord('+'), ord('/')]) for _ in range(ln)]
                yield ("dec", s)

    def request(self, case):
        if case[0] == "seq":         # the failing calls are not put to the model: it answers every other call on its own
            return ("seq", [c for c in case[1] if c[0] != "bad"])
        return case

    def compare_view(self, case, obs):
        if case[0] == "seq":
            obs = tuple(o for c, o in zip(case[1], obs) if c[0] != "bad")
        return sx.dumps(obs)

    def model_applies(self, case):
        if case[0] == "seq":
            return all(self.model_applies(c) for c in case[1])
        return case[0] != "decb"      # the model has no utf-8 decoder: raw-bytes input is judged by the oracle alone

    def run_impl(self, case):
        from hio.help import helping
        kind = case[0]
        if kind == "int":
            _, n, l = case
            a = _res(helping.intToB64, n, l)
            ab = _res(helping.intToB64b, n, l)
            if ab != a:      # the bytes variant must be the same characters
                return (a, ("bvariant-differs",))
            if a[0] != "ok":
                return (a,)
            s = "".join(chr(c) for c in a[1:])
            return (a,) + _both(helping.b64ToInt, s)
        if kind == "code":
            s = "".join(chr(c) for c in case[1])
            a2 = _both(helping.codeB64ToB2, s)
            if len(a2) > 1:
                return a2
            a = a2[0]
            if a[0] != "ok":
                return (a,)
            back = _res(helping.codeB2ToB64, bytes(a[1:]), len(s))
            if all(x < 128 for x in a[1:]):      # the binary may also be given as (ascii) str
                back_s = _res(helping.codeB2ToB64, bytes(a[1:]).decode("ascii"), len(s))
                if back_s != back:
                    return (a, back, ("str-variant-differs",) + back_s)
            return (a, back)
        if kind == "codeseq":
            return tuple(self.run_impl(("code", s)) for s in case[1])
        if kind == "nab":
            r = _res(helping.nabSextets, bytes(case[1]), case[2])
            if all(x < 128 for x in case[1]):
                rs = _res(helping.nabSextets, bytes(case[1]).decode("ascii"), case[2])
                if rs != r:
                    return (r, ("str-variant-differs",) + rs)
            return (r,)
        if kind == "b2":
            _, b, l = case
            return tuple(_target(helping.codeB2ToB64, b, l)[:1] + _target(helping.nabSextets, b, l)[:1]
                         + _target(helping.codeB2ToB64, b, l)[1:] + _target(helping.nabSextets, b, l)[1:])
        if kind == "bad":       # a call that fails on the unchanged tree; only whether it raised is recorded
            fn, args = BAD[case[1]]
            return (_res(getattr(helping, fn), *args)[:1],)
        if kind == "decb":      # raw bytes to b64ToInt (decoded as utf-8 by the library): oracle only
            return (_res(helping.b64ToInt, bytes(case[1])),)
        if kind == "seq":
            return tuple(self.run_impl(c) for c in case[1])
        if kind == "dec":
            return _both(helping.b64ToInt, "".join(chr(c) for c in case[1]))
        raise core.Infra(f"bad case {case!r}")

    def oracle(self, case, obs):
        kind = case[0]
        bad = []
        if kind == "int":
            _, n, l = case
            nd = 1
            while 64 ** nd <= n:
                nd += 1
            if obs[0][0] != "ok":
                bad.append("intToB64-raised")
            elif len(obs) != 2 or obs[1] != ("ok", n):
                bad.append("int-roundtrip")
            if obs[0][0] == "ok" and len(obs[0]) - 1 != max(l, nd):
                bad.append("int-length")
        elif kind == "code":
            s = case[1]
            if s and all(chr(c) in B64 for c in s):
                if obs[0][0] != "ok" or len(obs) != 2 or obs[1] != ("ok",) + tuple(s):
                    bad.append("code-roundtrip")
                elif len(obs[0]) - 1 != -(-len(s) * 3 // 4):
                    bad.append("code-b2-length")
        elif kind == "seq":
            for c_, o in zip(case[1], obs):
                bad += self.oracle(c_, o)
        elif kind == "decb":
            bs = bytes(case[1])
            if bs and all(chr(x) in B64 for x in bs):
                v = 0
                for x in bs:
                    v = v * 64 + B64.index(chr(x))
                if obs[0] != ("ok", v):
                    bad.append("decode-bytes-value")
            elif obs[0][0] != "raise":
                bad.append("decode-bytes-foreign-accepted")
        elif kind == "codeseq":
            # the conversions are functions of their arguments: a call must not depend on earlier calls
            for s_, o in zip(case[1], obs):
                bad += self.oracle(("code", s_), o)
        elif kind == "b2":
            _, b, l = case
            n = -(-l * 3 // 4)
            if len(obs) != 2:
                bad.append("target-form-changes-result")
            if n <= len(b):
                bits = "".join(f"{x:08b}" for x in b[:n])
                exp = tuple(ord(B64[int(bits[6 * k:6 * k + 6], 2)]) for k in range(l))
                if obs[0] != ("ok",) + exp:
                    bad.append("code-leading-sextets")
                bad += self.oracle(("nab", b, l), obs[1:2])
            else:
                if obs[0][0] != "raise":
                    bad.append("code-short-input-accepted")
                if obs[1][0] != "raise":
                    bad.append("nab-short-input-accepted")
        elif kind == "nab":
            _, b, l = case
            n = -(-l * 3 // 4)
            if n <= len(b):
                bits = "".join(f"{x:08b}" for x in b[:n])
                want = bits[:6 * l] + "0" * (8 * n - 6 * l)
                exp = tuple(int(want[i:i + 8], 2) for i in range(0, 8 * n, 8))
                if obs[0] != ("ok",) + exp:
                    bad.append("nab-leading-bits")
            elif obs[0][0] != "raise":
                bad.append("nab-short-input-accepted")
        return bad

    def known(self, case, obs, clauses):
        if case == ("int", 0, 0) and obs == (("ok",), ("raise", "ValueError")):
            return "C26-K1"
        if case[0] == "seq":     # a history is the known finding only if every violating step is exactly that finding
            bad = [(c, o) for c, o in zip(case[1], obs) if self.oracle(c, o)]
            if bad and all(self.known(c, o, None) == "C26-K1" for c, o in bad):
                return "C26-K1"
        return None

    def nontrivial(self, case, obs):
        if case[0] == "int":
            return not (case[1] < 64 and case[2] <= 1)
        if case[0] in ("codeseq", "seq"):
            return len(case[1]) > 1
        if case[0] == "bad":
            return False
        return len(case[1]) > 0

    def features(self, case, obs):
        if case[0] in ("codeseq", "seq"):
            return [case[0], f"{case[0]}:len={len(case[1])}"] + (["seq:with-failing-calls"] if any(c[0] == "bad" for c in case[1]) else [])
        if case[0] == "bad":
            return ["bad"]
        if case[0] == "b2":
            try:
                t = "utf8-text" if any(x > 127 for x in case[1]) and bytes(case[1]).decode("utf-8") is not None else "ascii-or-empty"
            except UnicodeDecodeError:
                t = "raw-bytes"
            return ["b2", "b2:" + t, f"b2:{obs[0][0]}"]
        f = [case[0], f"{case[0]}:{obs[0][0]}" + (":" + obs[0][1] if obs[0][0] == "raise" else "")]
        if case[0] == "int":
            f.append("int:l=0" if case[2] == 0 else "int:l>0")
            f.append(f"int:bits~{(case[1].bit_length() + 63) // 64 * 64}")
        return f

    def shrink(self, case):
        if case[0] == "int":
            _, n, l = case
            for n2 in {0, n // 64, n // 2, n - 1} - {n}:
                if n2 >= 0:
                    yield ("int", n2, l)
            for l2 in {0, 1, l // 2, l - 1} - {l}:
                if l2 >= 0:
                    yield ("int", n, l2)
        elif case[0] == "seq":
            for i in range(len(case[1])):
                yield ("seq", case[1][:i] + case[1][i + 1:])
            if len(case[1]) == 1:
                yield case[1][0]
        elif case[0] == "decb":
            for i in range(len(case[1])):
                yield ("decb", case[1][:i] + case[1][i + 1:])
        elif case[0] == "codeseq":
            ss = case[1]
            for i in range(len(ss)):
                if len(ss) > 1:
                    yield ("codeseq", ss[:i] + ss[i + 1:])
        elif case[0] in ("code", "dec"):
            s = case[1]
            for i in range(len(s)):
                yield (case[0], s[:i] + s[i + 1:])
        elif case[0] in ("nab", "b2"):
            _, b, l = case
            for i in range(len(b)):
                yield (case[0], b[:i] + b[i + 1:], l)
            if l:
                yield (case[0], b, l - 1)

    def mutate(self, rng, case):
        return list(self.shrink(case))


CHECK = C26()
