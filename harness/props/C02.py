"""C02 — forced exits are nested: reverse enter order, children before parent (hio.base.doing)."""
from .. import core, sx
from ..areas import sched as S


def analyse(case, d):
    """returns (clauses, inversions) ; inversions = [(scheduler, x, y)] : x closed before y although x was entered before y"""
    bad = []
    inv = []
    spec, par, pools, kids = S.spec_index(case)
    desc = S.descendants(case)
    isgroup = {i: s[0] == "group" for i, s in spec.items()}
    live = set()          # entered, not yet completely exited (exit for a leaf, exitEnd for a group)
    last_enter = {}
    episodes = []         # stack of [scheduler id, kind, [completion order of direct members]]
    forced = set()        # doers whose current incarnation was ceased
    loose = {}            # scheduler id -> forced completions of its members OUTSIDE any exit()/remove() episode of that scheduler
                          # (e.g. doers closed while an enter that raised is being unwound): same reverse-enter-order clause
    tr = d["trace"]
    for pos, e in enumerate(tr):
        i, k = e[0], e[1]
        if k == "cease":
            forced.add(i)
        if k == "enter":
            forced.discard(i)
            last_enter[i] = pos
            live.add(i)
            a = par.get(i, 0)
            if a != 0 and a not in live:
                bad.append("child-entered-outside-parent-lifetime")
        elif k == "stopBeg":
            episodes.append([0, "stop", [], pos])
        elif k == "rmBeg":
            episodes.append([i, "rm", [], pos])
        elif k == "exit" and isgroup.get(i):
            episodes.append([i, "gexit", [], pos])
        if (k == "exit" and not isgroup.get(i, False)) or k == "exitEnd":
            live.discard(i)
            if k == "exitEnd":
                left = [j for j in desc.get(i, ()) if j in live]
                if left:
                    bad.append("parent-exited-before-child")
            # completion of a member: belongs to the innermost open episode of ITS scheduler
            for ep in reversed(episodes):
                if ep[0] == par.get(i, 0):
                    ep[2].append(i)
                    break
            else:
                if i in forced:
                    loose.setdefault(par.get(i, 0), []).append(i)
        if k in ("stopEnd", "rmEnd", "exitEnd"):
            want = {"stopEnd": "stop", "rmEnd": "rm", "exitEnd": "gexit"}[k]
            if episodes and episodes[-1][0] == i and episodes[-1][1] == want:
                sid, _, order, began = episodes.pop()
                # a doer entered DURING the stop (extend from a close action) is outside the order clause
                order = [x for x in order if last_enter.get(x, -1) < began]
                for a in range(len(order)):
                    for b in range(a + 1, len(order)):
                        x, y = order[a], order[b]
                        if last_enter.get(x, -1) < last_enter.get(y, -1):
                            inv.append((sid, x, y))
            else:
                bad.append("unbalanced-episode")
        if k in S.LIFE and k != "enter":
            a = par.get(i, 0)
            if a != 0 and a not in live:
                bad.append("child-event-outside-parent-lifetime")
    for sid, order in loose.items():
        for a in range(len(order)):
            for b in range(a + 1, len(order)):
                if last_enter.get(order[a], -1) < last_enter.get(order[b], -1):
                    inv.append((sid, order[a], order[b]))
    if live:
        bad.append("alive-when-do-returned")
    if d["late"]:
        bad.append("exited-only-by-garbage-collector-after-do-returned")
    if episodes:
        bad.append("unbalanced-episode")
    if inv:
        bad.append("forced-exits-not-in-reverse-enter-order")
    r = d["raised"]
    if r in ("cancelled", "closed") and S.extras_of(case, "cancel"):
        r = "-"
    leafs = [x for x, _, _ in S.all_specs(case) if x[0] == "leaf"]
    if r.startswith("other:") or (r in ("kbint", "sysexit") and not (any(x[3] == r for x in leafs) or (r == "sysexit" and any(o == "sysexit" for x in leafs for _, o in x[4])))):
        bad.append("unexpected-exception-from-do:" + r.split(":")[-1])
    return sorted(set(bad)), inv


class C02(S.SchedCheck):
    pid = "C02"
    ways = True
    props_mod = "HioModel.Props.C02"
    design_ref = "DESIGN.md §5 C02, Appendix A.1"
    technique = ("Lean 4 theorems over the shared scheduler model (counting invariant enter/exit, structure of a forced stop, order preservation of the zipper), "
                 "differential run against hio.base.doing; episode-based order oracle on the real trace")
    level_text = ("Lean theorems for every program/limit/fuel: forced_exit_before_return (full strength, no hypothesis: per id #enter = #exit in the trace of every run, incl. extend, remove, KeyboardInterrupt, failing enters), group_exit_balanced; forced_close_reverse_nested (every forced stop = the complete close blocks of the live deeds in exactly reverse deque order, for every state), children_before_parent / _raised / _enter_fail / clean_group_has_no_live_child (every code path that emits a DoDoer's exitEnd has closed all its live deeds between exit and exitEnd, counting invariant), deque_keeps_enter_order_partial + enter_keeps_spec_order + forced_exit_order_partial (the deque order is the enter order, hence the final Doist.exit() closes in reverse enter order, under the guard that no top-level doer of that scheduler extends). The unguarded order clause is FALSE in the code (forced_exit_order_fails_after_extend, decide) = known finding C02-K1 (pre-finding F03). All of it is also proved for Model2 (exception kinds at steps and enters, failing clean actions: the *2 theorems), and for Model3 (ops issued from cease/exit actions, re-entrant forced shutdown) the exit clause: forced_exit_before_return3_reentrant (no hypothesis on the program; starved=false = the model's close fuel sufficed) and group_exit_balanced3_reentrant. F02 (rotated deque) was repaired on fix/sched. Nested DoDoers, whole lifetime (section G): an order-preserving embedding FitsL of the live deeds into the spec kids is established by enter (enter_establishes_nested_order), preserved by every cycle and every DoDoer yield at every depth under the no-extend guard (cycle_keeps_nested_order_partial, dodoer_yield_keeps_nested_order_partial), and every close site closes a fitting list in reverse (fits_means_reverse_enter_order, removed_closed_in_order, dodoer_raise_closes_in_order_partial, forced_exit_order_nested_partial). The bridge from spec order to positions of enter events in the trace is stated at the Doist level (forced_exit_order_partial).")
    level_note = ('Trusted: as C01.  The episode oracle (Doist.exit in do(), DoDoer exit..exitEnd, every remove() call) is independent of the model.')
    profiles = ("mixed", "ops", "faults", "faults", "bexc", "closeops", "benter", "actfault", "xext", "cancel")

    def corpus(self):
        return list(S.CORPUS) + list(S.CORPUS_BEXC) + list(S.CORPUS_R2)
    rule = ("as C01 (same generators, bias to faults in mid cycle); episodes = Doist.exit() in do(), a DoDoer's exit()..exitEnd, every remove() call; in each the direct members must be "
            "completed (exit, exitEnd for a DoDoer) in reverse order of their latest enter, descendants before exitEnd.  non-trivial = >=12 events and a forced close happened; distinct by request line")

    def exhaustive(self, tier):
        if tier != "thorough":
            return [], None
        return S.exhaustive_scope(), S.EXH_NAME

    def nontrivial(self, case, obs):
        return len(obs.d["trace"]) >= 12 and any(e[1] == "cease" for e in obs.d["trace"])

    def oracle(self, case, obs):
        return analyse(case, obs.d)[0]

    def known(self, case, obs, clauses):
        # C02-K1 (pre-finding F03): a doer extended in mid cycle is queued before the extender (and before everything
        # not yet visited in that cycle), so a later forced stop closes it too late.  Trigger: the ONLY violated clause is
        # the order clause and in every inverted pair the later-entered doer is a pool doer of that scheduler (entered by extend()).
        if clauses != ["forced-exits-not-in-reverse-enter-order"]:
            return None
        spec, par, pools, kids = S.spec_index(case)
        _, inv = analyse(case, obs.d)
        if inv and all(y in pools.get(sid, ()) for sid, x, y in inv):
            return "C02-K1"
        return None


CHECK = C02()
