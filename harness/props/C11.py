"""C11 — closing a TCP endpoint releases every socket it opened (hio.core.tcp serving/clienting)."""
import errno

from .. import core, sx
from ..areas import tcp as T
from ..extract import tcp as xtcp

RCS = [0, 0, errno.EINPROGRESS, errno.EALREADY, errno.ECONNREFUSED, errno.EINVAL, errno.EISCONN, errno.ETIMEDOUT]


def _cli_parts(case):
    """("cli", tls, ops) | ("clit", tls, reconnectable, tymeout, ops) -> (tls, reconnectable, tymeout, ops)"""
    if case[0] == "cli":
        return (case[1], False, 0, case[2])
    return (case[1], case[2], case[3], case[4])   # clit and clix


def _gen_cli_ops(rng, tls, tmo):
    ops = []
    since = 0
    for _ in range(rng.randrange(1, 16)):
        r = rng.random()
        if r < 0.12:
            ops.append(("reopen",))
        elif r < 0.2:
            ops.append(("close",))
        elif r < 0.24 and tmo is not None:
            ops.append(("wind", rng.choice([0, 3, 100])))
            since = 0
        elif r < 0.45 and tmo is not None:
            d = max(0, tmo - since + rng.choice([-1, 0, 0, 1])) if (tmo and rng.random() < 0.6) else rng.choice([0, 1, 2, tmo or 3, 2 * (tmo or 1) + 1])
            ops.append(("tick", d))
            since = 0 if d >= (tmo or 0) else since + d
        elif r < 0.6:
            # what the kernel will say on the current socket: data, graceful EOF, resets and other faults, would-block, partial sends
            kind = "clienttls" if tls else "client"
            recvs = T.gen_recvs(rng, kind, rng.randrange(0, 4), fault_p=0.2, flavour=rng.choice(["conn", "wb", None]))
            if rng.random() < 0.4:
                recvs.append(("d", b""))          # the far side closes gracefully
            ops.append(("feed", T.gen_sends(rng, kind, rng.randrange(0, 3), 6, fault_p=0.2, flavour=rng.choice(["conn", "wb"])), recvs))
        elif r < 0.66:
            ops.append(("tx", T.gen_bytes(rng, rng.choice([1, 3, 9]))))
        else:
            hs = None
            if tls and rng.random() < 0.8:
                hs = rng.choice([("ok",), ("ok",), ("f", T.WANT_READ), ("f", T.WANT_READ), ("f", T.WANT_WRITE), ("f", rng.choice(T.conn_fault_codes("clienttls") + [errno.ECONNABORTED])),
                                 ("f", rng.choice(T.ALL_CODES))])
            ops.append((rng.choice(["connect", "service", "service"]), rng.choice(RCS + [0, 0, 0]), hs))
    if rng.random() < 0.7:
        ops.append(("close",))
    return ops


class C11(core.Check):
    pid = "C11"
    pkg = "Tcp"
    props_mod = "HioModel.Props.C11"
    design_ref = "DESIGN.md §5 C11"
    technique = ("Lean 4 invariant proofs over a model of Server/ServerTls (ixes, cxes, dropped remoters, listen sockets) and of Client/ClientTls open/reopen/close/serviceConnect, "
                 "for every op history; differential run of the compiled model against the real classes on counting fake sockets; thorough adds real loopback sockets")
    level_text = ("Proved for every history of accept (incl. same-address replacement) / handshake progress-complete-abort / fault / transmit / removeIx / close / reopen / service "
                  "and every script: dropped_are_closed (a remoter the server no longer references has been closed), close_releases_all (after close no socket the server ever obtained is open, "
                  "TLS handshakes pending included), reopen_releases_all, client_never_leaks (for every reconnectable flag and tymeout and every history of reopen / close / virtual-tyme ticks / serviceConnect with any connect_ex result and handshake response — incl. the auto-reconnect retry tymer expiring before or after accept — the client holds at most its current socket open), client_close_releases_all. "
                  "The models are tied to the code by the correspondence run on fake sockets that record close(); real-socket run in thorough keeps every accepted socket object alive so GC cannot hide a leak.")
    level_note = ("Trusted: Lean kernel + standard axioms; translator (handshake outcome tables, loop handlers); the fake socket's close() bookkeeping; "
                  "removeIx(close=False) (a deliberate hand-over of the socket to the caller) is outside the modelled histories.")
    quick_n = 2000
    thorough_n = 20000
    rule = ("cases: (srv tls ops) with ops accept-peer(ca, scripts) / service / transmit / removeIx / close / reopen, 1-4 addresses, re-connections from an address already in the table "
            "(also twice within one service pass), TLS handshakes left pending, aborted, completing late; always ends with close. (cli/clit tls reconnectable tymeout ops) reopen / close / tick / serviceConnect with every connect_ex result (in progress, refused, accepted) and "
            "handshake response, ticks biased to the retry deadline; (realcli ...) a reconnecting client on real sockets against a bound-not-listening port, a listener with a full accept queue, a listener that never handshakes. non-trivial = at least two sockets ever accepted and at least one of: a replacement, a pending/aborted handshake at close, a removal, a reopen; distinct by request line")
    trusted_base = ["correspondence harness/props/C11.py (compiled model vs real classes on counting fake sockets)", "translator harness/extract/tcp.py",
                    "fake socket harness/areas/tcp.py:FakeSock"]
    assumptions = ["socket.close() releases the descriptor; a Remoter is the only holder of its socket"]

    def extract(self):
        return xtcp.extract()

    def corpus(self):
        W = T.WANT_READ
        return [
            # F13: TLS close with handshakes pending
            ("srv", True, [("conn", 1, [], [], [("f", W)]), ("conn", 2, [], [], []), ("conn", 3, [], [], [("ok",)]), ("svc",), ("svc",), ("close",)]),
            # F14: same-address replacement, across and within a service pass; TLS: in cxes, and on promotion to ixes
            ("srv", False, [("conn", 1, [], [("d", b"a")], []), ("svc",), ("conn", 1, [], [], []), ("svc",), ("close",)]),
            ("srv", False, [("conn", 1, [], [], []), ("conn", 1, [], [], []), ("conn", 1, [], [], []), ("svc",), ("close",)]),
            ("srv", True, [("conn", 1, [], [], []), ("svc",), ("conn", 1, [], [], [("ok",)]), ("svc",), ("close",)]),
            ("srv", True, [("conn", 1, [], [], [("ok",)]), ("svc",), ("conn", 1, [], [], [("f", W), ("ok",)]), ("svc",), ("svc",), ("close",)]),
            ("srv", True, [("conn", 1, [], [], [("f", errno.ECONNRESET)]), ("conn", 2, [], [("f", errno.EBADF)], [("ok",)]), ("svc",), ("rm", 2), ("reopen",), ("conn", 2, [], [], []), ("svc",), ("close",)]),
            # accept() itself fails (EMFILE ...) in a pass that has already accepted others; then close
            ("srv", False, [("conn", 1, [], [], []), ("conn", 2, [], [], []), ("afault", errno.EMFILE), ("conn", 3, [], [], []), ("svc",), ("close",)]),
            ("srv", True, [("conn", 1, [], [], [("ok",)]), ("afault", errno.ECONNABORTED), ("conn", 2, [], [], []), ("svc",), ("svc",), ("afault", errno.ENFILE), ("svc",), ("close",)]),
            ("srv", False, [("afault", errno.EMFILE), ("conn", 1, [], [], []), ("svc",), ("reopen",), ("close",)], "doer"),
            ("real", False, [("peer", 1), ("peer", 2), ("afault", 1), ("svc",), ("close",)]),
            ("real", True, [("peer", 1), ("peer", 2), ("peer", 3), ("afault", 2), ("svc",), ("svc",), ("close",)]),
            # the listen socket cannot be had (address in use / no permission): open() fails, possibly several times, then close
            ("srv", False, [("reopenf", "bind", errno.EADDRINUSE), ("close",)]),
            ("srv", True, [("conn", 1, [], [], []), ("svc",), ("reopenf", "bind", errno.EADDRINUSE), ("reopenf", "listen", errno.EACCES), ("reopen",), ("conn", 2, [], [], [("ok",)]), ("svc",), ("close",)]),
            ("srv", False, [("reopenf", "listen", errno.EADDRINUSE), ("reopenf", "bind", errno.EADDRNOTAVAIL), ("svc",), ("close",)], "doer"),
            ("real", False, [("peer", 1), ("svc",), ("clash",), ("close",), ("clash",)]),
            ("real", True, [("clash",), ("peer", 1), ("svc",), ("close",)]),
            # graceful EOF / reset seen by the server on some connections, then close
            ("srv", False, [("conn", 1, [], [("d", b"a"), ("d", b"")], []), ("conn", 2, [], [("f", errno.ECONNRESET)], []), ("conn", 3, [("f", errno.EPIPE)], [], []),
                            ("svc",), ("tx", 3, b"x"), ("svc",), ("close",)]),
            ("srv", True, [("conn", 1, [], [("d", b"")], [("ok",)]), ("conn", 2, [], [], [("f", T.WANT_READ)]), ("svc",), ("svc",), ("reopen",), ("close",)]),
            # accepted sockets whose peer reset before accept, and sockets still waiting in .axes when close() comes
            ("srv", False, [("dconn", 1), ("conn", 2, [], [], []), ("svc",), ("close",)]),
            # the other entry points: Doer wrapper, context managers, serviceReceivesIx / closeIx / closeAllIx, unknown addresses
            ("srv", True, [("conn", 1, [], [], [("ok",)]), ("conn", 2, [], [], []), ("svc",), ("conn", 1, [], [], [("ok",)]), ("svc",), ("close",), ("reopen",), ("close",)], "doer"),
            ("srv", False, [("conn", 1, [], [("f", errno.EBADF)], []), ("conn", 2, [], [("d", b"x")], []), ("svc",), ("rxix", 2), ("rxix", 9), ("closeix", 2), ("tx", 7, b"a"), ("rm", 5)], "ctx"),
            ("srv", False, [("conn", 1, [], [("f", T.EAGAIN), ("f", errno.EIO)], []), ("conn", 2, [], [], []), ("svc",), ("rxix", 1), ("closeall",), ("svc",), ("close",)]),
            ("clix", True, True, 2, [("connect", 0, ("ok",)), ("feed", [], [("d", b"")]), ("service", 0, None), ("tick", 2), ("service", 0, None)], "ctx"),
            ("clix", False, False, 0, [("reopen",), ("service", 0, None), ("feed", [], [("d", b"q"), ("d", b"")]), ("service", 0, None), ("reopen",), ("close",)], "doer"),
            ("clit", False, True, 8, [("connect", errno.EINPROGRESS, None), ("tick", 5), ("wind", 100), ("tick", 7), ("connect", errno.EALREADY, None), ("tick", 1), ("connect", errno.EALREADY, None), ("close",)]),
            ("srv", True, [("conn", 1, [], [], []), ("dconn", 2), ("conn", 3, [], [], [("ok",)]), ("svc",), ("dconn", 3), ("close",)]),
            ("cli", False, [("reopen",), ("connect", errno.EINPROGRESS, None), ("connect", errno.ECONNREFUSED, None), ("connect", 0, None), ("reopen",), ("close",)]),
            ("cli", True, [("connect", 0, ("f", W)), ("connect", 0, ("f", errno.ECONNRESET)), ("connect", 0, ("ok",)), ("reopen",), ("close",)]),
            ("cli", True, [("reopen",), ("connect", 0, ("f", 1010)), ("connect", 0, None), ("close",)]),
            # auto-reconnect: retry tymer expires while the connect is still in progress / refused / accepted but handshaking
            ("clit", False, True, 8, [("reopen",), ("connect", errno.EINPROGRESS, None), ("tick", 8), ("connect", errno.EALREADY, None), ("tick", 8), ("connect", errno.ECONNREFUSED, None), ("connect", 0, None), ("close",)]),
            ("clit", True, True, 2, [("connect", 0, ("f", W)), ("tick", 2), ("connect", 0, ("f", W)), ("tick", 1), ("connect", errno.EINPROGRESS, None), ("tick", 1), ("connect", errno.EALREADY, None), ("close",)]),
            ("clit", False, False, 8, [("connect", errno.EINPROGRESS, None), ("tick", 9), ("connect", errno.EALREADY, None), ("close",)]),
            # the far side closes gracefully / resets after some data; then the client reopens and closes
            ("cli", False, [("connect", 0, None), ("feed", [], [("d", b"hi"), ("d", b"")]), ("service", 0, None), ("reopen",), ("connect", 0, None), ("close",)]),
            ("cli", False, [("connect", 0, None), ("feed", [], [("d", b"")]), ("service", 0, None), ("close",), ("reopen",), ("close",)]),
            ("clit", True, True, 8, [("connect", 0, ("ok",)), ("tx", b"abc"), ("feed", [("acc", 1), ("f", errno.ECONNRESET)], [("d", b"x"), ("d", b"")]), ("service", 0, None), ("service", 0, None), ("tick", 8), ("service", 0, None), ("close",)]),
            ("realcli", False, "mute", 8, [("svc",), ("peerfin",), ("io",), ("io",), ("reopen",), ("svc",), ("peerrst",), ("io",), ("io",), ("close",)]),
            ("realcli", False, "hang", 2, [("svc",), ("tick", 2), ("svc",), ("tick", 2), ("svc",), ("close",)]),
            ("realcli", False, "refused", 2, [("svc",), ("tick", 2), ("svc",), ("svc",), ("close",)]),
            ("realcli", True, "mute", 2, [("svc",), ("svc",), ("tick", 2), ("svc",), ("tick", 3), ("svc",), ("close",)]),
        ]

    def exhaustive(self, tier):
        if tier != "thorough":
            return [], None
        # every history of length <= 4 over a small alphabet, plain and TLS, each followed by close
        W = T.WANT_READ
        alpha_plain = [("conn", 1, [], [], []), ("conn", 2, [], [("f", errno.EBADF)], []), ("svc",), ("rm", 1), ("close",), ("reopen",)]
        alpha_tls = [("conn", 1, [], [], [("ok",)]), ("conn", 1, [], [], []), ("conn", 2, [], [], [("f", errno.ECONNRESET)]), ("svc",), ("rm", 1), ("close",), ("reopen",)]
        cs = []
        import itertools
        for tls, alpha in ((False, alpha_plain), (True, alpha_tls)):
            for n in range(1, 5):
                for hist in itertools.product(alpha, repeat=n):
                    cs.append(("srv", tls, list(hist) + [("close",)]))
        return cs, "every server history of length <= 4 over {accept ca1, accept ca2 (faulty / aborting), [TLS: accept ca1 never handshaking], service, removeIx, close, reopen}, plain and TLS, each followed by close"

    def generate(self, rng, n, tier):
        for _ in range(10 if tier == "quick" else 300):
            ops = []
            for _ in range(rng.randrange(2, 12)):
                r = rng.random()
                if r < 0.45:
                    ops.append(("peer", rng.randrange(1, 4)))
                elif r < 0.75:
                    ops.append(("svc",))
                elif r < 0.85:
                    ops.append(("drop", rng.randrange(1, 4)))
                elif r < 0.88:
                    ops.append(("close",))
                elif r < 0.92:
                    ops += [("peer", 1), ("peer", 2), ("afault", rng.randrange(0, 3)), ("svc",)]
                elif r < 0.95:
                    ops.append(("clash",))
                else:
                    ops.append(("reopen",))
            yield ("real", rng.random() < 0.5, ops)
        for _ in range(8 if tier == "quick" else 200):
            tmo = rng.choice([1, 2, 8])
            ops = []
            for _ in range(rng.randrange(2, 14)):
                r = rng.random()
                ops.append(("tick", rng.choice([0, 1, tmo, tmo, tmo + 1])) if r < 0.3 else ("svc",) if r < 0.5 else ("io",) if r < 0.7 else
                           (rng.choice(["peerfin", "peerfin", "peerrst"]),) if r < 0.8 else ("tx",) if r < 0.85 else ("reopen",) if r < 0.93 else ("close",))
            yield ("realcli", rng.random() < 0.4, rng.choice(["refused", "hang", "mute"]), tmo, ops + [("close",)])
        for _ in range(n):
            if rng.random() < 0.7:
                tls = rng.random() < 0.55
                ops = T.gen_server_ops(rng, tls, "life", tier)
                v = rng.random()
                if v < 0.8:
                    yield ("srv", tls, ops)
                else:   # the same server driven through its Doer wrapper / the openServer context manager
                    yield ("srv", tls, ops, "doer" if v < 0.9 else "ctx")
            else:
                tls = rng.random() < 0.5
                if rng.random() < 0.35:
                    yield ("cli", tls, _gen_cli_ops(rng, tls, None))
                else:   # auto-reconnecting client in virtual tyme: the retry tymer expires before / after accept, mid-handshake ...
                    tmo = rng.choice([0, 1, 2, 8, 8])
                    cops = _gen_cli_ops(rng, tls, tmo)
                    v = rng.random()
                    if v < 0.8:
                        yield ("clit", tls, rng.random() < 0.85, tmo, cops)
                    else:   # through ClientDoer / the openClient context manager
                        yield ("clix", tls, rng.random() < 0.85, tmo, cops, "doer" if v < 0.9 else "ctx")

    def request(self, case):
        if case[0] == "real":
            return ("noop",)
        if case[0] == "srv":
            ops = list(case[2]) + ([("close",)] if len(case) > 3 and case[3] == "ctx" else [])
            return ("server", bool(case[1]), T.request_server(ops))
        if case[0] == "clix":
            _, tls, recon, tmo, cops, via = case
            cops = ([("reopen",)] + list(cops) + [("close",)]) if via == "ctx" else cops
            return self.request(("clit", tls, recon, tmo, cops))
        if case[0] == "realcli":
            return ("noop",)
        tls, recon, tmo, cops = _cli_parts(case)
        ops = []
        for op in cops:
            if op[0] in ("connect", "service"):
                ops.append((op[0], op[1], tuple(op[2]) if op[2] is not None else None))
            elif op[0] == "feed":
                ops.append(("feed", [tuple(x) for x in op[1]], [tuple(x) for x in op[2]]))
            else:
                ops.append(tuple(op))
        return ("cli", bool(tls), bool(recon), tmo, ops)

    def run_impl(self, case):
        if case[0] == "real":
            return T.run_real_life(case)
        if case[0] == "srv":
            return T.run_server(tuple(case[1:]))
        if case[0] == "clix":
            return T.run_client(tuple(case[1:]))
        if case[0] == "realcli":
            return T.run_real_client(case)
        return T.run_client(_cli_parts(case))

    def compare_view(self, case, obs):
        if case[0] in ("real", "realcli"):
            return "noop"
        if case[0] == "srv":
            return sx.dumps(T.strip_hard(obs))
        return sx.dumps(obs)

    def oracle(self, case, obs):
        if case[0] in ('real', 'realcli') and len(obs) == 2 and obs[0] == "EXC":
            return ["escaped:" + obs[1]]
        bad = []
        if case[0] == "real":
            for e in obs:
                if e[0] == "fds":
                    if e[1] or e[2]:
                        bad.append("real-descriptors-leaked")
                elif e[1]:
                    bad.append("real-open-after-close")
            return sorted(set(bad))
        if case[0] == "srv":
            st0, steps = obs
            sops = list(case[2]) + ([("close",)] if len(case) > 3 and case[3] == "ctx" else [])
            for op, (st, snap) in zip(sops, steps):
                if op[0] == "close":
                    if st != "ok":
                        bad.append("close-raised")
                    for e in snap:
                        closed = e[1] if e[0] == "listen" else e[7]
                        if not closed:
                            bad.append("open-after-close:" + e[0])
                elif op[0] == "reopen":
                    # everything but the new listen socket (the last one created) must be released
                    for e in snap[:-1]:
                        closed = e[1] if e[0] == "listen" else e[7]
                        if not closed:
                            bad.append("open-after-reopen:" + e[0])
            return sorted(set(bad))
        if case[0] == "realcli":
            for op, (st, nheld, stray) in zip(case[4], obs):
                if stray:
                    bad.append("client-earlier-socket-open")
            return sorted(set(bad))
        cops = _cli_parts(case)[3]
        if case[0] == "clix" and case[5] == "ctx":
            cops = [("reopen",)] + list(cops) + [("close",)]
        for op, (st, open_ids, cur, connected, cutoff, nrx, ntx, allacc, txbs) in zip(cops, obs):
            extra = [i for i in open_ids if i != cur]
            if extra:
                bad.append("client-earlier-socket-open")
            if op[0] == "close" and open_ids:
                bad.append("client-open-after-close")
        return sorted(set(bad))

    def nontrivial(self, case, obs):
        if case[0] in ('real', 'realcli') and len(obs) == 2 and obs[0] == "EXC":
            return True
        if case[0] == "real":
            return obs[-2][0] >= 3
        if case[0] == "realcli":
            return obs[-1][1] >= 3
        if case[0] in ("cli", "clit", "clix"):
            return len({o[2] for o in obs}) >= 3
        st0, steps = obs
        if not steps:
            return False
        last = steps[-1][1]
        nacc = sum(1 for e in last if e[0] != "listen")
        ops = case[2]
        cas = [o[1] for o in ops if o[0] == "conn"]
        interesting = len(cas) != len(set(cas)) or any(o[0] in ("rm", "reopen") for o in ops) or \
            any(e[0] == "cx" for st, snap in steps for e in snap) or any(e[0] != "listen" and e[3] for e in last)
        return nacc >= 2 and interesting

    def features(self, case, obs):
        if case[0] in ('real', 'realcli') and len(obs) == 2 and obs[0] == "EXC":
            return ["escaped"]
        f = [case[0], "tls" if case[1] else "plain"]
        if case[0] == "realcli":
            return f + ["realcli:" + case[2], "realcli-sockets:%d" % min(8, obs[-1][1])]
        if case[0] == "srv" and len(case) > 3:
            f.append("via:" + case[3])
        if case[0] == "clix":
            f.append("via:" + case[5])
        if case[0] in ("clit", "clix"):
            f.append("reconnectable" if case[2] else "not-reconnectable")
            f.append("tymeout:%d" % case[3])
        if case[0] == "real":
            return f + ["real-sockets:%d" % min(12, obs[-2][0])]
        if case[0] == "srv":
            st0, steps = obs
            ops = case[2]
            cas = [o[1] for o in ops if o[0] == "conn"]
            if len(cas) != len(set(cas)):
                f.append("same-address-reconnect")
            for k in ("rm", "reopen", "reopenf", "afault"):
                if any(o[0] == k for o in ops):
                    f.append("op:" + k)
            if sum(1 for o in ops if o[0] == "close") > 1:
                f.append("close-twice")
            prev = ()
            for (st, snap), op in zip(steps, ops):
                if op[0] == "close" and any(e[0] == "cx" for e in prev):
                    f.append("close-with-pending-handshake")
                prev = snap
            if steps:
                f.append("sockets:%d" % min(8, len(steps[-1][1])))
                if any(e[0] != "listen" and e[3] for e in steps[-1][1]):
                    f.append("aborted-handshake")
            if any(st not in ("ok", "skip") for st, _ in steps):
                f.append("raised")
        else:
            f.append("sockets:%d" % min(8, len({o[2] for o in obs if o[2] is not None})))
            if any(o[0] != "ok" for o in obs):
                f.append("raised")
        return f

    def shrink(self, case):
        if case[0] == "clix":
            for c in self.shrink(("clit",) + tuple(case[1:5])):
                yield ("clix",) + tuple(c[1:]) + (case[5],)
            return
        if case[0] == "srv" and len(case) > 3:
            for c in self.shrink(case[:3]):
                yield c + (case[3],)
            return
        if case[0] in ("clit", "realcli"):
            head, ops = case[:4], case[4]
            for i in range(len(ops)):
                yield head + (ops[:i] + ops[i + 1:],)
            for i, o in enumerate(ops):
                if o[0] == "tick" and o[1] > 0:
                    yield head + (ops[:i] + [("tick", o[1] - 1)] + ops[i + 1:],)
            return
        k, tls, ops = case
        for i in range(len(ops)):
            if k in ("srv",) and i == len(ops) - 1:
                continue
            yield (k, tls, ops[:i] + ops[i + 1:])
        if k == "srv":
            for i, op in enumerate(ops):
                if op[0] == "conn":
                    for j in (2, 3, 4):
                        if op[j]:
                            new = list(op)
                            new[j] = []
                            yield (k, tls, ops[:i] + [tuple(new)] + ops[i + 1:])

    def mutate(self, rng, case):
        out = list(self.shrink(case))[:40]
        if case[0] in ("srv", "cli") and len(case) == 3:
            out.append((case[0], not case[1], case[2]))
        return out


CHECK = C11()
