"""C15 — server-sent events are delivered exactly regardless of line endings and splits."""
import re

from .. import core, sx
from ..areas import httpparse as hp
from ..extract import httpparse as xhp


def _ev(e):
    """hio event -> WHATWG terms: no id yet is the empty last-event-id"""
    return (e[0] if e[0] is not None else b"", e[1], e[2])


class C15(core.Check):
    pid = "C15"
    pkg = "HttpParse"
    props_mod = "HioModel.Props.C15"
    design_ref = "DESIGN.md §5 C15, Appendix A.4"
    technique = ("Lean 4: EventSource.parseEvents as a framed reader over the terminator set {CRLF, LF, CR}; fragmentation theorem (instance of the generic one), "
                 "refinement to a whole-stream specification (split into lines, fold the field interpreter), terminator invariance; "
                 "correspondence vs the real EventSource / Respondent; oracle = independent transcription of the WHATWG interpretation applied to the bytes")
    level_text = ("Proved for all byte strings and all partitions: sse_fragmentation_independent (events, last event id, retry, pending bytes), "
                  "sse_in_response_fragmentation_independent (close-delimited and chunked, via the response reader), sse_refines_spec (the incremental reader equals the "
                  "whole-stream specification splitLines + fold), terminator_invariant (for lines without CR/LF any per-line choice among CRLF/LF/CR that is followed by more "
                  "input gives the same events; the inherent CR-then-LF ambiguity is excluded by the hypothesis), lone_cr_waits / cr_then_lf_is_one_terminator (a CR that ends the buffer is not yet a terminator; with the LF it is one CRLF). "
                  "Reconnect boundary (a sequence of streams through one Respondent; the real Client is run on the same sequences for the oracle): reconnect_keeps_only_id_and_retry, respSeq_cons (a new "
                  "connection starts from an empty receive buffer), evented_head_starts_fresh (the next evented head builds a new "
                  "event source over an empty line buffer whatever the dropped stream left), absorb_pieces, stream_events_depend_only_on_own_bytes (events of stream n+1 = the reader run on its own "
                  "body bytes from the empty state; last event id / retry its own when set, else carried). Tied to the code by the correspondence run and the regenerated eols table; the WHATWG reading itself is checked by the implementation-side oracle.")
    level_note = ("Trusted: Lean kernel; translator; sampled correspondence; UTF-8 replacement decoding is modelled (utf8Replace) and exercised by the correspondence on "
                  "malformed sequences.  Out of scope (stated in notes): BOM, NUL in id, WHATWG's end-of-stream treatment of a final lone CR (it stays pending).")
    quick_n = 900
    thorough_n = 40000
    rule = ("cases: generated event streams (id, event, single/multi-line data, empty data, retry valid/invalid, comments, unknown fields, unfinished tail; per-line terminator "
            "CRLF/LF/CR; 15% with malformed UTF-8), fed to EventSource alone or inside a response (close-delimited or chunked with seeded chunk sizes), each under a seeded "
            "partition incl. 1-byte reads and cuts inside CRLF; non-trivial = at least one event dispatched and at least one cut; distinct by request line")
    trusted_base = ["translator harness/extract/httpparse.py", "correspondence harness/props/C15.py vs httping.EventSource and clienting.Respondent",
                    "oracle: harness/areas/httpparse.py whatwg_events (HTML Living Standard 9.2.6) on the same bytes"]
    assumptions = ["a CR that is the last byte received so far is still pending (it may be half of a CRLF); the event it would end is delivered with the next byte"]

    def extract(self):
        return xhp.extract()

    def corpus(self):
        s1 = b"data: a\r\ndata: b\r\n\r\n"
        s2 = b"data: a\n\ndata:\n\nretry: +5\n\nid: 7\ndata: b\r\n\r\ndata: c\n"
        s3 = b"id: 1\rdata: x\r\rdata: y\n\nretry: 10\n:c\nevent: e\ndata\n\n"
        s4 = b"data: \xff\xe2\x82\n\nid: \xc3\n\ndata: ok\n\n"
        out = []
        for s in (s1, s2, s3, s4):
            out += [("sse", s, ()), ("sse", s, tuple(range(1, len(s)))), ("sser", "close", s, (), ()), ("sser", "chunked", s, (3, 1, 4), ())]
            w = hp.sser_wire("chunked", s, (2, 5))
            out.append(("sser", "chunked", s, (2, 5), tuple(range(1, len(w)))))
        # a sequence of streams through one Respondent: dropped inside a line / after a lone CR / inside an event, then reconnect
        a = b"id: 1\ndata: a\n\ndata: par"
        b = b"id: 5\nevent: tick\ndata: nine\ndata: ten\n\nretry: 7\n\n"
        hl = len(hp.sser_wire("close", b"", ()))
        out.append(("sseq", (("close", a, (), None, ()), ("close", b, (), None, ()))))
        out.append(("sseq", (("close", b, (), hl + 1, ()), ("close", b, (), None, (hl + 3,)), ("close", a, (), None, ()))))
        out.append(("sseq", (("close", b"data: x\r", (), None, ()), ("close", b"\ndata: y\n\n", (), None, ()))))
        out.append(("sseq", (("chunked", b, (3, 5), hp.chunk_boundaries(b, (3, 5))[2], ()), ("chunked", b, (7,), None, ()), ("close", b"data: z\n\n", (), None, ()))))
        out.append(("sseq", (("close", b"id: 9\nretry: 3\ndata: q\n\nda", (), None, ()), ("close", b"data: no id here\n\n", (), None, ()), ("close", b"id\ndata: r\n\n", (), None, ()))))
        for st in (b"\xef\xbb\xbfdata: bom\n\n", b"data: nobom\n\nid: 3\ndata: x\r\n\r\n", b"\xef\xbb", b"\xef\xbb\xbf", b"da", b"\xef\xbb\xbf\xef\xbb\xbfdata: two\n\n"):
            out.append(("sses", st, ()))
            out.append(("sses", st, tuple(range(1, len(st)))))
        # lines of exactly / around every size limit, each terminator kind, with another field of the same event after them
        for n in hp.boundary_line_sizes():
            for term in (b"\r\n", b"\n", b"\r"):
                st = b"id: 4\n" + b"data: " + b"x" * (n - 6) + term + b"data: b" + term + b"event: e\n\n" + b"data: next\n\n"
                out.append(("sse", st, ()))
                out.append(("sse", st, (6 + n, 6 + n + 1)))
            out.append(("sser", "close", b"data: " + b"y" * (n - 6) + b"\r\ndata: b\r\n\r\n", (), (100,)))
        out.append(("sse", b"data: a\r", ()))
        out.append(("sse", b"data: a\r\n", (7,)))       # F18: CR | LF
        out.append(("sse", b"retry: " + b"1" * 4400 + b"\ndata: z\n\n", (10,)))
        return out

    def generate(self, rng, n, tier):
        made = 0
        while made < n:
            s = hp.gen_sse_stream(rng, invalid_utf8=rng.random() < 0.15)
            if rng.random() < 0.3:      # a sequence of connections through the same Respondent (reconnects)
                sts = []
                for _ in range(rng.choice([2, 2, 3, 4])):
                    st = hp.gen_sse_stream(rng, invalid_utf8=rng.random() < 0.1)
                    # the real Client waits `retry` ms of (virtual) time before it reconnects: keep it within the run
                    st = re.sub(rb"(retry: ?)\d{5,}", rb"\g<1>70", st)
                    mode = "close" if rng.random() < 0.65 else "chunked"
                    sizes = tuple(rng.choice([1, 2, 3, 7, 16, 40]) for _ in range(rng.randrange(0, 6)))
                    w = hp.sser_wire(mode, st, sizes)
                    hl = len(hp.sser_wire(mode, b"", ())) if mode == "close" else None
                    r = rng.random()
                    if mode == "close":      # the connection drops anywhere in the body: inside a line, after a CR, between events
                        if r < 0.6 and len(st) > 0:
                            crs = [hl + i + 1 for i, x in enumerate(st) if x == 13]
                            drop = rng.choice(crs) if crs and rng.random() < 0.3 else hl + rng.randrange(0, len(st) + 1)
                        else:
                            drop = None
                    else:                    # chunked: dropped after a complete chunk (lines and chunks are independent), or complete
                        bs = hp.chunk_boundaries(st, sizes)
                        if r < 0.35:
                            drop = rng.choice(bs)
                        elif r < 0.65:       # inside a chunk, a size line or a chunk end: the stream never ends on its own
                            drop = rng.randrange(bs[0], len(w) + 1)
                        else:
                            drop = None
                    wl = len(w) if drop is None else drop
                    cuts = hp.cuts_for(rng, w[:wl], rng.choice(["none", "two", "uniform", "term", "ones"] if wl < 250 else ["none", "two", "uniform"]))
                    sts.append((mode, st, sizes, drop, cuts))
                yield ("sseq", tuple(sts))
                made += 1
                continue
            for _ in range(rng.choice([1, 2])):
                k = rng.random()
                if k < 0.08:         # the other public parser of EventSource, with and without a BOM
                    st = (b"\xef\xbb\xbf" if rng.random() < 0.5 else b"") + s
                    yield ("sses", st, hp.cuts_for(rng, st))
                elif k < 0.4:
                    yield ("sse", s, hp.cuts_for(rng, s))
                else:
                    mode = "close" if k < 0.7 else "chunked"
                    sizes = tuple(rng.choice([1, 2, 3, 7, 16, 40]) for _ in range(rng.randrange(0, 6)))
                    w = hp.sser_wire(mode, s, sizes)
                    yield ("sser", mode, s, sizes, hp.cuts_for(rng, w))
                made += 1
                if made >= n:
                    break

    def exhaustive(self, tier):
        if tier != "thorough":
            return [], None
        s = b"id: 1\r\ndata: a\rdata: b\n\r\nretry: 7\r\rdata:\n\n"
        cs = [("sse", s, (i,)) for i in range(1, len(s))] + [("sse", s, (i, j)) for i in range(1, len(s)) for j in range(i + 1, len(s))]
        cs += [("sse", b"dat" + bytes([c]) + b": x\nretry: 1" + bytes([c]) + b"\ndata:" + bytes([c]) + b"y\n\n", (5,)) for c in range(256) if c not in (10, 13)]
        return cs, "every 1-cut and 2-cut partition of one stream mixing CRLF / LF / CR terminators; every byte value inside a field name, a retry value and a data value"

    def request(self, case):
        return hp.request_of(case)

    def run_impl(self, case):
        return hp.run_case(case)

    def compare_view(self, case, obs):
        return sx.dumps(hp.view_of(case, obs))

    def _got(self, case, part):
        """(events, leid, retry) the client delivered, in WHATWG terms, or None when nothing evented was parsed"""
        if case[0] in ("sse", "sses"):
            if not isinstance(part, (tuple, list)) or len(part) != 5:
                return None
            ev, leid, retry, esc, _ = part
            return ([_ev(e) for e in ev], leid if leid is not None else b"", retry)
        out, tail, pend = part
        if pend is not None:
            ev, leid, retry = pend
        elif out and out[-1][0] == "ok" and out[-1][11] is not None:
            ev, leid, retry = out[-1][11], out[-1][12], out[-1][13]
        else:
            return None
        return ([_ev(e) for e in ev], leid if leid is not None else b"", None if retry == 100 else retry)

    def _oracle_seq(self, case, obs):
        """every connection delivers exactly the events its own bytes dispatch (a drop discards the unfinished line and
        event); last event id and retry are the stream's own when it sets them, else the ones carried over"""
        bad = []
        cut, whole, client, client2 = obs
        if cut != whole:
            bad.append("fragmented-differs-from-whole")
        if client != client2:         # the same reads, the end of each stream in the pass of its last read vs a pass later
            bad.append("client-result-depends-on-where-eof-falls")
        if hp.has_escape((cut, whole)) or client[0] is not None or client2[0] is not None:
            bad.append("exception-escaped")
            return bad
        leid, retry = None, 100
        expected = []
        wires = hp.sseq_wires(case)
        for (mode, stream, sizes, drop, _), w, (res, tail) in zip(case[1], wires, cut):
            # the body bytes that arrived on this connection
            if mode == "close":
                hl = len(hp.sser_wire(mode, b"", ()))
                body = stream if drop is None else stream[:max(0, drop - hl)]
            else:
                bs = hp.chunk_boundaries(stream, sizes)
                _, chunks = hp.enc_wire(stream, sizes, [], [])
                # the event source gets the data of a chunk when the chunk is complete
                body = stream if drop is None else b"".join(chunks[:max(0, sum(1 for x in bs if x <= drop) - 1)])
            ev, own_id, own_retry = hp.whatwg_events(body, want_set=True)
            expected.append(ev)
            if own_id is not None:
                leid = own_id
            if own_retry is not None:
                retry = own_retry
            dropped_chunked = mode == "chunked" and drop is not None and drop < len(hp.sser_wire(mode, stream, sizes))
            if dropped_chunked:
                # cut off: between chunks the response ends as a premature closure, inside a chunk / size line it just
                # stops; either way the events of the complete chunks were delivered and nothing of it may reach the
                # next connection
                if [m for m in res if m[0] == "ok"]:
                    bad.append("dropped-chunked-stream-reported-complete")
                    continue
                if drop in hp.chunk_boundaries(stream, sizes) and (not res or res[-1][0] != "err"):
                    bad.append("dropped-chunked-stream-not-ended")
                    continue
                got_ev = [_ev(e) for e in (tail[2] if len(tail) > 2 else [])]
            else:
                oks = [m for m in res if m[0] == "ok"]
                if len(oks) != 1 or len(res) != 1 or oks[0][11] is None:
                    bad.append("no-event-stream-parsed")
                    continue
                m = oks[0]
                got_ev = [_ev(e) for e in m[11]]
                if m[12] != leid:
                    bad.append("last-event-id")
                if m[13] != retry:
                    bad.append("retry")
                if len(tail) > 2 and tail[2]:
                    bad.append("stray-events")
            if got_ev != ev:
                bad.append("events-differ-from-stream")
        # the same through the real Client (scripted connector, reconnects): what it delivered during each connection
        esc, per, cleid, cretry = client
        if [[_ev(e) for e in evs] for evs in per] != expected[:len(per)] or len(per) != len(expected):
            bad.append("client-events-differ-from-streams")
        if cleid != leid:
            bad.append("client-last-event-id")
        if cretry != retry:
            bad.append("client-retry")
        return bad

    @hp.total
    def oracle(self, case, obs):
        if case[0] == "sseq":
            return self._oracle_seq(case, obs)
        if case[0] == "sses":
            bad = []
            cut, whole = obs
            if cut != whole:
                bad.append("fragmented-differs-from-whole")
            if cut[3] is not None:
                bad.append("exception-escaped")
                return bad
            st = case[1]
            if len(st) < 3:
                return bad
            exp = hp.whatwg_events(st[3:] if st[:3] == b"\xef\xbb\xbf" else st, want_set=True)
            if [_ev(e) for e in cut[0]] != exp[0]:
                bad.append("events-differ-from-stream")
            if cut[1] != exp[1]:
                bad.append("last-event-id")
            if cut[2] != exp[2]:
                bad.append("retry")
            return bad
        bad = []
        cut, whole = obs
        if cut != whole:
            bad.append("fragmented-differs-from-whole")
        stream = case[1] if case[0] == "sse" else case[2]
        # a line longer than MAX_LINE_SIZE is refused (LineTooLong, an HTTPException: the response ends errored)
        toolong = any(len(l) > hp.max_line_size() for l in re.split(rb"\r\n|\n|\r", stream))
        if case[0] == "sse" and toolong:
            if cut[3] != "LineTooLong":
                bad.append("too-long-line-accepted")
            return bad
        if hp.has_escape(obs) or (case[0] == "sse" and cut[3] is not None):
            bad.append("exception-escaped")
            return bad
        if toolong:
            return bad
        exp = hp.whatwg_events(stream)
        got = self._got(case, cut)
        if got is None:
            bad.append("no-event-stream-parsed")
            return bad
        if got[0] != exp[0]:
            bad.append("events-differ-from-stream")
        if got[1] != exp[1]:
            bad.append("last-event-id")
        if got[2] != exp[2] and not (case[0] != "sse" and exp[2] == 100):
            bad.append("retry")
        return bad

    @hp.safe(True)
    def nontrivial(self, case, obs):
        if case[0] == "sseq":
            return sum(len(m[11] or ()) for res, _ in obs[0] for m in res if m[0] == "ok") >= 1
        g = self._got(case, obs[0])
        return bool(hp.case_cuts(case)) and g is not None and len(g[0]) >= 1

    @hp.safe(list)
    def features(self, case, obs):
        if case[0] == "sseq":
            f = ["sseq", f"sseq:streams:{len(case[1])}"]
            for mode, stream, sizes, drop, cuts in case[1]:
                w = hp.sser_wire(mode, stream, sizes)
                if drop is None or drop >= len(w):
                    f.append("sseq:complete:" + mode)
                else:
                    last = w[:drop][-1:]
                    inside = mode == "chunked" and drop not in hp.chunk_boundaries(stream, sizes)
                    f.append("sseq:drop:" + mode + (":inside-chunk" if inside else ":after-cr" if last == b"\r" else ":line-end" if last == b"\n" else ":mid-line"))
            return f
        f = [case[0] if case[0] in ("sse", "sses") else "sser:" + case[1]]
        s = case[1] if case[0] in ("sse", "sses") else case[2]
        g = self._got(case, obs[0])
        f.append(f"events:{min(len(g[0]), 4) if g else 'none'}")
        cuts = hp.case_cuts(case) or ()
        f.append("cuts:" + ("0" if not cuts else "all" if len(cuts) == len(hp.case_data(case)) - 1 else "some"))
        if b"\r\n" in s:
            f.append("has-crlf")
        if b"\r" in s.replace(b"\r\n", b""):
            f.append("has-lone-cr")
        if any(c and hp.case_data(case)[c - 1:c + 1] == b"\r\n" for c in cuts):
            f.append("cut-inside-crlf")
        if b"retry" in s:
            f.append("retry")
        try:
            s.decode()
        except UnicodeDecodeError:
            f.append("bad-utf8")
        return f

    def shrink(self, case):
        return hp.shrink_case(case)

    @hp.safe(list)
    def mutate(self, rng, case):
        if case[0] == "sseq":
            return list(hp.shrink_case(case))[:40]
        out = []
        d = hp.case_data(case)
        for st in ("ones", "term", "uniform", "two"):
            lst = list(case)
            lst[2 if case[0] in ("sse", "sses") else 4] = hp.cuts_for(rng, d, st)
            out.append(tuple(lst))
        return out


CHECK = C15()
