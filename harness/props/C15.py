"""C15 — server-sent events are delivered exactly regardless of line endings and splits."""
from .. import core, sx
from ..areas import httpparse as hp
from ..extract import httpparse as xhp


def _ev(e):
    """hio event -> WHATWG terms: no id yet is the empty last-event-id"""
    return (e[0] if e[0] is not None else b"", e[1], e[2])


class C15(core.Check):
    pid = "C15"
    pkg = "HttpParse"
    props_mod = "HioModel.Props.C15"
    design_ref = "DESIGN.md §5 C15, Appendix A.4"
    technique = ("Lean 4: EventSource.parseEvents as a framed reader over the terminator set {CRLF, LF, CR}; fragmentation theorem (instance of the generic one), "
                 "refinement to a whole-stream specification (split into lines, fold the field interpreter), terminator invariance; "
                 "correspondence vs the real EventSource / Respondent; oracle = independent transcription of the WHATWG interpretation applied to the bytes")
    level_text = ("Proved for all byte strings and all partitions: sse_fragmentation_independent (events, last event id, retry, pending bytes), "
                  "sse_in_response_fragmentation_independent (close-delimited and chunked, via the response reader), sse_refines_spec (the incremental reader equals the "
                  "whole-stream specification splitLines + fold), terminator_invariant (for lines without CR/LF any per-line choice among CRLF/LF/CR that is followed by more "
                  "input gives the same events; the inherent CR-then-LF ambiguity is excluded by the hypothesis), lone_cr_waits / cr_then_lf_is_one_terminator (a CR that ends the buffer is not yet a terminator; with the LF it is one CRLF). "
                  "Tied to the code by the correspondence run and the regenerated eols table; the WHATWG reading itself is checked by the implementation-side oracle.")
    level_note = ("Trusted: Lean kernel; translator; sampled correspondence; UTF-8 replacement decoding is modelled (utf8Replace) and exercised by the correspondence on "
                  "malformed sequences.  Out of scope (stated in notes): BOM, NUL in id, WHATWG's end-of-stream treatment of a final lone CR (it stays pending).")
    quick_n = 900
    thorough_n = 40000
    rule = ("cases: generated event streams (id, event, single/multi-line data, empty data, retry valid/invalid, comments, unknown fields, unfinished tail; per-line terminator "
            "CRLF/LF/CR; 15% with malformed UTF-8), fed to EventSource alone or inside a response (close-delimited or chunked with seeded chunk sizes), each under a seeded "
            "partition incl. 1-byte reads and cuts inside CRLF; non-trivial = at least one event dispatched and at least one cut; distinct by request line")
    trusted_base = ["translator harness/extract/httpparse.py", "correspondence harness/props/C15.py vs httping.EventSource and clienting.Respondent",
                    "oracle: harness/areas/httpparse.py whatwg_events (HTML Living Standard 9.2.6) on the same bytes"]
    assumptions = ["a CR that is the last byte received so far is still pending (it may be half of a CRLF); the event it would end is delivered with the next byte"]

    def extract(self):
        return xhp.extract()

    def corpus(self):
        s1 = b"data: a\r\ndata: b\r\n\r\n"
        s2 = b"data: a\n\ndata:\n\nretry: +5\n\nid: 7\ndata: b\r\n\r\ndata: c\n"
        s3 = b"id: 1\rdata: x\r\rdata: y\n\nretry: 10\n:c\nevent: e\ndata\n\n"
        s4 = b"data: \xff\xe2\x82\n\nid: \xc3\n\ndata: ok\n\n"
        out = []
        for s in (s1, s2, s3, s4):
            out += [("sse", s, ()), ("sse", s, tuple(range(1, len(s)))), ("sser", "close", s, (), ()), ("sser", "chunked", s, (3, 1, 4), ())]
            w = hp.sser_wire("chunked", s, (2, 5))
            out.append(("sser", "chunked", s, (2, 5), tuple(range(1, len(w)))))
        out.append(("sse", b"data: a\r", ()))
        out.append(("sse", b"data: a\r\n", (7,)))       # F18: CR | LF
        out.append(("sse", b"retry: " + b"1" * 4400 + b"\ndata: z\n\n", (10,)))
        return out

    def generate(self, rng, n, tier):
        made = 0
        while made < n:
            s = hp.gen_sse_stream(rng, invalid_utf8=rng.random() < 0.15)
            for _ in range(rng.choice([1, 2])):
                k = rng.random()
                if k < 0.4:
                    yield ("sse", s, hp.cuts_for(rng, s))
                else:
                    mode = "close" if k < 0.7 else "chunked"
                    sizes = tuple(rng.choice([1, 2, 3, 7, 16, 40]) for _ in range(rng.randrange(0, 6)))
                    w = hp.sser_wire(mode, s, sizes)
                    yield ("sser", mode, s, sizes, hp.cuts_for(rng, w))
                made += 1
                if made >= n:
                    break

    def exhaustive(self, tier):
        if tier != "thorough":
            return [], None
        s = b"id: 1\r\ndata: a\rdata: b\n\r\nretry: 7\r\rdata:\n\n"
        cs = [("sse", s, (i,)) for i in range(1, len(s))] + [("sse", s, (i, j)) for i in range(1, len(s)) for j in range(i + 1, len(s))]
        cs += [("sse", b"dat" + bytes([c]) + b": x\nretry: 1" + bytes([c]) + b"\ndata:" + bytes([c]) + b"y\n\n", (5,)) for c in range(256) if c not in (10, 13)]
        return cs, "every 1-cut and 2-cut partition of one stream mixing CRLF / LF / CR terminators; every byte value inside a field name, a retry value and a data value"

    def request(self, case):
        return hp.request_of(case)

    def run_impl(self, case):
        return hp.run_case(case)

    def compare_view(self, case, obs):
        return sx.dumps(hp.view_of(case, obs))

    def _got(self, case, part):
        """(events, leid, retry) the client delivered, in WHATWG terms, or None when nothing evented was parsed"""
        if case[0] == "sse":
            ev, leid, retry, esc, _ = part
            return ([_ev(e) for e in ev], leid if leid is not None else b"", retry)
        out, tail, pend = part
        if pend is not None:
            ev, leid, retry = pend
        elif out and out[-1][0] == "ok" and out[-1][11] is not None:
            ev, leid, retry = out[-1][11], out[-1][12], out[-1][13]
        else:
            return None
        return ([_ev(e) for e in ev], leid if leid is not None else b"", None if retry == 100 else retry)

    def oracle(self, case, obs):
        bad = []
        cut, whole = obs
        if cut != whole:
            bad.append("fragmented-differs-from-whole")
        if hp.has_escape(obs) or (case[0] == "sse" and cut[3] is not None):
            bad.append("exception-escaped")
            return bad
        stream = case[1] if case[0] == "sse" else case[2]
        exp = hp.whatwg_events(stream)
        got = self._got(case, cut)
        if got is None:
            bad.append("no-event-stream-parsed")
            return bad
        if got[0] != exp[0]:
            bad.append("events-differ-from-stream")
        if got[1] != exp[1]:
            bad.append("last-event-id")
        if got[2] != exp[2] and not (case[0] != "sse" and exp[2] == 100):
            bad.append("retry")
        return bad

    def nontrivial(self, case, obs):
        g = self._got(case, obs[0])
        return bool(hp.case_cuts(case)) and g is not None and len(g[0]) >= 1

    def features(self, case, obs):
        f = [case[0] if case[0] == "sse" else "sser:" + case[1]]
        s = case[1] if case[0] == "sse" else case[2]
        g = self._got(case, obs[0])
        f.append(f"events:{min(len(g[0]), 4) if g else 'none'}")
        cuts = hp.case_cuts(case) or ()
        f.append("cuts:" + ("0" if not cuts else "all" if len(cuts) == len(hp.case_data(case)) - 1 else "some"))
        if b"\r\n" in s:
            f.append("has-crlf")
        if b"\r" in s.replace(b"\r\n", b""):
            f.append("has-lone-cr")
        if any(c and hp.case_data(case)[c - 1:c + 1] == b"\r\n" for c in cuts):
            f.append("cut-inside-crlf")
        if b"retry" in s:
            f.append("retry")
        try:
            s.decode()
        except UnicodeDecodeError:
            f.append("bad-utf8")
        return f

    def shrink(self, case):
        return hp.shrink_case(case)

    def mutate(self, rng, case):
        out = []
        d = hp.case_data(case)
        for st in ("ones", "term", "uniform", "two"):
            lst = list(case)
            lst[2 if case[0] == "sse" else 4] = hp.cuts_for(rng, d, st)
            out.append(tuple(lst))
        return out


CHECK = C15()
